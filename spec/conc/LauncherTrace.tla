-------------------------------- MODULE LauncherTrace --------------------------------
(* Batch trace validation for Launcher: every recorded execution of the real launch() threads and serve_unix
   worker threads must be a behaviour of Launcher, with the C33 clauses evaluated in every state reached.

   Trace file (IOEnv.TRACE_FILE): JSON array of [hashed, gpc0, ev |-> <<event, ...>>]; one event per scheduler step:
     a, k    "L" | "W" | "G" and the launcher / worker number that took the step (G: the gc_state_dir thread)
     gl, meta   park label of the collector thread ("" = none); does the .meta file exist
     nz      per worker: stdout lines it still has to deliver before its readiness line
     ll, wl  park labels of all launcher threads / of all worker threads created so far
     lk      launcher holding the file lock (0 = free)       path   worker whose socket inode the path names (0 = none)
     wo      per worker: is its listening socket open        ic     per worker: inode class (smallest worker number
     res     per launcher: "none" | "path" | "error"                with the same st_ino; 0 = not bound yet)
   Registers: 2*tid -> furthest event matched; 2*tid+1 -> clauses violated in a matched state.                  *)
EXTENDS Launcher, Sequences, Json, IOUtils, TLCExt
Traces == JsonDeserialize(IOEnv.TRACE_FILE)
VARIABLES tid, l
tvars == <<vars, tid, l>>

LLabel(p) == CASE p = "start" -> "start" [] p = "lock" -> "acq" [] p = "done" -> "EXIT" [] OTHER -> p
WLabel(p) == CASE p = "start" -> "start" [] p = "check" -> "wcheck" [] p = "bind" -> "wbind" [] p = "serving" -> "wserve"
               [] p = "closing" -> "wunlink" [] p \in {"gone", "failed"} -> "EXIT" [] OTHER -> "?"
Res(r) == IF r \in {"probe", "spawn"} THEN "path" ELSE r

GLabel(p) == CASE p = "start" -> "start" [] p = "try" -> "trylock" [] p = "probe" -> "probe" [] p = "done" -> "EXIT"
               [] OTHER -> ""
TraceInit == /\ tid \in 1..Len(Traces) /\ l = 1 /\ Init
             /\ hashed = Traces[tid].hashed /\ gpc = Traces[tid].gpc0
Ev == Traces[tid].ev[l]
Consume == l <= Len(Traces[tid].ev) /\ l' = l + 1 /\ UNCHANGED tid

\* (a trace of fewer launchers than NLaunch: the others never leave "start")
Match == /\ \A i \in 1..Len(Ev.ll) : LLabel(pc'[i]) = Ev.ll[i] /\ Res(res'[i]) = Ev.res[i]
         /\ nW' = Len(Ev.wl)
         /\ \A w \in 1..Len(Ev.wl) : /\ WLabel(wst'[w]) = Ev.wl[w]
                                     /\ Listening(w)' = Ev.wo[w]
                                     /\ ino'[w] = Ev.ic[w]
                                     /\ noise'[w] = Ev.nz[w]
         /\ lk' = (IF Ev.lk = 100 THEN G ELSE Ev.lk) /\ path' = Ev.path /\ meta' = Ev.meta /\ GLabel(gpc') = Ev.gl

TraceNext == /\ Consume
             /\ \/ /\ Ev.a = "L" /\ Ev.k \in 1..Len(Ev.ll)
                   /\ \/ LBegin(Ev.k) \/ LLock(Ev.k) \/ LProbe(Ev.k) \/ LUnlink(Ev.k) \/ LReadNoise(Ev.k) \/ LReady(Ev.k)
                      \/ (\E nz \in NoiseSet : LSpawn(Ev.k, nz))
                \/ /\ Ev.a = "W" /\ Ev.k \in Workers
                   /\ \/ WStart(Ev.k) \/ WCheck(Ev.k) \/ WBind(Ev.k) \/ WClose(Ev.k) \/ WUnlink(Ev.k)
                \/ Ev.a = "G" /\ (GStart \/ GTry \/ GProbe)
             /\ Match
TraceSpec == TraceInit /\ [][TraceNext]_tvars

Bad == {c \in {"AtMostOneServing", "SpawnOnlyIfNoneAlive", "ReturnedAccepting"} :
          \/ (c = "AtMostOneServing" /\ ~AtMostOneServing)
          \/ (c = "SpawnOnlyIfNoneAlive" /\ ~SpawnOnlyIfNoneAlive)
          \/ (c = "ReturnedAccepting" /\ ~ReturnedAccepting)}
Track == /\ TLCSet(2 * tid, IF TLCGet(2 * tid) < l THEN l ELSE TLCGet(2 * tid))
         /\ TLCSet(2 * tid + 1, TLCGet(2 * tid + 1) \cup Bad)
ASSUME \A i \in 1..Len(Traces) : TLCSet(2 * i, 0) /\ TLCSet(2 * i + 1, {})
Verdicts == \A i \in 1..Len(Traces) :
   PrintT("@@J@@" \o ToJson([tid |-> i, matched |-> TLCGet(2 * i) - 1, len |-> Len(Traces[i].ev), bad |-> TLCGet(2 * i + 1)]))
=========================================================================================
