"""C05 -- malformed requests never silently kill or hang a connection.   Spec: spec/wire/ReqClass.tla"""
import logging
import time
import warnings

import pyarrow as pa

from drivers import _wire2_req as R
from drivers._wire2_live import Live, ProcLive, pairs, split_streams
from drivers import _wire2_tlc as table
from vf import world
from vf.core import Ctx

META = {
    "engine": "wire",
    "text": "TLC walks the request-class table of ReqClass.tla (connection history x method key x request-version x "
            "protocol-version x shm segment keys incl. unusable, too small and corrupt ones x shm pointer keys incl. "
            "regions of another shape x location key x columns incl. undecodable values x row count x other metadata, plus "
            "damaged byte strings) and checks the table invariants on it; every emitted class is serialised to real Arrow "
            "IPC bytes (pyarrow writer, hand-built custom_metadata, real POSIX shared-memory segments) and written by a raw "
            "peer on a live connection to the real RpcServer.serve loop (pipe, unix and tcp pairs, a ShmPipeTransport, and "
            "a child process behind serve_stdio), after the connection history the class names, followed by a well-formed "
            "probe call; every truncation point / seeded byte flip of five seed requests is sent the same way and "
            "followed by EOF.  TLC judges every recorded observation with ReqClass!Conforms (Answered, TypedError, "
            "KeepsServing, ProbeOwnAnswer, PeerNotLeftWaiting).",
    "note": "Trusted: pyarrow as the oracle of 'is a valid single-batch IPC stream' for damaged bytes (strict framing "
            "incl. EOS marker + full validation); the raw peer's lock-step script (Script in the spec) for stream "
            "methods; watchdog 4 s confirmed by a 10 s rerun; the serve loop is wrapped in the same "
            "finally: transport.close() as the shipped accept loops, so an escaped exception is observed as EOF.  "
            "The answer-kind decision tree (Stage/Kinds) is reported as drift only.",
}

CLAUSES = ["Answered", "TypedError", "KeepsServing", "ProbeOwnAnswer", "PeerNotLeftWaiting"]
INVS = ["Total", "FaultFreeSucceeds", "OnlyCleanSucceeds", "SingleFaultExact", "BlindOnlyWhenConsumed",
        "WorldOnlyWhereItMatters"]
INVS.append("OnlyOrphanedInputSwallowed")
WALK_INVS = ["TypeOK"] + ["Inv_" + x for x in INVS]
T1, T2 = 4.0, 10.0


# ------------------------------------------------------------------------------------------------ observation
def _classify(st: dict | None) -> str:
    if st is None:
        return "none"
    if not st.get("complete"):
        return "incomplete"
    e = world.error_of(st)
    if e is None:
        return "ok"
    return "typed_error" if (e.get("type") and e.get("message")) else "untyped_error"


def _is_probe_answer(st: dict, x: int) -> bool:
    if not st.get("complete") or world.error_of(st) is not None:
        return False
    rows = [b for b, _ in st["batches"] if b.num_rows == 1 and b.schema.names == ["result"]]
    return len(rows) == 1 and rows[0].column(0)[0].as_py() == x


def exchange(lv: Live, req: bytes, script: str, x: int, ver: bool, timeout: float, with_probe: bool = True,
             strict: bool = False, may_swallow: bool = False) -> dict:
    """Raw lock-step peer: one request (+ what a client would write for it) + probe; returns the observation.
    Normally the probe is written right behind the request (a pipelining peer); strict = the probe is written only
    after the reply to the request has arrived (or the server is gone), so that the server never closes a socket
    with unread input -- which on a unix socket resets the connection and can destroy its last reply."""
    base = lv.consumed()
    probe = R.probe_bytes(x, ver) if with_probe else b""
    expect = 1
    if strict and script != "hdr":
        lv.send(req + (R.CLOSE_INPUT if script == "blind" else b""))
        lv.wait_streams(1, timeout, base)
        lv.send(probe)
    elif script == "hdr":
        lv.send(req)
        sts = lv.wait_streams(1, timeout, base)
        if not sts or not sts[0].get("complete"):
            # No (complete) reply to the stream request within the watchdog.  Never pipeline the probe behind an
            # unanswered stream request: a slow server would read it as stream input and the HARNESS would have
            # desynchronised the connection.  Report "short" so the caller confirms alone with the generous watchdog.
            return {"first": "none", "probe": "none", "died": bool(lv.died), "ended": lv.ended.is_set() and not lv.died,
                    "short": True, "reset": lv.reset, "swallowed": False, "nstreams": len(sts), "expect": 2,
                    "died_with": (lv.died[0] if lv.died else None), "err_type": None, "used": 0}
        if sts and sts[0].get("complete") and world.error_of(sts[0]) is None:
            lv.send(R.CLOSE_INPUT)          # the stream opened: header read, now close() it
            expect = 2
        lv.send(probe)
    elif script == "blind":
        lv.send(req + R.CLOSE_INPUT + probe)
    else:
        lv.send(req + probe)
    total = expect + (1 if with_probe else 0)
    swallowed = False
    if may_swallow and with_probe:
        # the table admits that this request is taken for a rejected call's orphaned input stream and gets no reply:
        # then the first reply stream is already the probe's own answer
        sts = lv.wait_streams(1, timeout, base)
        if sts and _is_probe_answer(sts[0], x):
            lv.wait_streams(2, 0.05, base)          # (nothing else must follow)
            sts = lv.streams(base)
            swallowed = len(sts) == 1
    if not swallowed:
        sts = lv.wait_streams(total, timeout, base)
    ncomplete = sum(1 for s in sts if s.get("complete"))
    first = _classify(sts[0] if sts else None)
    if swallowed:
        first, pr, ncomplete = "none", "own", total
    elif not with_probe:
        pr = "none"
    elif len(sts) > expect and sts[expect].get("complete"):
        pr = "own" if _is_probe_answer(sts[expect], x) else "other"
    else:
        pr = "none"
    short = ncomplete < total
    if short:
        lv.wait_ended(0.3)
    ended_now = lv.ended.is_set()
    err = world.error_of(sts[0]) if sts and sts[0].get("complete") else None
    return {"first": first, "probe": pr, "died": bool(lv.died), "ended": ended_now and not lv.died, "short": short,
            "reset": lv.reset, "swallowed": swallowed,
            "nstreams": len(sts), "expect": total, "died_with": (lv.died[0] if lv.died else None),
            "err_type": err.get("type") if err else None, "used": sum(len(s.get("raw", b"")) for s in sts[:total])}


def clean(o: dict) -> bool:
    return ((o["first"] in ("ok", "typed_error") or o.get("swallowed")) and o["probe"] == "own"
            and not o["died"] and not o["ended"])


class Conns:
    """Connection pool of the harness: a live connection is reused for consecutive cases as long as every exchange on
    it was clean (which is itself the property: the connection stays usable), otherwise replaced."""

    def __init__(self, servers: dict, segs=None) -> None:
        self.servers = servers
        self.live: dict = {}
        self.count: dict = {}
        self.leaked = 0
        self.pairs = dict(pairs())
        from vgi_rpc.rpc import make_tcp_pair
        from vgi_rpc.rpc._transport import ShmPipeTransport

        self.pairs["tcp"] = make_tcp_pair

        def shmpipe():
            ct, st = self.pairs["pipe"]()
            return ct, ShmPipeTransport(st, segs.static)       # the server owns a static segment

        self.pairs["shmpipe"] = shmpipe

    def get(self, wn: str, tr: str, fresh: bool) -> tuple[Live, bool]:
        key = (wn, tr)
        lv = self.live.get(key)
        if lv is not None and (fresh or self.count[key] >= 64 or lv.ended.is_set()):
            self.drop(key)
            lv = None
        if lv is None:
            lv = (ProcLive(wn) if tr == "subprocess" else
                  Live(self.servers[wn][0], self.pairs[tr], "pipe" if tr == "shmpipe" else tr))
            self.live[key] = lv
            self.count[key] = 0
        reused = self.count[key] > 0
        self.count[key] += 1
        return lv, reused

    def drop(self, key) -> bool:
        lv = self.live.pop(key, None)
        if lv is None:
            return True
        ok = lv.shutdown(T1)
        if not ok:
            self.leaked += 1
        return ok

    def close(self) -> None:
        for key in list(self.live):
            self.drop(key)


def failure_mode(o: dict) -> str:
    if o.get("hung"):
        return "hung"
    if o["died"]:
        return "escaped:" + str(o["died_with"]).split(":")[0]
    if o["ended"]:
        return "ended-after-" + o["first"]
    if o.get("swallowed"):
        return "swallowed"
    if o["first"] in ("none", "incomplete"):
        return "no-answer"
    if o["probe"] != "own":
        return "probe-" + o["probe"]
    return o["first"]


# ------------------------------------------------------------------------------------------------ damaged bytes
def _regions(seed: bytes) -> dict:
    """byte ranges of the seed request stream: schema message | batch metadata | batch body | EOS marker"""
    rd = pa.BufferReader(seed)
    pa.ipc.read_message(rd)
    a = rd.tell()
    m = pa.ipc.read_message(rd)
    c = rd.tell()
    b = c - m.body.size if m.body is not None else c
    return {"schema": (0, a), "batchmeta": (a, b), "body": (b, max(b + 1, c)) if c > b else (b - 8, b), "eos": (c, c + 8)}


def strict_valid(data: bytes) -> bool:
    """the bytes are exactly one complete IPC stream (explicit EOS) holding exactly one batch that validates fully"""
    try:
        sts = split_streams(data)
        if len(sts) != 1 or not sts[0].get("complete") or len(sts[0]["raw"]) != len(data):
            return False
        if len(sts[0]["batches"]) != 1:
            return False
        sts[0]["batches"][0][0].validate(full=True)
        return True
    except Exception:  # noqa: BLE001
        return False


def seeds(segs: R.Segments) -> dict:
    out = {}
    out["unary"] = world.raw_request(b"echo", R.ECHO, {"x": 41}, md={b"vgi_rpc.protocol_version": b"1.2.0"})
    cat = pa.schema([pa.field("a", pa.utf8(), nullable=False), pa.field("n", pa.int64(), nullable=False)])
    out["twocol"] = world.raw_request(b"cat", cat, {"a": "hello world", "n": 2}, md={b"vgi_rpc.protocol_version": b"1.2.0"})
    out["describe"] = world.raw_request(b"__describe__", R.EMPTY, batch=pa.RecordBatch.from_arrays([], schema=R.EMPTY))
    off, ln = segs.good.allocate_and_write(pa.RecordBatch.from_pydict({"x": [77]}, schema=R.ECHO))
    out["shmptr"] = world.raw_request(
        b"echo", R.ECHO, batch=pa.RecordBatch.from_arrays([pa.array([], pa.int64())], schema=R.ECHO),
        md={b"vgi_rpc.protocol_version": b"1.2.0", R.K_SEG_NAME: segs.good.name.encode(),
            R.K_SEG_SIZE: str(segs.good.size).encode(), R.K_OFF: str(off).encode(), R.K_LEN: str(ln).encode()})
    big = {b"vgi_rpc.protocol_version": b"1.2.0", b"traceparent": b"00-" + b"a" * 32 + b"-" + b"b" * 16 + b"-01",
           b"tracestate": b"k=v", b"x-custom": b"\xff\xfe\xfd", b"vgi_rpc.request_id": b"r" * 40}
    out["bigmd"] = world.raw_request(b"up", R.schema_of("up"), {"s": "payload " * 8}, md=big)
    return out, (off, ln)


def damage(case: dict, seed: bytes, rng, n: int, every: bool) -> list[tuple[bytes, dict]]:
    lo, hi = _regions(seed)[case["region"]]
    hi = min(hi, len(seed))
    outs = []
    if case["how"] == "trunc":
        pts = list(range(lo, hi)) if every or hi - lo <= n else sorted({lo, hi - 1, *rng.sample(range(lo, hi), n - 2)})
        for p in pts:
            outs.append((seed[:p], {"at": p}))
    else:
        for _ in range(n):
            p = rng.randrange(lo, hi)
            b = bytearray(seed)
            if rng.random() < 0.6:
                b[p] ^= 1 << rng.randrange(8)
            else:
                b[p] = rng.randrange(256)
            if bytes(b) != seed:
                outs.append((bytes(b), {"at": p, "byte": b[p]}))
    return outs


def run_bytes(conns: Conns, data: bytes, then_probe: bool, x: int, timeout: float) -> dict:
    lv, _ = conns.get("Ve", "pipe", fresh=True)
    base = lv.consumed()
    lv.send(data + (R.probe_bytes(x, True) if then_probe else b""))
    lv.close_write()
    ended = lv.wait_ended(timeout)
    sts = lv.streams(base)
    first = _classify(sts[0] if sts else None)
    pr = "none"
    if then_probe and len(sts) > 1 and sts[1].get("complete"):
        pr = "own" if _is_probe_answer(sts[1], x) else "other"
    o = {"first": first, "probe": pr, "died": bool(lv.died), "ended": False, "hung": not ended,
         "died_with": (lv.died[0] if lv.died else None), "nstreams": len(sts)}
    conns.live.pop(("Ve", "pipe"), None)
    if ended:
        try:
            lv.ct.close()
        except Exception:  # noqa: BLE001
            pass
    else:
        conns.leaked += 1
    return o


# ------------------------------------------------------------------------------------------------ run
def run(ctx: Ctx) -> None:
    warnings.filterwarnings("ignore")
    logging.disable(logging.CRITICAL)            # the server logs every refused request; not part of the observation
    quick = ctx.quick
    # (1) TLC: table invariants on the complete product, cases with <= MaxFaults deviating dimensions are emitted
    k = 2 if quick else 3
    nfull, cases = table.walk(ctx, "wire", "ReqClassWalk", constants={"MaxFaults": k, "FullProduct": not quick},
                              invariants=WALK_INVS,
                              name=(f"ReqClass {'classes within reach of the emission bound' if quick else 'full product'}: "
                                    f"table invariants; oracle emitted for <= {k} deviations"))
    cases += table.enumerate_cases(ctx, "wire", "ReqClass", constants={"MaxFaults": k}, cases="Bytes",
                                   expected="ExpectedBytes", name="ReqClass damaged-bytes classes")
    ctx.exhaustive = True       # (the enumeration; see far_isolated_classes_not_executed for what thorough samples)
    ctx.extra["table"] = {"classes_walked": nfull, "full_fresh_connection_product": not quick, "emitted_max_faults": k, "emitted_cases": len(cases)}
    ctx.rule = ("case = one request class of ReqClass!Cases (all classes with at most MaxFaults deviating dimensions x "
                "all 9 method-key classes and the connection-history classes; the table invariants are checked on the full product) or one damaged-bytes "
                "class; non-trivial = distinct (concrete request bytes, server world, transport) executed on a live "
                "connection to the real serve loop; of the classes with >= 3 deviations that need a connection of their own "
                "(shm keys or a connection history) every third is executed")
    ctx.assume("a header-less stream request is followed by the client's (empty) input stream exactly where the table "
               "says the server consumes it (Script = blind); classes whose acceptance is set-valued at decode time "
               "are not driven for header-less streams (Script = na)",
               "damaged bytes: pyarrow decides whether the bytes are still one valid single-batch IPC stream",
               "external-location world uses a stand-in tenacity module (not installed here); only locations that "
               "fail URL validation are sent, so nothing is fetched")

    segs = R.Segments()
    servers = {wn: R.make_server(wn) for wn in ("ve", "Ve", "vE", "VE")}
    conns = Conns(servers, segs)
    obs: list[dict] = []
    try:
        _run_requests(ctx, cases, segs, servers, conns, obs)
        _run_bytes(ctx, cases, segs, conns, obs)
    finally:
        conns.close()
        segs.close()
        logging.disable(logging.NOTSET)
    ctx.extra["leaked_connections"] = conns.leaked
    # (3) TLC judges every observation
    judged = [{"case": o["case"], "obs": o["obs"]} for o in obs]
    bad = table.judge(ctx, "wire", "ReqClass", judged, constants={"MaxFaults": 0}, conforms="Judged")
    vh: dict = {}
    ndrift = 0
    for idx, clauses in bad:
        o = obs[idx]
        for cl in clauses:
            if cl == "KindOutsideTree":          # design drift, never a violation
                ndrift += 1
                if len(ctx.drift) < 5:
                    ctx.drift.append({"what": "answer kind outside ReqClass!Kinds", "case": o["case"], "obs": o["obs"],
                                      "detail": o["detail"]})
                continue
            ctx.violation(cl, o["sig"], o["detail"])
            key = f"{cl} | {o['sig'].get('stage', o['sig'].get('culprit'))} | {o['sig']['how']}" + (" | trace" if o["sig"].get("trace") else "")
            vh[key] = vh.get(key, 0) + 1
    ctx.extra["answer_kind_outside_tree"] = ndrift
    ctx.extra["violation_histogram"] = dict(sorted(vh.items()))
    hist: dict = {}
    for o in obs:
        key = f"{o['sig'].get('stage', o['sig'].get('culprit'))}:{o['sig']['how']}"
        hist[key] = hist.get(key, 0) + 1
    ctx.extra["outcome_histogram"] = dict(sorted(hist.items()))


def _sig(case: dict, exp_w: dict | None, o: dict, tr: str, wn: str) -> dict:
    if case["k"] == "bytes":
        return {"k": "bytes", "culprit": "bytes:" + case["seed"], "bytes_how": case["how"], "region": case["region"],
                "how": failure_mode(o), "transport": tr, "world": wn}
    return {"k": "req", "hist": case["hist"], "stage": exp_w["stage"], "trace": case["extra"] == "trace", "m": case["m"],
            "cols": case["cols"], "seg": case["seg"],
            "ptr": case["ptr"], "how": failure_mode(o), "transport": tr, "world": wn}


def _tlc_obs(o: dict, wn: str, tr: str, valid: bool) -> dict:
    return {"world": wn, "transport": tr, "valid": valid, "first": o["first"], "died": o["died"], "ended": o["ended"],
            "probe": o["probe"], "hung": bool(o.get("hung", False)), "swallowed": bool(o.get("swallowed", False))}


def _after_eof(conns: Conns, key, o: dict) -> bool:
    """Close the peer's side; hung = the request was not answered in full and the serve loop does not even end."""
    ended = conns.drop(key)
    return bool(o["short"] and not o["died"] and not o["ended"] and not ended)


def _run_requests(ctx: Ctx, cases, segs, servers, conns: Conns, obs: list) -> None:
    quick = ctx.quick
    xs = ctx.rng.randrange(10_000, 900_000)
    n = prelude_failed = skipped_far = 0
    spent: dict = {}
    t0, c0 = time.monotonic(), time.process_time()
    for ci, cj in enumerate(cases):
        case, exp = cj["case"], cj["exp"]
        if case["k"] != "req":
            continue
        shm_case = case["seg"] != "none" or case["ptr"] != "none"
        isolated = shm_case or case["hist"] != "fresh"      # needs a connection of its own (per-connection state)
        # (a child process per execution is expensive: pointer requests into the good segment share one while it
        # lives -- the segment it caches is the one every such request names anyway)
        proc_shared = case["hist"] == "fresh" and case["seg"] == "good"
        nfaults = cj["faults"]
        # number of concrete variants per class: most for the classes next to an ordinary request
        if (nfaults >= 3 and isolated) or (quick and nfaults == 2):   # the many far classes: one execution each
            plan = [("Ve", ["pipe", "unix", "pipe", "tcp", "pipe", "shmpipe"][ci % 6], ci % 12)]
        elif nfaults >= 3:
            plan = [("Ve", "pipe", 0), ("Ve", ["unix", "pipe", "tcp", "shmpipe"][ci % 4], 1)]
        else:
            plan = [("Ve", "pipe", 0), ("Ve", "pipe", 1), ("Ve", "unix", 2), ("Ve", "pipe", 3), ("Ve", "tcp", 4),
                    ("Ve", "shmpipe", 5)]
        if case["ptr"] == "mismatch":
            # such bytes can take the whole server process down: only ever sent to a server in a child process
            plan = [("Ve", "subprocess", j) for j in range(1 if nfaults >= 2 else 4)]
        elif nfaults <= 1 and (not isolated or proc_shared):
            plan.append(("Ve", "subprocess", 6))        # the stdio entry point (serve_stdio) as shipped
        if case["pv"] != "ok":
            plan.append(("ve", "pipe", 4))
        if case["loc"] != "absent":
            plan += [("VE", "pipe", 5), ("VE", "pipe", 6), ("vE", "unix", 7)] if nfaults <= 2 else [("VE", "pipe", 5)]
        if not quick and nfaults <= 2 and case["ptr"] != "mismatch":
            plan += [("Ve", "pipe", 8 + j) for j in range(3 if nfaults <= 1 else 1)] + [("Ve", "unix", 11)]
        if case["ptr"] == "mismatch":
            plan = [(wn_, "subprocess", v_) for wn_, _tr, v_ in plan]
            if not proc_shared and (nfaults >= 3 or (nfaults == 2 and ci % (5 if quick else 3))):
                plan = []           # (each of these costs a child process of its own)
        if nfaults >= 3 and isolated and ci % 3:
            skipped_far += 1        # the many far classes that need a connection of their own: every third is executed
            continue
        for wn, tr, v in plan:
            script = exp[wn]["script"]
            if script == "na":
                continue
            if tr == "shmpipe" and case["m"] == "stream_nohdr" and case["ptr"] != "none":
                continue        # (pointers resolve against the server's own segment there: the blind script is undefined)
            v = v + 13 * (ci % 7)
            n += 1
            x = xs + n
            ver = wn[0] == "V"
            swal = exp[wn]["may_swallow"]

            def attempt(fresh: bool, timeout: float, strict: bool):
                segs.prepare(v)
                conc_ = R.concretise(case, v, segs, ctx.rng, static=(tr == "shmpipe"))
                lv_, reused_ = conns.get(wn, tr, fresh=fresh)
                for data, nrep in R.preludes(case["hist"], v, segs, ver):
                    base = lv_.consumed()
                    lv_.send(data)
                    got = lv_.wait_streams(nrep, timeout, base)
                    if sum(1 for s_ in got if s_.get("complete")) < nrep:
                        return None, conc_, reused_          # the history itself failed: judged where it is the case
                o_ = exchange(lv_, conc_["bytes"], script, x, ver, timeout, strict=strict, may_swallow=swal)
                return o_, conc_, reused_

            alone = isolated and not (tr == "subprocess" and proc_shared)
            t_ex = time.monotonic()
            o, conc, reused = attempt(alone, T1, False)
            if o is None:
                conns.drop((wn, tr))
                prelude_failed += 1
                n -= 1
                continue
            o["hung"] = False
            if not clean(o):
                o["hung"] = _after_eof(conns, (wn, tr), o)
                if reused or (o["short"] and not o["died"]):
                    # attribute / confirm it: the same request alone on a fresh connection, generous watchdog, strict
                    # lock-step (an exception that escaped serve on a fresh connection needs no confirmation)
                    o2, conc, _ = attempt(True, T2, True)
                    if o2 is not None:
                        o2["hung"] = _after_eof(conns, (wn, tr), o2)
                        if not (reused and clean(o2)):
                            o = o2
                            reused = False
            elif alone:
                conns.drop((wn, tr))
            tkey = f"{tr}{'/alone' if alone else ''}"
            spent[tkey] = [spent.get(tkey, [0, 0])[0] + 1, round(spent.get(tkey, [0, 0])[1] + time.monotonic() - t_ex, 2)]
            key = [conc["bytes"].hex() if len(conc["bytes"]) < 4096 else hash(conc["bytes"]), wn, tr]
            ctx.case(key)
            detail = {"case": case, "variant": v, "method": repr(conc["method"]), "metadata": {repr(a): repr(b)[:80] for a, b in conc["md"].items()},
                      "schema": str(conc["schema"]).replace("\n", "; "), "rows": conc["rows"], "script": script,
                      "observed": {a: b for a, b in o.items()}, "reused_connection": reused,
                      "request_hex": conc["bytes"].hex() if len(conc["bytes"]) < 3000 else None}
            obs.append({"case": case, "obs": _tlc_obs(o, wn, tr, True), "sig": _sig(case, exp[wn], o, tr, wn),
                        "detail": detail})
            if n % 2500 == 1:
                ctx.sample({"class": case, "world": wn, "transport": tr, "concrete_method": repr(conc["method"]),
                            "metadata_keys": [repr(a) for a in conc["md"]], "schema": detail["schema"],
                            "table_stage": exp[wn]["stage"], "observed": _tlc_obs(o, wn, tr, True)})
    ctx.extra["prelude_failed"] = prelude_failed
    ctx.extra["time_by_transport"] = spent
    ctx.extra["far_isolated_classes_not_executed"] = skipped_far
    ctx.extra["request_executions"] = {"n": n, "wall_s": round(time.monotonic() - t0, 1),
                                       "cpu_s": round(time.process_time() - c0, 1)}


def _run_bytes(ctx: Ctx, cases, segs, conns: Conns, obs: list) -> None:
    quick = ctx.quick
    segs.prepare(0)
    sd, (off, ln) = seeds(segs)
    xs = ctx.rng.randrange(1_000_000, 2_000_000)
    n = valid_n = 0
    for cj in cases:
        case = cj["case"]
        if case["k"] != "bytes":
            continue
        seed = sd[case["seed"]]
        for data, info in damage(case, seed, ctx.rng, 5 if quick else 40, every=not quick):
            n += 1
            x = xs + n
            if case["seed"] == "shmptr":      # keep the pointed-to allocation alive for every replay of the seed
                segs.good.reset()
                o2, l2 = segs.good.allocate_and_write(pa.RecordBatch.from_pydict({"x": [77]}, schema=R.ECHO))
                if (o2, l2) != (off, ln):
                    raise RuntimeError("harness: shm seed allocation moved")
            valid = strict_valid(data)
            valid_n += valid
            o = run_bytes(conns, data, case["then"] == "probe", x, T1)
            if o["hung"]:
                o = run_bytes(conns, data, case["then"] == "probe", x, T2)
            ctx.case([data.hex(), case["then"]])
            detail = {"case": case, "damage": info, "valid_ipc": valid, "observed": o, "bytes_hex": data.hex()}
            obs.append({"case": case, "obs": _tlc_obs(o, "Ve", "pipe", valid), "sig": _sig(case, None, o, "pipe", "Ve"),
                        "detail": detail})
            if n % 1500 == 1:
                ctx.sample({"class": case, "damage": info, "still_valid_ipc": valid, "observed": _tlc_obs(o, "Ve", "pipe", valid)})
    ctx.extra["damaged_byte_strings"] = {"executed": n, "still_valid_ipc": valid_n}
