"""Live raw-byte connection to a real ``RpcServer.serve`` loop (helper of drivers/c05.py, c06.py).

The *server* side is the unmodified production stack: ``RpcServer.serve`` running in a thread on the server half of
``make_pipe_pair`` / ``make_unix_pair``, with the same ``finally: transport.close()`` that every shipped accept loop
(`_serve_socket_sequential`, `_serve_socket_threaded`, `serve_stdio` via process exit) puts around it.  The *client*
side is a raw peer: bytes are written straight to the file descriptor, everything the server writes back is collected
by a reader thread and split into IPC streams afterwards (vf.world.read_streams), so what is observed is exactly
"bytes written back by the server / whether the serve loop is still running / the next call on the same connection".
"""
import os
import select
import socket
import threading
import time

import pyarrow as pa

from vf import world

EOS = b"\xff\xff\xff\xff\x00\x00\x00\x00"


def split_streams(data: bytes) -> list[dict]:
    """Split server output into IPC streams by *explicit framing* (a stream is complete only when its EOS marker has
    arrived -- pyarrow's reader would also accept a plain end of buffer, which is wrong for a live connection).
    -> [{schema, batches:[(batch, md)], complete, raw}]"""
    out: list[dict] = []
    pos, n = 0, len(data)
    rd = pa.BufferReader(data)
    while pos < n:
        start, nmsg, complete = pos, 0, False
        while True:
            if data[pos:pos + 8] == EOS:
                pos += 8
                complete = True
                break
            if n - pos < 8:
                break
            rd.seek(pos)
            try:
                m = pa.ipc.read_message(rd)
            except Exception:  # noqa: BLE001 - truncated (more bytes to come) or garbage
                m = None
            if m is None:
                break
            nmsg += 1
            pos = rd.tell()
        if not complete:
            out.append({"complete": False, "batches": [], "raw": data[start:], "partial_messages": nmsg})
            break
        sts = world.read_streams(data[start:pos])
        st = sts[0] if sts else {"batches": [], "error": "undecodable"}
        st["complete"] = "error" not in st and bool(sts)
        st["raw"] = data[start:pos]
        out.append(st)
    return out


class Live:
    def __init__(self, server, pair_factory, kind: str) -> None:
        self.kind = kind
        self.ct, self.st = pair_factory()
        self.server = server
        self.died: list[str] = []
        self.ended = threading.Event()          # serve() returned or raised
        self.buf = bytearray()
        self.eof = False
        self.reset = False                      # the read side failed (ECONNRESET): bytes the server wrote may be lost
        self._wfd = self.ct.writer.fileno()
        self._rfd = self.ct.reader.fileno()
        self._wclosed = False
        self.sth = threading.Thread(target=self._serve, daemon=True)
        self.sth.start()

    # ---- server side: exactly what the shipped accept loops do around serve()
    def _serve(self) -> None:
        try:
            self.server.serve(self.st)
        except BaseException as e:  # noqa: BLE001 - recorded, judged by the spec
            t = type(e)
            name = t.__name__ if t.__module__ == "builtins" else f"{t.__module__}.{t.__name__}"
            self.died.append(f"{name}: {e}"[:300])
        finally:
            try:
                self.st.close()
            except Exception:  # noqa: BLE001
                pass
            self.ended.set()

    def _pump(self, timeout: float) -> bool:
        """Read whatever the server wrote (wait at most `timeout` for the first byte). False = nothing new."""
        if self.eof:
            return False
        try:
            r, _, _ = select.select([self._rfd], [], [], max(0.0, timeout))
        except (OSError, ValueError):
            self.eof = True
            return False
        if not r:
            return False
        try:
            b = os.read(self._rfd, 1 << 16)
        except OSError:
            # a unix socket closed by the server while it still had unread input resets the connection and may
            # discard what the server wrote last; the caller repeats such an exchange in strict lock-step
            self.reset = True
            b = b""
        if not b:
            self.eof = True
            return True
        self.buf += b
        return True

    # ---- raw peer
    def send(self, data: bytes) -> bool:
        """Write raw bytes; False when the server side is gone (EPIPE)."""
        mv = memoryview(data)
        try:
            while len(mv):
                n = os.write(self._wfd, mv[:1 << 16])
                mv = mv[n:]
            return True
        except OSError:
            return False

    def close_write(self) -> None:
        """EOF towards the server (half close)."""
        if self._wclosed:
            return
        self._wclosed = True
        try:
            if self.kind == "pipe":
                self.ct.writer.close()
            else:
                self.ct._sock.shutdown(socket.SHUT_WR)  # noqa: SLF001 - raw peer
        except OSError:
            pass

    def streams(self, base: int = 0) -> list[dict]:
        while self._pump(0.0):
            pass
        data = bytes(self.buf[base:])
        return split_streams(data) if data else []

    def wait_streams(self, n: int, timeout: float, base: int = 0) -> list[dict]:
        """Wait until at least n *complete* response streams (counted from byte offset `base`) have arrived, the
        server side closed, or the timeout expired.  Returns whatever has arrived, split into streams."""
        deadline = time.monotonic() + timeout
        sts: list[dict] = []
        parsed = -1
        while True:
            if len(self.buf) != parsed:
                parsed = len(self.buf)
                data = bytes(self.buf[base:])
                sts = split_streams(data) if data else []
                if sum(1 for s in sts if s.get("complete")) >= n:
                    return sts
            if self.eof:
                return sts
            left = deadline - time.monotonic()
            if left <= 0:
                return sts
            self._pump(min(left, 0.5))

    def consumed(self) -> int:
        return len(self.buf)

    def wait_ended(self, timeout: float) -> bool:
        """Wait for the serve loop to end, draining what it still writes (it may be blocked on a full pipe)."""
        deadline = time.monotonic() + timeout
        while True:
            if self.ended.is_set():
                return True
            left = deadline - time.monotonic()
            if left <= 0:
                return False
            if not self._pump(min(left, 0.05)):
                self.ended.wait(min(left, 0.02))

    def shutdown(self, timeout: float = 3.0) -> bool:
        """EOF to the server; True iff the serve loop ended by itself within the timeout."""
        self.close_write()
        ok = self.wait_ended(timeout)
        if ok:
            while self._pump(0.0):
                pass
            try:
                self.ct.close()
            except Exception:  # noqa: BLE001
                pass
        return ok


class _ProcEnded:
    def __init__(self, proc) -> None:
        self.proc = proc

    def is_set(self) -> bool:
        return self.proc.poll() is not None

    def wait(self, timeout: float) -> bool:
        try:
            self.proc.wait(timeout)
            return True
        except Exception:  # noqa: BLE001 - subprocess.TimeoutExpired
            return False


class ProcLive(Live):
    """Same raw peer, but the serve loop runs in a child process behind the shipped stdio entry point (serve_stdio);
    `died` = the process was killed by a signal or exited with a non-zero status."""

    def __init__(self, world_name: str) -> None:  # noqa: D107 - deliberately not calling Live.__init__
        import subprocess
        import sys

        self.kind = "pipe"
        self.proc = subprocess.Popen([sys.executable, "-m", "drivers._wire2_worker", world_name],
                                     stdin=subprocess.PIPE, stdout=subprocess.PIPE, stderr=subprocess.DEVNULL, bufsize=0)
        self.buf = bytearray()
        self.eof = False
        self.reset = False
        self._wfd = self.proc.stdin.fileno()
        self._rfd = self.proc.stdout.fileno()
        self._wclosed = False
        self.ended = _ProcEnded(self.proc)

    @property
    def died(self) -> list[str]:
        rc = self.proc.poll()
        if rc is None or rc == 0:
            return []
        return [f"signal-{-rc}: server process killed" if rc < 0 else f"exit-{rc}: server process exited abnormally"]

    def close_write(self) -> None:
        if not self._wclosed:
            self._wclosed = True
            try:
                self.proc.stdin.close()
            except OSError:
                pass

    def shutdown(self, timeout: float = 3.0) -> bool:
        self.close_write()
        ok = self.wait_ended(timeout)
        if ok:
            while self._pump(0.0):
                pass
        else:
            self.proc.kill()
        try:
            self.proc.stdout.close()
        except OSError:
            pass
        return ok


def pairs() -> dict:
    from vgi_rpc.rpc import make_pipe_pair, make_unix_pair

    return {"pipe": make_pipe_pair, "unix": make_unix_pair}
