"""Standalone reproductions of the genuine defects found by the C20 / C24 checks (real code only, no TLC).

    cd /verif && PYTHONPATH=/repo:/verif /venv/bin/python -m drivers._authb_repro c20
    cd /verif && PYTHONPATH=/repo:/verif /venv/bin/python -m drivers._authb_repro c24
"""
import sys
import warnings
from typing import Protocol

warnings.filterwarnings("ignore")


class Svc(Protocol):
    def health_status(self, x: int) -> int: ...
    def plain(self, x: int) -> int: ...


class WhoSvc(Protocol):
    def who(self) -> str: ...


def c20() -> None:
    from vf import world
    from vgi_rpc.http._testing import make_sync_client
    from vgi_rpc.rpc import RpcServer

    ran = []

    class Impl:
        def health_status(self, x: int) -> int:
            ran.append("health_status")
            return x

        def plain(self, x: int) -> int:
            ran.append("plain")
            return x

    def reject(req):
        raise ValueError("nobody gets in")

    server = RpcServer(Svc, Impl())
    client = make_sync_client(server, prefix="/vgi", token_key=b"k" * 32, authenticate=reject)
    schema = server.methods["plain"].params_schema
    for name in ("plain", "health_status"):
        r = client.post(f"/vgi/{name}", content=world.raw_request(name.encode(), schema, {"x": 1}),
                        headers={"Content-Type": world.ARROW_CT})
        print(f"POST /vgi/{name}: status={r.status_code} service code ran={ran}")
    # expected: both 401 and ran == []; observed: health_status -> 200, ran == ['health_status']


def c24() -> None:
    from vgi_rpc.http import ProxyProofConfig, http_connect, proxy_proof_gate, require_all
    from vgi_rpc.http._testing import make_sync_client
    from vgi_rpc.rpc import CallContext, RpcServer

    class Impl:
        def who(self, ctx: CallContext) -> str:
            return f"authenticated={ctx.auth.authenticated} domain={ctx.auth.domain} principal={ctx.auth.principal!r}"

    cfg = ProxyProofConfig(mode="allow", origin_id="w1", secrets={"k1": (b"s" * 32, "edge")})
    client = make_sync_client(RpcServer(WhoSvc, Impl()), token_key=b"k" * 32,
                              authenticate=require_all(proxy_proof_gate(cfg)))
    with http_connect(WhoSvc, client=client) as proxy:
        print("request without any proof, allow mode, no inner ->", proxy.who())
    # expected: authenticated=False (anonymous); observed: authenticated=True domain=vgi_proxy_proof principal=''


if __name__ == "__main__":
    {"c20": c20, "c24": c24}[sys.argv[1]]()
