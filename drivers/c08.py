"""C08 -- client log messages are delivered once, in order, robustly.
spec/wire/LogOrder.tla + LogOrderClauses.tla (where log batches travel during one call, when the callback sees them),
spec/wire/LogContent.tla (level x text x extra product at every emission point),
spec/wire/LogPeer.tla (decision table: any log metadata a peer can send -> Delivered | Ignored, never CallFails)."""
import warnings

from drivers import _wire1_logs as G
from drivers import _wire1_util as U
from drivers import _wire1_world as W
from vf import table
from vf.core import Ctx
from vf.tlc import Raw, render_cfg, require_ok, run_tlc, sany, wrap_module

META = {
    "engine": "wire",
    "text": "(a) LogOrder.tla models one call (unary / producer / exchange, with and without header; pipe, HTTP, and HTTP "
            "with max_response_bytes where a producer's turns are buffered into one response) at the "
            "granularity of log batches, data batches and stream boundaries: messages logged in the method body, before "
            "and after the batch of every process() step, in steps that finish, raise, or emit-log-and-then-raise; every client reader delivers "
            "what it meets, including the reads done by the three ways of leaving a session (close / cancel / __exit__) "
            "right after any turn or before the first.  TLC explores every script up to the bounds and checks "
            "ExactlyOnceNoDuplicate / OnlyEmitted / InEmissionOrder / DeliveredBeforeOutcome / DeliveredByEndOfStream / "
            "ContentPreserved on every state; each replay draws the output route of its transport (inline, shared-memory "
            "side channel, external-storage configuration below threshold) and the logging entry point (CallContext or "
            "OutputCollector) per message; every script is executed on "
            "real pipe and in-process HTTP sessions and TLC judges the recorded (emission, delivery) histories with the "
            "same operators.  LogContent.tla enumerates level x text class x extra class x emission point (incl. behind the "
            "batch of the last turn taken) x exit op x transport x output route x logging entry point; "
            "each is emitted by a real method and judged.  (b) LogPeer.tla is the decision table over everything a "
            "non-Python peer can put in log metadata (level known/unknown/missing, message present/empty/non-UTF-8/"
            "missing, extra absent / objects with keys level, message, self, arbitrary, non-string values / array / "
            "string / number / null / invalid JSON / empty / non-UTF-8 / deeply nested) x reader (unary, stream, header, "
            "HTTP init) x position (before the payload / behind it, met only by the exit) x exit op x transport; a scripted fake peer writes the raw IPC bytes to the real client (in-memory and "
            "real pipe transports, falcon WSGI sink for HTTP) and TLC judges every observation: never CallFails.",
    "note": "Trusted: message identity is carried in the text ('#n# ' prefix) in the ordering part; content equality is "
            "computed by the harness and judged as a boolean fact; user extras are compared modulo the transport's own "
            "server_id / request_id (DESIGN §7a); extras values are strings (the declared type of client_log); a batch "
            "lacking log_level or log_message is a data batch by the wire document and carries no clause; logs emitted "
            "from on_cancel are out of scope (the hook's contract says no further output batches).",
    "technique": "TLC exhaustive exploration of a TLA+ state machine of the log channel + two TLC-enumerated decision "
                 "tables; every case executed on the real server/client (or a scripted peer against the real client); "
                 "TLC judges every recorded observation",
}

ORDER_CLAUSES = ["ExactlyOnceNoDuplicate", "OnlyEmitted", "InEmissionOrder", "DeliveredBeforeOutcome", "DeliveredByEndOfStream",
                 "ContentPreserved"]
ROUTES = {"pipe": ["inline", "inline", "shm", "ext"], "http": ["inline", "inline", "ext"]}
ORDER_INVS = [f"Inv_{c}" for c in ORDER_CLAUSES] + ["NoWedge", "NothingLost"]


def order_mc(ctx: Ctx, wd, max_steps: int, pres: str, designs: str, name: str):
    wrap_module(wd, "LogOrder", "MC_LogOrder", {
        "Emit": 'Finished => PrintT("@@J@@" \\o ToJson([script |-> script, design |-> design, em |-> em, rv |-> rv]))'},
        extends="TLC, Json")
    cfg = render_cfg(constants={"MaxSteps": max_steps, "Pres": Raw(pres),
                                "Designs": Raw(designs), "FullHeaderGrid": max_steps <= 2}, invariants=ORDER_INVS + ["Emit"])
    # -workers 4: with the default (auto = 16) this model runs ~3.5x slower on this machine
    r = run_tlc(wd, "MC_LogOrder", cfg, timeout=1500, cfg_name=f"lo_{max_steps}.cfg", workers=4)
    ctx.add_tlc(name, r)
    return r


def order_cause(sc: dict, prog: dict, res: dict) -> str:
    """Input class of an ordering violation: where the messages that never reached the callback had been logged."""
    got = {e["n"] for e in res["rv"] if e["e"] == "L"}
    missing = {e["n"] for e in res["em"] if e["e"] == "l"} - got
    why = set()
    if sc["kind"] != "unary" and prog["init_raise"] and missing & {lg["id"] for lg in prog["init_logs"]}:
        why.add("log_then_raise")
    for st in prog["steps"]:
        if st["act"] in ("raise", "emitraise") and missing & {lg["id"] for lg in st["pre"]}:
            why.add("log_then_raise")
        if st["act"] == "emitraise" and missing & {lg["id"] for lg in st["post"]}:
            why.add("emit_log_then_raise")
            continue
        if sc["tr"] == "http" and sc["kind"] == "exch" and missing & {lg["id"] for lg in st["post"]}:
            why.add("http_exchange_post_log")
        if sc["tr"] == "pipe" and missing & {lg["id"] for lg in st["post"]}:
            why.add("pipe_post_log_met_at_exit")
        if sc["tr"] == "http" and sc["kind"] == "prod" and missing & {lg["id"] for lg in st["post"]}:
            why.add("http_producer_post_log_of_last_batch_taken")
    return "+".join(sorted(why, reverse=True)) or "none"


def order_key(sc: dict) -> str:
    return "|".join([sc["tr"], sc["kind"], "h" if sc["hdr"] else "-", str(sc["n0"]), "R" if sc["iraise"] else "-",
                     ",".join(f"{s['pre']}{s['act']}{s['post']}" for s in sc["steps"]), "".join(sc["ops"])])


def part_order(ctx: Ctx, wd, worlds) -> None:
    quick = ctx.quick
    max_steps, pres = (2, "{0, 2}") if quick else (3, "{0, 2}")     # 0 or 2 messages per slot (2 exercises their order)
    # one run: the clauses are invariants of the intended design; the designs "as found" / partially repaired are explored
    # side by side and only contribute their histories (what a real execution is compared with for drift)
    designs = '{"intended", "lazy"}'          # ("found" = the tree before 2c0e64a / e33f37e: kept in the spec, no longer explored)
    r = order_mc(ctx, wd, max_steps, pres, designs, f"LogOrder MaxSteps={max_steps} Pres={pres} (clauses on design=intended)")
    require_ok(r, "LogOrder intended design")
    cases: dict = {}
    for j in r.json_lines:
        k = order_key(j["script"])
        slot = cases.setdefault(k, {"script": j["script"], "designs": {}})
        if j["design"] in slot["designs"] and slot["designs"][j["design"]] != {"em": j["em"], "rv": j["rv"]}:
            raise RuntimeError(f"LogOrder model is not deterministic for {j['script']}")
        slot["designs"][j["design"]] = {"em": j["em"], "rv": j["rv"]}
    ctx.extra["scripts_where_design_lazy_http_iterator_differs_from_intended"] = sum(
        1 for c in cases.values() if c["designs"]["lazy"] != c["designs"]["intended"])
    keys = sorted(cases)
    budget = 1000 if quick else 7000          # the model is exhaustive; the replays are a seeded sample of its scripts
    if len(keys) > budget:
        keep = set(ctx.rng.sample(keys, budget))
        ctx.extra["order_scripts_not_replayed_this_run"] = len(keys) - budget
        keys = [k for k in keys if k in keep]
    ctx.extra["order_scripts_enumerated"] = len(cases)
    obs, metas = [], []
    for i, k in enumerate(keys):
        sc = cases[k]["script"]
        x = 1 + (i % 1900)
        prog, specs = G.order_prog(sc, ctx.rng)
        # the model's "pipe" / "http" stand for every output route of that transport: one is drawn per script
        route = ("buf" if sc["tr"] == "http_buf" else ctx.rng.choice(ROUTES[sc["tr"]]))
        if route == "shm":
            for stp in prog["steps"]:
                stp["rows"] = ctx.rng.choice([1, 20000])          # >= SHM_MIN_BATCH_BYTES: through the segment
        res = G.run_order_script(worlds["http" if sc["tr"] == "http_buf" else sc["tr"]][route], sc, x, prog, specs)
        ctx.case(["order", k], sample={"part": "order", "script": sc, "emitted": _c(res["em"]), "client_saw": _c(res["rv"]),
                                       "model_client_saw": _c(cases[k]["designs"]["intended"]["rv"])} if i % 1201 == 7 else None)
        obs.append({"case": {"k": k}, "obs": {"em": res["em"], "rv": res["rv"], "expects": list(cases[k]["designs"].values())}})
        metas.append((sc, res, cases[k]["designs"]["intended"], prog, specs, route))
    bad = U.judge(ctx, "wire", "LogOrderClauses", obs)
    for idx, clauses in bad:
        sc, res, exp, prog, specs, route = metas[idx]
        real = [c for c in clauses if c != "Drift"]
        if not real:
            ctx.drift.append({"part": "order", "script": sc, "real_em": _c(res["em"]), "real_rv": _c(res["rv"]),
                              "model_rv": _c(exp["rv"]), "notes": res["notes"][:3]})
            continue
        for cl in real:
            ctx.violation(cl, {"part": "order", "transport": sc["tr"], "kind": sc["kind"], "cause": order_cause(sc, prog, res),
                               "exit": sc["ops"][-1] if sc["ops"] else "-", "route": route},
                          {"script": sc, "emitted": _c(res["em"]), "client_saw": _c(res["rv"]), "model_client_saw": _c(exp["rv"]),
                           "notes": res["notes"][:4], "prog": prog, "specs": specs, "route": route})


def part_content(ctx: Ctx, worlds) -> None:
    cases = table.enumerate_cases(ctx, "wire", "LogContent", invariants=["AlwaysDelivered", "OnlyHttpProducerTailMayBeLost"],
                                  name="LogContent:enumerate")
    sel = []
    for i, cj in enumerate(sorted(cases, key=lambda c: str(sorted(c["case"].items())))):
        c = cj["case"]
        # quick: every (extra, emission point, transport) with two text classes and the level rotating; thorough: the product
        if ctx.quick and c["route"] == "inline" and c["via"] == "ctx" and (
                (hash_small(c) % 5) != G.LEVELS.index(c["lvl"]) or TXT_ORDER.index(c["txt"]) % 3 != hash_small({**c, "txt": ""}) % 3):
            continue
        if ctx.quick and c["route"] != "inline" and hash_small(c) % 2:
            continue
        if ctx.quick and c["via"] == "out" and (hash_small(c) % 5) != G.LEVELS.index(c["lvl"]):
            continue
        sel.append(c)
    obs, metas = [], []
    for i, c in enumerate(sel):
        o = G.run_content_case(worlds[c["tr"]][c["route"]], c, 1 + i % 1900)
        ctx.case(["content", sorted(c.items())], sample={"part": "content", "case": c, "observed": _pub(o)} if i % 997 == 3 else None)
        obs.append({"case": c, "obs": _pub(o)})
        metas.append((c, o))
    bad = U.judge(ctx, "wire", "LogContent", obs)
    for idx, clauses in bad:
        c, o = metas[idx]
        for cl in clauses:
            ctx.violation(cl, {"part": "content", "transport": c["tr"], "at": c["at"], "extra": c["extra"], "exit": c["exit"],
                               "route": c["route"], "via": c["via"]},
                          {"case": c, "observed": _pub(o), "notes": o["_notes"]})
    ctx.extra["content_cases_enumerated"] = len(cases)
    ctx.extra["content_cases_executed"] = len(sel)


TXT_ORDER = ["ascii", "empty", "unicode", "multiline", "jsonish", "long"]


def hash_small(c: dict) -> int:
    return sum(ord(ch) for ch in c["txt"] + c["extra"] + c["at"] + c["tr"] + c.get("exit", ""))


def part_peer(ctx: Ctx) -> None:
    cases = table.enumerate_cases(ctx, "wire", "LogPeer", name="LogPeer:enumerate",
                                  invariants=["NeverCallFails", "SomeOutcome", "WellFormedIsLog", "FreeFormKeysAreWellFormed"])
    obs, metas = [], []
    n = 0
    for cj in sorted(cases, key=lambda c: str(sorted(c["case"].items()))):
        c = cj["case"]
        allv = G.peer_variants(c, full=not ctx.quick)
        variants = [(n % len(allv), allv[n % len(allv)])] if ctx.quick else list(enumerate(allv))[:5]
        for vi, v in variants:
            n += 1
            real_pipe = c["tr"] == "pipe" and vi == 0 and (not ctx.quick or n % 4 == 0)
            o = G.run_peer_case(c, v, 1 + n % 1900, real_pipe=real_pipe)
            ctx.case(["peer", sorted(c.items()), vi], sample={"part": "peer", "case": c, "level": repr(v["level"]), "message": repr(v["msg"]),
                                                                "extra": repr((v["extra"] or b"")[:60]), "observed": _pub(o)} if n % 1499 == 5 else None)
            obs.append({"case": c, "obs": _pub(o)})
            metas.append((c, v, o, vi))
    bad = U.judge(ctx, "wire", "LogPeer", obs)
    for idx, clauses in bad:
        c, v, o, vi = metas[idx]
        for cl in clauses:
            ctx.violation(cl, {"part": "peer", "transport": c["tr"], "where": c["where"], "bad_lvl": c["lvl"] == "unknown",
                               "bad_msg": c["msg"] == "nonutf8",
                               "bad_extra": c["extra"] if c["extra"] not in ("absent", "obj_plain", "obj_empty", "obj_nonstr", "invalid", "empty") else "ok"},
                          {"case": c, "level": repr(v["level"]), "message": repr(v["msg"]), "extra": repr((v["extra"] or b"")[:80]),
                           "variant_index": vi, "variant_full": not ctx.quick,
                           "observed": _pub(o), "exception": o["_exc"], "notes": o["_notes"]})
    ctx.extra["peer_cases_enumerated"] = len(cases)


def replay(ctx: Ctx, rec: dict, worlds) -> None:
    """./check C08 --replay F: re-execute the recorded case on the real code and let TLC judge it again."""
    d, part = rec["detail"], rec["sig"]["part"]
    if part == "order":
        sc = d["script"]
        specs = {int(k): v for k, v in d["specs"].items()}
        res = G.run_order_script(worlds["http" if sc["tr"] == "http_buf" else sc["tr"]][d.get("route", "inline")], sc, 7, d["prog"], specs)
        obs = [{"case": {"k": "replay"}, "obs": {"em": res["em"], "rv": res["rv"], "expects": [{"em": res["em"], "rv": res["rv"]}]}}]
        module, shown = "LogOrderClauses", {"emitted": _c(res["em"]), "client_saw": _c(res["rv"])}
    elif part == "content":
        o = G.run_content_case(worlds[d["case"]["tr"]][d["case"].get("route", "inline")], d["case"], 7)
        obs, module, shown = [{"case": d["case"], "obs": _pub(o)}], "LogContent", {"observed": _pub(o), "notes": o["_notes"]}
    else:
        v = G.peer_variants(d["case"], d["variant_full"])[d["variant_index"]]
        o = G.run_peer_case(d["case"], v, 7)
        obs, module, shown = [{"case": d["case"], "obs": _pub(o)}], "LogPeer", {"observed": _pub(o), "exception": o["_exc"]}
    ctx.case(["replay", part], sample=shown)
    for _, clauses in U.judge(ctx, "wire", module, obs):
        for cl in clauses:
            ctx.violation(cl, rec["sig"], {**d, **shown})


def run(ctx: Ctx) -> None:
    warnings.filterwarnings("ignore")
    wd = ctx.wd.stage("wire")
    for m in ("LogOrderClauses", "LogOrder", "LogContent", "LogPeer"):
        sany(wd, m)
    if getattr(ctx, "replay_record", None):
        return replay(ctx, ctx.replay_record, {"pipe": {r: W.PipeWorld(r) for r in ("inline", "shm", "ext")},
                                               "http": {r: W.HttpWorld(r) for r in ("inline", "ext", "buf")}})
    ctx.rule = ("case = (a) one call script enumerated by TLC from LogOrder!Scripts executed on a real session, "
                "(a') one LogContent case emitted by a real method, (b) one concrete log batch of a LogPeer case written "
                "by a scripted peer and read by the real client; non-trivial = distinct (part, case, concrete variant)")
    ctx.assume("log messages are identified by a '#n# ' text prefix in the ordering part",
               "HTTP legs use the in-process falcon test client; the fake HTTP peer is a falcon sink returning raw bytes")
    worlds = {"pipe": {r: W.PipeWorld(r) for r in ("inline", "shm", "ext")},
              "http": {r: W.HttpWorld(r) for r in ("inline", "ext", "buf")}}
    part_order(ctx, wd, worlds)
    part_content(ctx, worlds)
    part_peer(ctx)
    ctx.exhaustive = True
    ctx.extra["drift_count"] = len(ctx.drift)


def _c(seq: list) -> list:
    return [f"{e['e']}{e['n'] or ''}" + (f":{e['c']}" if e.get("c") and e["c"] != "intact" else "") for e in seq]


def _pub(o: dict) -> dict:
    return {k: v for k, v in o.items() if not k.startswith("_")}
