#!/venv/bin/python
"""Record in every seeded/<ID>/meta.json the newest /repo commit the patch applies to (seeds were written against the
HEAD of their time; later fix: commits may touch the same lines)."""
import json, glob, subprocess, os, tempfile
commits = subprocess.run(["git", "-C", "/repo", "log", "--format=%h"], capture_output=True, text=True).stdout.split()
wt = tempfile.mkdtemp(prefix="seedbase-")
subprocess.run(["git", "-C", "/repo", "worktree", "add", "-q", "--detach", wt, "HEAD"], check=True)
try:
    for d in sorted(glob.glob("/verif/seeded/C*")):
        p = f"{d}/meta.json"; m = json.load(open(p))
        base = None
        for c in commits:
            subprocess.run(["git", "-C", wt, "checkout", "-q", c], check=True)
            if subprocess.run(["git", "-C", wt, "apply", "--check", f"{d}/patch.diff"], capture_output=True).returncode == 0:
                base = c; break
        m["applies_to_repo_commit"] = base
        m["applies_to_repo_head"] = base == commits[0]
        json.dump(m, open(p, "w"), indent=1, ensure_ascii=False)
        print(os.path.basename(d), base, "HEAD" if base == commits[0] else "")
finally:
    subprocess.run(["git", "-C", "/repo", "worktree", "remove", "--force", wt])
