"""C43 -- XFCC identity extraction is injection-proof.  Spec: spec/data/Xfcc.tla (reference tokenizer + Conforms)."""
import random
import re
import warnings

import falcon.testing as ft

from drivers._data_util import enumerate_cases, judge_dedup
from vf.core import Ctx
from vf.tlc import Raw

META = {
    "engine": "data",
    "text": "Xfcc.tla defines the XFCC grammar on characters (a left-to-right scanner over the delimiter alphabet "
            "{, ; = \" \\ key-letter value-char} plus the percent-escapes %2C %3B %3D %22 %5C as ordinary value characters and white space -- ordinary inside quotes, optional after a separator) and reports every value as position-identified tokens.  TLC enumerates "
            "all strings over the alphabet up to length 4 (quick) / 6 (thorough), all strings 'k=' + tail with tails up to length 4 / 6 over that "
            "alphabet and up to length 4 over the alphabet extended by the percent-escapes (quick: %3B %3D; thorough: all five) "
            "(every grammar-valid header starts with a key: this reaches all valid headers of length 6 / 8 that "
            "start with a one-letter key), and a "
            "structured family of longer valid headers (quoted values containing fake pairs/elements, escaped quotes, "
            "escaped backslashes), each with its reference parse, and checks five sanity invariants that tie the "
            "scanner to an independent quote-parity reading.  Every string is concretised (real Envoy key names, unique "
            "marker per letter, URL-encoded delimiter variants, CN= decoys) and passed to mtls_authenticate_xfcc with "
            "select_element first and last, with a capturing validate callback and on the default path, on a real "
            "falcon.Request; TLC judges every observation of a grammar-valid / empty / missing header with "
            "Xfcc!Conforms, and every other string must only never raise anything but AuthFailure.",
    "note": "Trusted: the grammar transcription in Xfcc.tla; the chunk table that maps observed text back to header "
            "positions.  One-sided by design: values are compared modulo backslashes and URL-decoding; with duplicate "
            "keys any of the values is admissible; '' may be proxy_required or invalid_credential; for strings outside "
            "the grammar only 'nothing but AuthFailure is raised' is checked; headers with optional white space after a "
            "separator are judged with the one-sided clauses only; values are compared modulo white space at their edges.",
}

KEYNAMES = ["Subject", "URI", "Hash", "DNS", "By", "Cert"]
ORDERS = [["Subject", "URI", "Hash", "DNS", "By", "Cert"], ["Subject"] * 6, ["URI", "Subject", "DNS", "DNS", "Cert", "By", "Hash"],
          ["DNS", "DNS", "Subject", "By"], ["Cert", "By", "URI", "Subject", "Hash"]]
ENC = ["%2C", "%3B", "%22", "%3D", "%5C", "%25"]
DEC = [",", ";", '"', "=", "\\", "%"]
CNS = ["CN", "cn", "Cn", "cN"]
# percent-escapes of the delimiters are symbols of the header alphabet (ordinary value characters in Xfcc.tla)
ESC = {"E,": ("%2C", "%2c"), "E;": ("%3B", "%3b"), "E=": ("%3D", "%3d"), "Eq": ("%22", "%22"), "Eb": ("%5C", "%5c")}
ESC_TOKEN = {"%2C": ",", "%2c": ",", "%3B": ";", "%3b": ";", "%3D": "=", "%3d": "=", "%22": "q", "%5C": None, "%5c": None}
# a key letter inside a value, between an escaped separator and an escaped '=': written as a real key name, so that a
# parser which lets the escapes act as delimiters injects a recognised field (unique spelling per header position)
DECOYS = ["Subject", "subject", "SUBJECT", "URI", "uri", "SubjecT", "Hash", "hash"]


def key_runs(s: list[str], exp: dict) -> list[tuple[int, int]]:
    """[(kpos (1-based), klen)] of the k-runs that are keys: from TLC's parse for valid headers, else syntactically
    (a run of k at the start of a pair, immediately followed by '=')."""
    if exp["cls"] == "valid":
        return [(p["kpos"], p["klen"]) for e in exp["elems"] for p in e]
    out, i, n = [], 0, len(s)
    while i < n:
        if s[i] == "k" and (i == 0 or s[i - 1] in (",", ";", "w")):
            j = i
            while j < n and s[j] == "k":
                j += 1
            if j < n and s[j] == "=":
                out.append((i + 1, j - i))
            i = j
        else:
            i += 1
    return out


def concretize(s: list[str], exp: dict, vi: int, rng: random.Random):
    """-> (header text, names (len(s), '' or lower-case key name of a one-letter key), chunk table text -> token)"""
    n = len(s)
    keys = key_runs(s, exp)
    names = [""] * n
    chunks = [""] * n
    table_: dict[str, str] = {}
    order = ORDERS[vi] if vi < len(ORDERS) else [rng.choice(KEYNAMES) for _ in range(8)]
    keypos = set()
    for occ, (kpos, klen) in enumerate(keys):
        nm = order[occ % len(order)]
        chunks[kpos - 1] = nm
        keypos.add(kpos - 1)
        if klen == 1:
            names[kpos - 1] = nm.lower()
        for j in range(kpos, kpos + klen - 1):              # further letters of a longer (unknown) key
            chunks[j] = f"K{j + 1:02d}"
            keypos.add(j)
    enc = vi in (3, 4) or (vi >= len(ORDERS) and rng.random() < 0.3)
    cn_used = 0
    decoy_used = 0
    table_.update(ESC_TOKEN)
    for i, ch in enumerate(s):
        if i in keypos:
            continue
        if ch == "v":
            if enc:
                e = (i + vi) % len(ENC)
                chunks[i] = f"{ENC[e]}{i + 1:02d}"
                table_[f"{DEC[e]}{i + 1:02d}"] = str(i + 1)       # decoded form (Cert/URI/By are URL-decoded)
            else:
                chunks[i] = f"v{i + 1:02d}"
            table_[chunks[i]] = str(i + 1)
        elif ch == "k":
            nxt = s[i + 1] if i + 1 < n else ""
            prv = s[i - 1] if i > 0 else ""
            if nxt == "E=" and prv in ("E;", "E,") and decoy_used < len(DECOYS) and vi != 1:
                chunks[i] = DECOYS[decoy_used]                    # ...%3BSubject%3D...
                decoy_used += 1
            elif nxt in ("=", "E=") and cn_used < len(CNS) and vi != 1:
                chunks[i] = CNS[cn_used]                          # RDN type inside a value:  CN=...  /  CN%3D...
                cn_used += 1
            else:
                chunks[i] = f"K{i + 1:02d}"
            table_[chunks[i]] = str(i + 1)
        elif ch in ESC:
            chunks[i] = ESC[ch][(i + vi) % 2]
        elif ch == "w":
            chunks[i] = " \t"[(i + vi) % 2]
        elif ch == "q":
            chunks[i] = '"'
        elif ch == "b":
            chunks[i] = "\\"
        else:
            chunks[i] = ch
    return "".join(chunks), names, table_


def tokens(text: str, table_: dict[str, str]) -> list[str]:
    """observed text -> token sequence of Xfcc.tla (letters by position, delimiters as themselves, backslashes
    dropped, anything unattributable '?')"""
    out, i, n = [], 0, len(text)
    keys = sorted(table_, key=len, reverse=True)
    while i < n:
        for k in keys:
            if text.startswith(k, i):
                if table_[k] is not None:                 # None: %5C, an encoded backslash -- dropped like a backslash
                    out.append(table_[k])
                i += len(k)
                break
        else:
            c = text[i]
            i += 1
            if c == "\\":
                continue
            out.append({",": ",", ";": ";", "=": "=", '"': "q", " ": "w", "\t": "w"}.get(c, "?"))
    return out


def run(ctx: Ctx) -> None:
    warnings.filterwarnings("ignore")
    from vgi_rpc.http._mtls import mtls_authenticate_xfcc
    from vgi_rpc.http._unauthorized import AuthFailure
    from vgi_rpc.rpc import AuthContext

    quick = ctx.quick
    # the percent-escapes join the alphabet of the 'k=' + tail part (quick: %3B and %3D, thorough: all five); the
    # family of longer valid headers uses all five in both tiers
    consts = {"MaxLen": 4 if quick else 6, "TailLen": 4 if quick else 6, "FamilyDepth": 1 if quick else 2,
              "Alphabet": Raw('{",", ";", "=", "q", "b", "k", "v"}'),
              "EscAlphabet": Raw('{"E;", "E=", "w"}') if quick else Raw('{"E,", "E;", "E=", "Eq", "Eb", "w"}'), "EscTailLen": 4}
    invs = ["ElemsAreTopLevelCommas", "PairsAreTopLevelSemis", "EveryLetterOnce", "NonEmptyElems", "QuotesOnlyEscaped"]
    cases = enumerate_cases(ctx, "data", "Xfcc", constants=consts, invariants=invs)
    ctx.exhaustive = True
    ctx.rule = ("case = one header value (absent | string over the 7-symbol delimiter alphabet), enumerated by TLC from "
                "Xfcc!Cases with its reference parse; non-trivial = distinct (concrete header text, select_element, leg) "
                "executed on the real authenticator")
    ctx.assume("key letters are written as the Envoy key names Subject/URI/Hash/DNS/By/Cert (exact case); a key of two "
               "or more letters is an unknown key", "white space: space and tab only",
               "values are compared modulo backslashes and URL-decoding; duplicate keys: any value admissible")

    captured: list = [None]

    def capture(el):
        captured[0] = el
        return AuthContext(domain="cap", authenticated=True, principal="", claims={})

    auth = {(sel, leg): mtls_authenticate_xfcc(select_element=sel, **({"validate": capture} if leg == "v" else {}))
            for sel in ("first", "last") for leg in ("v", "d")}
    req = ft.create_req()

    def call(sel: str, leg: str, header: str | None):
        req.env.pop("HTTP_X_FORWARDED_CLIENT_CERT", None)
        if header is not None:
            req.env["HTTP_X_FORWARDED_CLIENT_CERT"] = header
        captured[0] = None
        try:
            r = auth[(sel, leg)](req)
            return "ok", r
        except AuthFailure as e:
            return str(getattr(e.reason, "value", e.reason)), None
        except BaseException as e:  # noqa: BLE001
            return f"raised:{type(e).__name__}", e

    def one(v, tb):
        return [] if v is None else [tokens(v, tb)]

    records: list[dict] = []
    n_invalid = 0
    junk = ["%", "%zz", "é", " ", "\t", "%00", "\x00", "☃", "%2", "+", "%ff", "%FF%FE", "%c3", "%E2%82"]
    for ci, cj in enumerate(cases):
        case, exp = cj["case"], cj["exp"]
        s, cls = case["s"], exp["cls"]
        if cls == "invalid":
            # outside the grammar: only "never raises anything but AuthFailure" (harness-level fact)
            n_invalid += 1
            for vi in ((0, 5) if (not quick or ci % 3 == 0) else (0,)):
                rng = random.Random(f"{ctx.seed}|{ci}|{vi}")
                hdr, _, _ = concretize(s, exp, vi, rng)
                if vi == 5:
                    hdr = "".join(rng.choice(junk) if c == "v" else c for c in hdr)
                for sel in ("first", "last"):
                    for leg in ("d", "v"):
                        out, r = call(sel, leg, hdr)
                        ctx.case([hdr, sel, leg])
                        if out.startswith("raised:"):
                            ctx.violation("OnlyAuthFailure", {"cls": "invalid", "exc": out, "sel": sel, "leg": leg},
                                          {"header": hdr, "abstract": "".join(s), "exception": repr(r)})
            continue
        isvalid = cls in ("valid", "valid_ows")
        if isvalid and (not quick or ci % 2 == 0):
            # the same header with undecodable / odd percent sequences as value characters: must still not raise
            rng = random.Random(f"{ctx.seed}|{ci}|junk")
            hdr0, _, _ = concretize(s, exp, 0, rng)
            hdrj = re.sub(r"v\d\d", lambda m: rng.choice(junk[-4:] + junk[:3]), hdr0)
            for sel in ("first", "last"):
                for leg in ("d", "v"):
                    out, r = call(sel, leg, hdrj)
                    ctx.case([hdrj, sel, leg])
                    if out.startswith("raised:"):
                        ctx.violation("OnlyAuthFailure", {"cls": cls, "exc": out, "sel": sel, "leg": leg},
                                      {"header": hdrj, "abstract": "".join(s), "exception": repr(r)})
        variants = (0,) if not isvalid else ((0, 2) if quick else (0, 1, 2, 3))
        for vi in variants:
            rng = random.Random(f"{ctx.seed}|{ci}|{vi}")
            hdr, names, tb = concretize(s, exp, vi, rng)
            header = None if cls == "absent" else hdr
            o = {"names": names}
            raw = {}
            for sel in ("first", "last"):
                vout, _ = call(sel, "v", header)
                el = captured[0]
                dout, ctxd = call(sel, "d", header)
                ctx.case([header, sel, "v"])
                ctx.case([header, sel, "d"])
                r = {"vout": vout, "dout": dout,
                     "el": {"subject": [], "uri": [], "hash": [], "by": [], "cert": [], "dns": []},
                     "df": {"principal": [], "subject": [], "uri": [], "hash": [], "by": [], "dns": []}}
                if vout == "ok" and el is not None:
                    r["el"] = {k: one(getattr(el, k), tb) for k in ("subject", "uri", "hash", "by", "cert")}
                    r["el"]["dns"] = [tokens(d, tb) for d in el.dns]
                if dout == "ok" and ctxd is not None:
                    cl = dict(ctxd.claims)
                    r["df"] = {k: one(cl.get(k), tb) for k in ("subject", "uri", "hash", "by")}
                    r["df"]["dns"] = [tokens(d, tb) for d in (cl.get("dns") or [])]
                    r["df"]["principal"] = tokens(ctxd.principal or "", tb)
                o[sel] = r
                raw[sel] = {"element": repr(el), "principal": getattr(ctxd, "principal", None),
                            "claims": repr(getattr(ctxd, "claims", None))}
            records.append({"case": case, "obs": o, "_hdr": header, "_cls": cls, "_raw": raw})
    ctx.extra["strings_outside_grammar_checked_for_exceptions_only"] = n_invalid
    hist: dict[str, int] = {}
    for cj in cases:
        hist[cj["exp"]["cls"]] = hist.get(cj["exp"]["cls"], 0) + 1
    ctx.extra["case_classes"] = hist
    ctx.extra["note_lenient_parser"] = ("strings without any key=value pair (e.g. ';' or 'x') yield an authenticated "
                                        "context with an empty principal; outside the statement, noted only")
    valid_recs = [r for r in records if r["_cls"] in ("valid", "valid_ows")]
    for r in valid_recs[:: max(1, len(valid_recs) // 5)][:5]:
        ctx.sample({"abstract_header": "".join(r["case"]["s"]), "concrete_header": r["_hdr"],
                    "observed_raw": r["_raw"], "observed_tokens": {k: r["obs"][k] for k in ("first", "last")}})
    # Conforms does not depend on the case-space constants; the judge runs get the smallest ones so that TLC does not
    # rebuild the whole case set at every start
    bad = judge_dedup(ctx, "data", "Xfcc", records, constants={**consts, "MaxLen": 0, "TailLen": 0, "EscTailLen": 0, "FamilyDepth": 0})
    for idx, clauses in bad:
        r = records[idx]
        for cl in clauses:
            name, _, sel = cl.partition("@")
            ctx.violation(name, {"cls": r["_cls"], "sel": sel, "abstract": "".join(r["case"]["s"])[:40]},
                          {"header": r["_hdr"], "observed": r["obs"].get(sel), "names": r["obs"]["names"], "raw": r["_raw"].get(sel)})
