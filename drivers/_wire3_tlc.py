"""Table-style TLC helpers with a `workers` knob and a cheap-JIT JVM (vf.table always uses -workers auto, which is
several times slower for init-state-only models).  Same generated wrapper modules as vf.table."""
import json

from vf.core import Ctx
from vf.table import ENUM, OBS
from vf.tlc import MachineryError, render_cfg, require_ok, run_tlc, sany

FAST_JVM = {"JAVA_TOOL_OPTIONS": "-XX:TieredStopAtLevel=1"}


def enumerate_cases(ctx: Ctx, engine: str, module: str, *, constants=None, invariants=(), workers=4,
                    name: str | None = None, timeout: int = 900) -> list[dict]:
    wd = ctx.wd.stage(engine)
    invs = "\n".join(f"Inv_{x} == {x}(c)" for x in invariants)
    (wd / f"{module}_Enum.tla").write_text(ENUM.format(m=module, cases="Cases", expected="Expected", invs=invs))
    sany(wd, f"{module}_Enum")
    cfg = render_cfg(init_next=("EnumInit", "EnumNext"), constants=constants,
                     invariants=[f"Inv_{x}" for x in invariants] + ["Emit"])
    r = run_tlc(wd, f"{module}_Enum", cfg, timeout=timeout, cfg_name=f"{module}_enum.cfg", workers=workers, env=FAST_JVM)
    ctx.add_tlc(name or f"{module}:enumerate", r)
    require_ok(r, f"{module} table enumeration / table invariants {list(invariants)}")
    if len(r.json_lines) != r.distinct:
        raise MachineryError(f"{module}: {r.distinct} cases but {len(r.json_lines)} emitted")
    return r.json_lines


def judge(ctx: Ctx, engine: str, module: str, observations: list[dict], *, constants=None, workers=4,
          timeout: int = 900, chunk: int = 20000) -> list[tuple[int, list[str]]]:
    wd = ctx.wd.stage(engine)
    (wd / f"{module}_Obs.tla").write_text(OBS.format(m=module, conforms="Conforms"))
    sany(wd, f"{module}_Obs")
    bad: list[tuple[int, list[str]]] = []
    for off in range(0, len(observations), chunk):
        part = observations[off:off + chunk]
        f = wd / f"obs_{module}_{off}.json"
        f.write_text(json.dumps(part))
        cfg = render_cfg(init_next=("ObsInit", "ObsNext"), constants=constants, invariants=["Judge"])
        env = dict(FAST_JVM, OBS_FILE=str(f))
        r = run_tlc(wd, f"{module}_Obs", cfg, timeout=timeout, env=env, cfg_name=f"{module}_obs.cfg", workers=workers)
        ctx.add_tlc(f"{module}:judge[{off}:{off + len(part)}]", r)
        require_ok(r, f"{module} observation judging")
        if r.distinct != len(part):
            raise MachineryError(f"{module}: judged {r.distinct} of {len(part)} observations")
        ctx.traces_validated += len(part) - len(r.json_lines)
        for j in r.json_lines:
            bad.append((off + j["i"] - 1, list(j["bad"])))
        f.unlink()
    return bad
