-------------------------------- MODULE StreamLifeClauses --------------------------------
(* C10 -- the clauses of "stream lifecycle: finish, exchange cardinality, cancel, headers" written once, over
   (call description c, history h).  The same operators are
     * the invariants TLC checks on every reachable state of StreamLife.tla (h = the model's history variable), and
     * the judge of histories recorded from the real code (Conforms(c, o) evaluated by TLC on every observation).

   c = [kind |-> "prod" | "exch", hdr |-> BOOLEAN, steps |-> <<step kinds>>, ops |-> <<client ops>>, pert |-> class]
   h = sequence of events [e, a, n, s] in the global (lock-step) order in which they happened:
        state side  (what the state object saw)
          "P"   process() call number n; a = the step it executed; s = the input as the state saw it:
                  "tick" (producer tick batch) | "declared" (declared input schema, values intact)
                  | "declared_badvals" | "other" (a schema that is not the declared one)
          "C"   on_cancel() ran
        client side (what the client received)
          "sess" the call returned a session; a = "hdr_ok" | "hdr_bad" | "nohdr"
          "op"   the client starts operation a = "t" tick/exchange | "i" iterate to the end | "c" close | "x" cancel
          "D"    a data batch was returned to the caller; n = its identity = ordinal of the emission that produced it
          "S"    the stream ended normally (StopIteration / iteration finished)
          "E"    an error was raised to the caller (RpcError carrying a server-side failure)
          "R"    the session refused the operation (raised "closed / cancelled / finished" without doing anything)
          "ok"   operation a (close / cancel) returned normally
          "exc"  anything else escaped from the client API                                                     *)
EXTENDS Naturals, Sequences, FiniteSets

Emits(st) == st \in {"emit", "logemit", "emitfin"}          \* the step calls out.emit(...)
Finishes(st) == st \in {"fin", "emitfin"}                   \* the step calls out.finish()
\* steps after which the stream is over:  producers: finish or failure; exchanges: every failure (finish is one)
FailsIn(kind, st) == IF kind = "prod" THEN st \in {"raise", "log"} ELSE st \in {"raise", "log", "fin", "emitfin"}
Delivers(kind, st) == Emits(st) /\ ~FailsIn(kind, st)

Idx(h) == 1..Len(h)
Count(h, P(_), upto) == Cardinality({j \in 1..upto : P(h[j])})
IsRes(ev) == ev.e \in {"D", "S", "E", "R", "ok", "exc"}      \* an operation's outcome as the caller sees it
\* index of the outcome of the operation started at i (0 while it has not completed)
ResOf(h, i) == IF \E r \in (i + 1)..Len(h) : IsRes(h[r])
               THEN CHOOSE r \in (i + 1)..Len(h) : IsRes(h[r]) /\ \A q \in (i + 1)..(r - 1) : ~IsRes(h[q])
               ELSE 0
Cancels(h) == {i \in Idx(h) : h[i].e = "op" /\ h[i].a = "x"}
BeforeCancel(h, i) == \A x \in Cancels(h) : i < x

\* ------------------------------------------------------------------ data: exactly what was emitted, in order
DataInOrder(c, h) ==            \* batches come back in emission order, none twice, none skipped
  \A i \in Idx(h) : h[i].e = "D" => h[i].n = Count(h, LAMBDA ev : ev.e = "D", i)
DataWasEmitted(c, h) ==         \* nothing is received that the state did not emit
  \A i \in Idx(h) : h[i].e = "D" => Count(h, LAMBDA ev : ev.e = "P" /\ Emits(ev.a), i) >= h[i].n
StopExactlyAtFinish(c, h) ==    \* the stream ends for the caller only when the producer finished, with everything
  \A i \in Idx(h) : (h[i].e = "S" /\ BeforeCancel(h, i)) =>       \* delivered (emit+finish delivers that batch)
      /\ \E j \in 1..(i - 1) : h[j].e = "P" /\ Finishes(h[j].a)
      /\ Count(h, LAMBDA ev : ev.e = "D", i) = Count(h, LAMBDA ev : ev.e = "P" /\ Emits(ev.a), i)
NoProcessAfterFinish(c, h) ==   \* ... and the state is not run past its own finish
  c.kind = "prod" => \A i \in Idx(h), j \in Idx(h) : (i < j /\ h[i].e = "P" /\ Finishes(h[i].a)) => h[j].e # "P"

\* ------------------------------------------------------------------ exchange: one output per input, finish refused
ExchangeOnePerInput(c, h) ==
  c.kind = "exch" =>
    \A i \in Idx(h) : (h[i].e = "op" /\ h[i].a = "t" /\ BeforeCancel(h, i) /\ ResOf(h, i) # 0) =>
        LET r == ResOf(h, i)
            np == Cardinality({j \in (i + 1)..(r - 1) : h[j].e = "P"}) IN
        /\ np <= 1                                                 \* one input -> at most one process()
        /\ h[r].e = "D" => np = 1                                  \* an output answers exactly this input
        /\ h[r].e # "S"                                            \* an exchange never just ends
        /\ (np = 1 /\ \E j \in (i + 1)..(r - 1) : h[j].e = "P" /\ Delivers("exch", h[j].a)) => h[r].e = "D"
FinishRefused(c, h) ==
  c.kind = "exch" =>
    \A j \in Idx(h) : (h[j].e = "P" /\ Finishes(h[j].a)) =>
        \A r \in (j + 1)..Len(h) : (IsRes(h[r]) /\ \A q \in (j + 1)..(r - 1) : ~IsRes(h[q])) => h[r].e = "E"

\* ------------------------------------------------------------------ inputs reach the state with the declared schema
InputAsDeclared(c, h) ==
  \A i \in Idx(h) : h[i].e = "P" => h[i].s = (IF c.kind = "prod" THEN "tick" ELSE "declared")
DifferentFieldSetRejected(c, h) ==
  (c.kind = "exch" /\ c.pert = "diffset") =>
     /\ \A i \in Idx(h) : h[i].e # "P" /\ h[i].e # "D"
     /\ \A i \in Idx(h) : (h[i].e = "op" /\ h[i].a = "t" /\ BeforeCancel(h, i) /\ ResOf(h, i) # 0) => h[ResOf(h, i)].e = "E"
CoercibleAccepted(c, h) ==      \* reordered / compatibly typed inputs are not rejected: the state gets to see them
  (c.kind = "exch" /\ c.pert # "diffset") =>
     \A i \in Idx(h) : (h[i].e = "op" /\ h[i].a = "t" /\ BeforeCancel(h, i) /\ ResOf(h, i) # 0) =>
         \E j \in (i + 1)..(ResOf(h, i) - 1) : h[j].e = "P"

\* ------------------------------------------------------------------ header exactly once, before any data
HeaderOnceBeforeData(c, h) ==
  LET ss == {i \in Idx(h) : h[i].e = "sess"} IN
  /\ Cardinality(ss) <= 1
  /\ \A i \in ss : h[i].a = (IF c.hdr THEN "hdr_ok" ELSE "nohdr")
  /\ \A j \in Idx(h) : h[j].e = "D" => \E i \in ss : i < j

\* ------------------------------------------------------------------ after a cancel
NoProcessAfterCancel(c, h) == \A x \in Cancels(h), j \in Idx(h) : j > x => h[j].e # "P"
CancelHookAtMostOnce(c, h) == Count(h, LAMBDA ev : ev.e = "C", Len(h)) <= 1
NoErrorFromCancel(c, h) ==
  /\ \A x \in Cancels(h) : ResOf(h, x) # 0 => (h[ResOf(h, x)].e = "ok" /\ h[ResOf(h, x)].a = "x")
  /\ \A x \in Cancels(h), j \in Idx(h) : j > x => h[j].e \notin {"E", "exc"}
NoDataAfterCancel(c, h) == \A x \in Cancels(h), j \in Idx(h) : j > x => h[j].e # "D"
RefusesAfterCancel(c, h) ==
  \A i \in Idx(h) : (h[i].e = "op" /\ h[i].a \in {"t", "i"} /\ ~BeforeCancel(h, i) /\ ResOf(h, i) # 0) =>
      h[ResOf(h, i)].e = "R"

ClauseNames == {"DataInOrder", "DataWasEmitted", "StopExactlyAtFinish", "NoProcessAfterFinish",
                "ExchangeOnePerInput", "FinishRefused", "InputAsDeclared", "DifferentFieldSetRejected",
                "CoercibleAccepted", "HeaderOnceBeforeData", "NoProcessAfterCancel", "CancelHookAtMostOnce",
                "NoErrorFromCancel", "NoDataAfterCancel", "RefusesAfterCancel"}
Holds(name, c, h) ==
  CASE name = "DataInOrder" -> DataInOrder(c, h)
    [] name = "DataWasEmitted" -> DataWasEmitted(c, h)
    [] name = "StopExactlyAtFinish" -> StopExactlyAtFinish(c, h)
    [] name = "NoProcessAfterFinish" -> NoProcessAfterFinish(c, h)
    [] name = "ExchangeOnePerInput" -> ExchangeOnePerInput(c, h)
    [] name = "FinishRefused" -> FinishRefused(c, h)
    [] name = "InputAsDeclared" -> InputAsDeclared(c, h)
    [] name = "DifferentFieldSetRejected" -> DifferentFieldSetRejected(c, h)
    [] name = "CoercibleAccepted" -> CoercibleAccepted(c, h)
    [] name = "HeaderOnceBeforeData" -> HeaderOnceBeforeData(c, h)
    [] name = "NoProcessAfterCancel" -> NoProcessAfterCancel(c, h)
    [] name = "CancelHookAtMostOnce" -> CancelHookAtMostOnce(c, h)
    [] name = "NoErrorFromCancel" -> NoErrorFromCancel(c, h)
    [] name = "NoDataAfterCancel" -> NoDataAfterCancel(c, h)
    [] name = "RefusesAfterCancel" -> RefusesAfterCancel(c, h)

(* judging a recorded real execution: o = [hist |-> what happened, expect |-> the model's history for the same
   script and transport].  A history that differs from the model's without making a clause false is reported as
   "Drift" (never a violation).                                                                                 *)
Conforms(c, o) == {n \in ClauseNames : ~Holds(n, c, o.hist)} \cup (IF o.hist = o.expect THEN {} ELSE {"Drift"})
==========================================================================================
