---- MODULE StickyOrigTrace ----
EXTENDS StickyOrig, Json, IOUtils, Sequences, TLCExt
Traces == JsonDeserialize(IOEnv.TRACE_FILE)   \* array of traces; each trace = array of events [e, r]
VARIABLES tid, l
tvars == <<vars, tid, l>>
TraceInit == Init /\ tid \in 1..Len(Traces) /\ l = 1
Ev == Traces[tid][l]
IsEvent(e) == l <= Len(Traces[tid]) /\ Ev.e = e /\ l' = l + 1 /\ UNCHANGED tid
R(x) == CHOOSE r \in Req : ToString(r) = x
TraceNext ==
  \/ IsEvent("ReqGet") /\ ReqGet(R(Ev.r)) /\ pc'[R(Ev.r)] = Ev.pc
  \/ IsEvent("ReqLock") /\ ReqLock(R(Ev.r))
  \/ IsEvent("ReqUse") /\ ReqUse(R(Ev.r))
  \/ IsEvent("ReqCloseA") /\ ReqCloseA(R(Ev.r))
  \/ IsEvent("ReqCloseB") /\ ReqCloseB(R(Ev.r))
  \/ IsEvent("ReqCloseC") /\ ReqCloseC(R(Ev.r))
  \/ IsEvent("ReqResponse") /\ ReqResponse(R(Ev.r))
  \/ IsEvent("DelGet") /\ DelGet
  \/ IsEvent("DelLock") /\ DelLock
  \/ IsEvent("DelPop") /\ DelPop
  \/ IsEvent("DelClose") /\ DelClose
  \/ IsEvent("DelUnlock") /\ DelUnlock
  \/ IsEvent("ReaperPop") /\ ReaperPop
  \/ IsEvent("ReaperClose") /\ ReaperClose
  \/ IsEvent("Tick") /\ Tick
TraceSpec == TraceInit /\ [][TraceNext]_tvars
\* register 1+tid: furthest line consumed for that trace
Progress == TLCSet(tid, IF TLCGet(tid) < l THEN l ELSE TLCGet(tid))
Constr == Progress
ASSUME \A i \in 1..Len(Traces) : TLCSet(i, 0)
Accepted == \A i \in 1..Len(Traces) :
   IF TLCGet(i) = Len(Traces[i]) + 1 THEN PrintT(<<"ACCEPT", i>>) ELSE PrintT(<<"REJECT", i, "matched", TLCGet(i) - 1>>)
====
