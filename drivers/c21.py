"""C21 -- 401 responses follow the unauthorized specification.  Spec: spec/gate/Unauthorized.tla."""
import html as _html
import json
import re
from dataclasses import dataclass
from typing import Protocol

import pyarrow as pa

from vf import table, world
from vf.core import Ctx
from vf.tlc import Raw

from drivers import _authb_world as W
from vgi_rpc.rpc import ProducerState, Stream
from vgi_rpc.utils import ArrowSerializableDataclass

META = {
    "engine": "gate",
    "text": "Unauthorized.tla gives the composition semantics of authenticator trees (single, chains of 2-3, "
            "require_all with/without inner, nested; stub / bearer / XFCC leaves, stub / proxy-proof gates) over "
            "every exception kind a member can raise, and the response contract (401, closed-set reason in header "
            "and JSON envelope, no-store, proxy note iff the configuration depends on proxy headers, 503 on "
            "outage).  TLC checks the table invariants, enumerates every (configuration, composition, outcome "
            "assignment, Accept, route) case; each is built from the real chain_authenticate / require_all / "
            "bearer / mTLS / proxy_proof_gate callables plus header-driven stubs, mounted with make_wsgi_app and "
            "requested; every response is also handed to the real client; TLC judges each observation "
            "(Conforms), each service's set of notes (ConformsSvc) and the client's handling of arbitrary 401 "
            "bodies through four client entry points (ClientConforms).",
    "note": "Trusted: Unauthorized.tla's transcription of docs/unauthorized-spec.md; clauses named Doc_* come from "
            "the document only (not from the property statement) and are recorded as drift, never as violations; "
            "extraction of the note text from the HTML page by a regex.",
}


@dataclass(frozen=True)
class Hdr(ArrowSerializableDataclass):
    n: int


class CProto(Protocol):
    def plain(self, x: int) -> int: ...
    def s(self) -> Stream[ProducerState]: ...
    def sh(self) -> Stream[ProducerState, Hdr]: ...


ACCEPT = {"text_plain": "text/plain, text/*;q=0.5", "xml": "application/xml, application/xhtml+xml;q=0.9",
          "json_q": "application/json;q=0.9, */*;q=0.1", "empty": "",
          "absent": None, "any": "*/*", "json": "application/json", "html": "text/html",
          "html_mixed": "text/html,application/xhtml+xml,application/xml;q=0.9,*/*;q=0.8",
          "arrow": "application/vnd.apache.arrow.stream"}
_NOTE = re.compile(r'<div class="note"><strong>.*?</strong>(.*?)</div>', re.S)


def _consts(quick: bool) -> dict:
    if quick:
        return {"Outs": Raw('{"ok", "miss", "inv", "exp", "ve", "pe", "proof", "down", "bogus", "ve_sub", "pe_attr"}'),
                "Outs3": Raw('{"ok", "miss", "exp", "pe", "down"}'), "Deep": False}
    return {"Outs": Raw('{"ok", "miss", "inv", "exp", "scope", "proxy", "unauth", "ve", "pe", "proof", "down", "bogus", "ve_sub", "pe_attr"}'),
            "Outs3": Raw('{"ok", "miss", "inv", "exp", "scope", "proxy", "unauth", "ve", "pe", "proof", "down", "bogus", "ve_sub", "pe_attr"}'),
            "Deep": True}


class _Foreign401:
    """A resource behind the authenticator that answers 401 itself (not the authenticate callback)."""

    def on_post(self, req, resp) -> None:
        import falcon

        raise falcon.HTTPUnauthorized(description="this resource needs a fresher login")


class _Services:
    def __init__(self) -> None:
        self.server, self.proto = W.build_service({"plain": "unary", "s": "producer"})
        self.otel_server, _ = W.build_service({"plain": "unary", "s": "producer"})     # (instrumentation mutates the server)
        self.apps: dict = {}

    def app(self, cfg: dict, tree: dict):
        key = json.dumps([cfg, W.strip_outs(tree)], sort_keys=True)
        if key not in self.apps:
            from vgi_rpc.http._oauth import OAuthResourceMetadata

            meta = None
            if cfg["pkce"] or cfg["www"]:
                meta = OAuthResourceMetadata(resource="http://localhost:8000/", authorization_servers=("http://127.0.0.1:1",),
                                             client_id="cid" if cfg["pkce"] else None)
            otel = None
            if cfg["otel"]:
                from vgi_rpc.otel import OtelConfig

                otel = OtelConfig()
            client = W.make_sync_client(self.otel_server if cfg["otel"] else self.server, token_key=W.KEY,
                                        authenticate=W.build_tree(tree),
                                        proxy_auth_headers=["X-Custom-Client-Cert"] if cfg["pah"] else None,
                                        proxy_proof_required=cfg["ppr"], oauth_resource_metadata=meta, enable_sticky=True,
                                        upload_url_provider=W.UploadProvider(), introspect_resolver=W.token_resolver,
                                        introspect_principals=["alice"], otel_config=otel)
            client._client.app.add_route("/__foreign401__", _Foreign401())
            self.apps[key] = (client, {"notes": {}, "seq": [], "flooded": False})
        return key, self.apps[key]


def _send(client, route: str, headers: dict, ubody: bytes):
    ct = {"Content-Type": world.ARROW_CT}
    if route == "unary":
        return W.request(client, "POST", "/plain", ubody, {**ct, **headers})
    if route == "init":
        return W.request(client, "POST", "/s/init", W.init_body("s"), {**ct, **headers})
    if route == "exchange":
        return W.request(client, "POST", "/s/exchange", W.init_body("s"), {**ct, **headers})
    if route == "upload":
        return W.request(client, "POST", "/__upload_url__/init", W.upload_body(), {**ct, **headers})
    if route == "introspect_token":
        return W.request(client, "POST", "/__introspect_token__", b'{"token": "opaque"}',
                         {"Content-Type": "application/json", **headers})
    if route == "foreign":
        return W.request(client, "POST", "/__foreign401__", b"", headers)
    if route == "describe":
        return W.request(client, "POST", "/__describe__", W.init_body("__describe__"), {**ct, **headers})
    if route == "landing":
        return W.request(client, "GET", "/", None, headers)
    if route == "session":
        return W.request(client, "DELETE", "/__session__", None, headers)
    raise RuntimeError(route)


def _client_view(content: bytes):
    """What the real client makes of this 401 body."""
    from vgi_rpc.http._client import _open_response_stream

    try:
        _open_response_stream(content, 401)
        return "", ""
    except BaseException as e:  # noqa: BLE001 - the type is the observation
        return type(e).__name__, str(getattr(getattr(e, "reason", ""), "value", getattr(e, "reason", "")) or "")


def _observe(status: int, rh: dict, content: bytes) -> tuple[dict, str]:
    ctype_h = rh.get("content-type", "")
    ctype = "json" if ctype_h.startswith("application/json") else ("html" if ctype_h.startswith("text/html") else "other")
    breason, berror, bhint, hint_text = "", False, False, ""
    if ctype == "json":
        try:
            body = json.loads(content)
            if isinstance(body, dict):
                breason = body.get("reason") if isinstance(body.get("reason"), str) else ""
                berror = body.get("error") == "unauthorized"
                if "proxy_hint" in body:
                    hint_text = str(body["proxy_hint"])
                    bhint = hint_text != ""
        except ValueError:
            pass
    hhtml = False
    if ctype == "html" and status == 401:
        m = _NOTE.search(content.decode("utf-8", "replace"))
        if m:
            hhtml = True
            hint_text = _html.unescape(m.group(1))
    cerr, creason = ("", "")
    if status == 401:
        cerr, creason = _client_view(content)
    o = {"status": status, "hreason": rh.get("vgi-auth-reason", ""), "ctype": ctype, "breason": breason,
         "berror": berror, "nostore": "no-store" in rh.get("cache-control", "").lower(),
         "phdr": rh.get("vgi-auth-proxy-required", ""), "bhint": bhint, "hhtml": hhtml,
         "retry": "retry-after" in rh, "creason": creason, "cerr": cerr}
    note = json.dumps([o["phdr"], hint_text.strip()])
    return o, note


# ---------------------------------------------------------------------------------------------- client side
def _arrow_body() -> bytes:
    return world.ipc_stream(pa.schema([pa.field("v", pa.int64())]), [])


def _client_body(shape: str, reason: str) -> bytes:
    env = {"error": "unauthorized", "reason": reason, "detail": "nope"}
    j = lambda x: json.dumps(x).encode()  # noqa: E731
    table_ = {
        "envelope": lambda: j(env),
        "envelope_extra": lambda: j({**env, "proxy_hint": "check the proxy", "x_future_field": [1, 2, {"a": None}]}),
        "envelope_bom": lambda: b"\xef\xbb\xbf" + j(env),
        "envelope_utf16": lambda: json.dumps(env).encode("utf-16"),
        "obj_no_reason": lambda: j({"error": "unauthorized", "detail": "x"}),
        "obj_reason_int": lambda: j({**env, "reason": 7}),
        "obj_reason_null": lambda: j({**env, "reason": None}),
        "obj_reason_list": lambda: j({**env, "reason": [reason]}),
        "obj_reason_obj": lambda: j({**env, "reason": {"code": reason}}),
        "obj_reason_unknown": lambda: j({**env, "reason": reason + "_v2"}),
        "obj_reason_upper": lambda: j({**env, "reason": reason.upper()}),
        "obj_reason_padded": lambda: j({**env, "reason": " " + reason + "\n"}),
        "obj_reason_nul": lambda: j({**env, "reason": reason + "\x00"}),
        "obj_detail_nonstr": lambda: j({**env, "detail": {"nested": [1, 2]}, "proxy_hint": 12}),
        "obj_long_detail": lambda: j({**env, "detail": "x" * 200_000}),
        "array": lambda: j([env]),
        "string": lambda: j(reason),
        "number": lambda: b"401",
        "null": lambda: b"null",
        "true": lambda: b"true",
        "nan": lambda: b'{"error":"unauthorized","reason":NaN}',
        "bignum": lambda: b'{"reason": ' + b"9" * 6000 + b"}",
        "html_doctype": lambda: b"<!DOCTYPE html><html><body>401 " + reason.encode() + b"</body></html>",
        "html_tag": lambda: b"  <html><head><title>Sign in</title></head></html>",
        "html_upper": lambda: b"<!doctype HTML><HTML></HTML>",
        "text": lambda: b"Unauthorized: " + reason.encode(),
        "empty": lambda: b"",
        "whitespace": lambda: b" \r\n\t ",
        "binary": lambda: bytes(range(256)) * 3,
        "invalid_utf8": lambda: b'{"reason": "\xff\xfe' + reason.encode() + b'"}',
        "arrow_ipc": _arrow_body,
        "deep_array": lambda: b"[" * 100_000,
        "deep_object": lambda: b'{"reason":' * 50_000 + b'"' + reason.encode() + b'"' + b"}" * 50_000,
        "dup_keys": lambda: b'{"reason":"bogus","reason":"' + reason.encode() + b'","error":"unauthorized","detail":"d"}',
    }
    return table_[shape]()


class _Fake401:
    prefix = ""

    def __init__(self, body: bytes, ctype: str) -> None:
        self.body, self.ctype = body, ctype

    def _r(self):
        from vgi_rpc.http._testing import _SyncTestResponse

        return _SyncTestResponse(401, self.body, headers={"content-type": self.ctype})

    def post(self, url, *, content, headers):
        return self._r()

    def get(self, url, *, headers=None):
        return self._r()

    def options(self, url, *, headers=None):
        from vgi_rpc.http._testing import _SyncTestResponse

        return _SyncTestResponse(200, b"", headers={})

    def close(self) -> None:
        pass


class _LateFake401:
    """A real (unauthenticated) application for the opening request of a stream; every later turn
    (POST .../exchange) is answered 401 with the given body -- e.g. a credential that expired mid-stream."""

    def __init__(self, real, body: bytes, ctype: str) -> None:
        self._real, self.prefix = real, real.prefix
        self._fake = _Fake401(body, ctype)

    def post(self, url, *, content, headers):
        if url.endswith("/exchange"):
            return self._fake.post(url, content=content, headers=headers)
        return self._real.post(url, content=content, headers=headers)

    def __getattr__(self, k):
        return getattr(self._real, k)


_LATE: dict = {}


def _late_world():
    if not _LATE:
        server, proto = W.build_service({"ex": "exchange", "s": "producer"})
        _LATE["proto"] = proto
        _LATE["client"] = W.make_sync_client(server, token_key=W.KEY)
    return _LATE["proto"], _LATE["client"]


def _client_case(case: dict) -> dict:
    from vgi_rpc.http import http_connect, http_introspect, request_upload_urls
    from vgi_rpc.http._client import _parse_unauthorized

    body = _client_body(case["shape"], case["reason"])
    ctype = "text/html" if case["shape"].startswith("html") else "application/json"
    raised, reason = "", ""
    try:
        if case["entry"] == "introspect":
            http_introspect(client=_Fake401(body, ctype))
        elif case["entry"] == "upload_urls":
            request_upload_urls(client=_Fake401(body, ctype))
        elif case["entry"] in ("exchange_turn", "continuation"):
            proto, real = _late_world()
            with http_connect(proto, client=_LateFake401(real, body, ctype)) as proxy:
                if case["entry"] == "exchange_turn":
                    sess = proxy.ex()
                    sess.exchange(W.AnnotatedBatch.from_pydict({"v": [1]}, schema=W.SCH))
                else:
                    for _ in proxy.s():
                        pass
        elif case["entry"] == "parse":
            e = _parse_unauthorized(body)      # returns the error it would raise
            raised, reason = type(e).__name__, str(getattr(e.reason, "value", e.reason))
        else:
            fake = _Fake401(body, ctype)
            with http_connect(CProto, client=fake) as proxy:
                if case["entry"] == "unary":
                    proxy.plain(x=1)
                else:
                    for _ in (proxy.s() if case["entry"] == "stream" else proxy.sh()):
                        pass
    except BaseException as e:  # noqa: BLE001 - the type is the observation
        raised = type(e).__name__
        r = getattr(e, "reason", "")
        reason = str(getattr(r, "value", r) or "")
    return {"raised": raised, "reason": reason}


def run(ctx: Ctx) -> None:
    W.quiet()
    quick = ctx.quick
    consts = _consts(quick)
    sanity = ["A_ReasonInClosedSet", "A_PkceTransparent", "A_MissingOnlyIfAllMissing", "A_GateFailureIsProxyRequired",
              "A_OutageNeverRejects", "A_AllowGateNeverDeclares", "A_ClientSane"]
    rec = getattr(ctx, "replay_record", None)
    cases: list = []
    ccases: list = []
    if rec and rec["detail"].get("side") in ("server", "client"):
        d = rec["detail"]
        (ccases if d.get("side") == "client" else cases).append({"case": d["case"], "exp": d.get("exp", {})})
    else:
        for cj in table.enumerate_cases(ctx, "gate", "Unauthorized", constants=consts, invariants=sanity,
                                        cases="AllCases", expected="AllExpected"):
            (cases if cj["case"]["side"] == "server" else ccases).append({"case": cj["case"]["c"], "exp": cj["exp"]})
        ctx.exhaustive = True
    ctx.rule = ("server case = (proxy_auth_headers?, proxy_proof_required?, PKCE?, authenticator composition with the "
                "outcome of every member on this request, Accept, route) from Unauthorized!Cases; client case = (401 body "
                "shape, reason, client entry point) from Unauthorized!ClientCases; non-trivial = distinct (service, "
                "request headers, route) requests executed on a real app / distinct (body, entry) runs of the real "
                "client.  Document-only obligations (Doc_*: reason as classified, note present when the configuration "
                "depends on a proxy, Retry-After, client reason round trip) are reported as drift, not violations")
    ctx.assume("stub authenticators raise the exception kinds the real ones raise; real bearer / XFCC / proxy_proof_gate "
               "leaves are driven through their own request headers",
               "note identity = (VGI-Auth-Proxy-Required value, proxy_hint text) with the HTML page's note block unescaped")
    svc = _Services()
    ubody = W.unary_body(svc.server, "plain")

    obs: list = []
    uniq = [0]

    def flood(client) -> None:
        """Make the service render more distinct (reason, detail) pairs than its body cache holds, in both
        representations (requests of the kind the stub leaves of this service understand)."""
        for i in range(70):
            uniq[0] += 1
            for acc in ("*/*", "text/html"):
                _send(client, "unary", {"X-Out-N1": "inv", "X-Detail": f"u:{uniq[0]}", "Accept": acc}, ubody)

    # all "fresh" cases first; then every service that has "flooded" cases is flooded; then those cases
    for cj in sorted(cases, key=lambda c: c["case"].get("cache", "fresh") != "fresh"):
        case = cj["case"]
        key, (client, book) = svc.app(case["cfg"], case["tree"])
        if case.get("cache") == "flooded" and not book["flooded"]:
            flood(client)
            book["flooded"] = True
        tj = json.dumps(case["tree"])
        real = '"bearer"' in tj or '"proof_' in tj or '"pem"' in tj
        seen_h = set()
        for _variant in range(1 if (quick or not real) else 3):      # several concrete credentials / proofs per class
            hdrs = W.tree_headers(case["tree"], ctx.rng)
            acc = ACCEPT[case["accept"]]
            if acc is not None:
                hdrs["Accept"] = acc
            d = case.get("detail", "default")
            if d == "unique":
                uniq[0] += 1
                hdrs["X-Detail"] = f"u:{uniq[0]}"
            elif d != "default":
                hdrs["X-Detail"] = d
            hk = json.dumps({k: (v if k != "VGI-Proxy-Proof" else v.split(".")[1:3]) for k, v in sorted(hdrs.items())})
            if hk in seen_h and _variant:
                continue
            seen_h.add(hk)
            W.reset()
            status, rh, content = _send(client, case["route"], hdrs, ubody)
            o, note = _observe(status, rh, content)
            if status == 401:
                nid = book["notes"].setdefault(note, len(book["notes"]) + 1) if note != json.dumps(["", ""]) else 0
                book["seq"].append(nid)
            conc = {"service": key, "route": case["route"], "headers": {k: v for k, v in sorted(hdrs.items())},
                    "cache": case.get("cache", "fresh")}
            obs.append({"case": case, "obs": o, "_c": conc, "_exp": cj["exp"], "_log": list(W.LOG)})
            ctx.case([key, case["route"], case.get("cache", "fresh"), sorted(hdrs.items())])
    for o in (obs[:: max(1, len(obs) // 3)])[:3]:
        ctx.sample({"abstract_case": o["case"], "oracle": o["_exp"], "concrete": o["_c"], "observed": o["obs"],
                    "authenticator_log": o["_log"]})

    def report(cl: str, sig: dict, detail: dict) -> None:
        if cl.startswith("Doc_"):
            ctx.drift.append({"clause": cl, "sig": sig, "detail": {k: v for k, v in detail.items() if k != "case"}})
        else:
            ctx.violation(cl, sig, detail)

    judged: list = []      # (observation for TLC, sig, detail)
    for o in obs:
        judged.append(({"case": o["case"], "obs": {**o["obs"], "side": "server"}},
                       {"side": "server", "tree_kind": o["case"]["tree"]["k"], "route": o["case"]["route"],
                        "accept": o["case"]["accept"], "cfg": o["case"]["cfg"], "expected": o["_exp"].get("r"),
                        "detail": o["case"].get("detail"), "cache": o["case"].get("cache"),
                        "status": o["obs"]["status"], "hreason": o["obs"]["hreason"]},
                       {"side": "server", "case": o["case"], "exp": o["_exp"], "concrete": o["_c"], "observed": o["obs"]}))
    # service level: one observation per service = the identities of the notes on all its 401s
    nsvc = 0
    for key, (_client, book) in svc.apps.items():
        if book["seq"]:
            nsvc += len(book["seq"]) > 1
            judged.append(({"case": {"service": key}, "obs": {"side": "service", "notes": book["seq"]}},
                           {"side": "service", "service": key}, {"side": "service", "notes": book["seq"]}))
    ctx.extra["services_built"] = len(svc.apps)
    ctx.extra["services_with_several_401s"] = nsvc
    for cj in ccases:
        case = cj["case"]
        o = _client_case(case)
        ctx.case(["client", case["shape"], case["reason"], case["entry"]])
        judged.append(({"case": case, "obs": {**o, "side": "client"}},
                       {"side": "client", "shape": case["shape"], "entry": case["entry"], "raised": o["raised"]},
                       {"side": "client", "case": case, "observed": o}))
        if case["shape"] == "envelope_extra" and case["entry"] == "stream_header" and case["reason"] == "expired_credential":
            ctx.sample({"client_case": case, "observed": o})
    if judged:
        bad = table.judge(ctx, "gate", "Unauthorized", [j[0] for j in judged], constants=consts, conforms="AllConforms")
        for idx, clauses in bad:
            for cl in clauses:
                report(cl, judged[idx][1], judged[idx][2])
    ctx.extra["doc_only_discrepancies_not_judged"] = [
        "unauthorized-spec §6 asks the client to fall back to the VGI-Auth-Reason header when the body carries no "
        "reason; _parse_unauthorized only sees the body (the property statement does not require the fallback)"]
