"""C01: table-style TLC wrappers with *parallel* evaluation.

vf.table enumerates cases / judges observations as TLC initial states, which TLC computes and checks on a single
thread.  Semantics!Expected / Conforms interpret whole programs, so here the work items are successors of a few
partition states instead (TLC expands different states on different workers).  Same contract as vf.table:
the spec enumerates `Cases`, checks the named sanity invariants on every case, emits `Expected(c)`; and judges
recorded observations with `Conforms(case, obs)`.
"""
from __future__ import annotations

import json

from vf.core import Ctx
from vf.tlc import MachineryError, render_cfg, require_ok, run_tlc, sany

ENUM = """---- MODULE {m}_PEnum ----
EXTENDS {m}, Json
VARIABLES part, c, h              \\* h = the history the interpreter assigns to case c (computed once per case)
Nil == [calls |-> <<>>]
Keys == {{PartKey(x) : x \\in Cases}}
PInit == part \\in Keys /\\ c = Nil /\\ h = <<>>
PNext == /\\ c = Nil
         /\\ c' \\in {{x \\in Cases : PartKey(x) = part}}
         /\\ h' = Expected(c')
         /\\ UNCHANGED part
Emit == c = Nil \\/ PrintT("@@J@@" \\o ToJson([case |-> c, exp |-> h]))
SlicesDef == {slices}
{invs}
====
"""

OBS = """---- MODULE {m}_PObs ----
EXTENDS {m}, Json, IOUtils
Obs == JsonDeserialize(IOEnv.OBS_FILE)
Blocks == {blocks}
SlicesDef == {{<<"multi", 1, 1, 1>>}}      \\* Conforms does not depend on the enumerated slice
VARIABLES blk, i
BInit == blk \\in 1..Blocks /\\ i = 0
BNext == /\\ i = 0
         /\\ i' \\in {{k \\in 1..Len(Obs) : (k % Blocks) + 1 = blk}}
         /\\ UNCHANGED blk
Judge == i = 0 \\/ LET bad == Conforms(Obs[i].case, Obs[i].obs) IN
                   PrintT("@@J@@" \\o ToJson([i |-> i, bad |-> bad]))
====
"""


def tla_slices(slices) -> str:
    return "{" + ", ".join(f'<<"{a}", {c}, {s}, {t}>>' for a, c, s, t in sorted(slices)) + "}"


def enumerate_cases(ctx: Ctx, wd, module: str, *, slices, invariants=(), name: str, timeout: int = 900,
                    emit: bool = True) -> list[dict]:
    invs = "\n".join(f"Inv_{x} == {x}(c, h)" for x in invariants)
    (wd / f"{module}_PEnum.tla").write_text(ENUM.format(m=module, invs=invs, slices=tla_slices(slices)))
    cfg = render_cfg(init_next=("PInit", "PNext"), overrides={"Slices": "SlicesDef"},
                     invariants=[f"Inv_{x}" for x in invariants] + (["Emit"] if emit else []))
    r = run_tlc(wd, f"{module}_PEnum", cfg, timeout=timeout, cfg_name=f"{module}_{name}.cfg", workers=12)
    ctx.add_tlc(f"{module}:enumerate[{name}]", r)
    require_ok(r, f"{module} case enumeration / interpreter sanity invariants {list(invariants)} ({name})")
    cases = [j for j in r.json_lines if isinstance(j, dict) and "case" in j]
    return cases


def judge(ctx: Ctx, wd, module: str, observations: list[dict], *, timeout: int = 1200,
          chunk: int = 6000, blocks: int = 24, name: str = "judge") -> list[tuple[int, list[str]]]:
    """TLC evaluates Conforms(case, obs) for every recorded observation.  Returns [(index, clause names)] for the
    observations with a non-empty verdict."""
    (wd / f"{module}_PObs.tla").write_text(OBS.format(m=module, blocks=blocks))
    bad: list[tuple[int, list[str]]] = []
    for off in range(0, len(observations), chunk):
        part = observations[off:off + chunk]
        f = wd / f"obs_{module}_{off}.json"
        f.write_text(json.dumps(part))
        cfg = render_cfg(init_next=("BInit", "BNext"), overrides={"Slices": "SlicesDef"}, invariants=["Judge"])
        r = run_tlc(wd, f"{module}_PObs", cfg, timeout=timeout, env={"OBS_FILE": str(f)}, cfg_name=f"{module}_pobs.cfg",
                    workers=12)
        ctx.add_tlc(f"{module}:{name}[{off}:{off + len(part)}]", r)
        require_ok(r, f"{module} observation judging")
        seen = set()
        for j in r.json_lines:
            seen.add(j["i"])
            if j["bad"]:
                bad.append((off + j["i"] - 1, sorted(j["bad"])))
        if len(seen) != len(part):
            raise MachineryError(f"{module}: judged {len(seen)} of {len(part)} observations")
        ctx.traces_validated += len(part) - len([1 for j in r.json_lines if j["bad"]])
        f.unlink()
    return bad
