"""C26 -- sticky sessions are never used concurrently with or after close.

spec/sticky/Sticky.tla        the code-shaped model (one action = one scheduler step of one real thread)
spec/sticky/StickyTrace.tla   recorded real executions must be behaviours of Sticky (drift detector + clauses)
spec/sticky/StickyMonitor.tla the property clauses over the observable dispatch/close history (decides VIOLATION)
spec/sticky/StickyOrig.tla    the pre-fix design; TLC shows how it violates the clauses (kept as documentation)
"""
import itertools

from drivers._sticky_world import run_schedule
from vf import tracecheck
from vf.core import Ctx
from vf.graph import dump_graph
from vf.tlc import Raw, render_cfg, require_ok, run_tlc, sany, wrap_module

META = {
    "engine": "sticky",
    "text": "TLC model-checks Sticky.tla (all interleavings of use/close/DELETE/reaper/shutdown threads and a clock "
            "crossing the TTL, at lock granularity) against the four C26 clauses plus exactly-once-if-ended and "
            "deadlock freedom; interleavings taken from TLC's state graphs (edge cover in quick, plus random walks "
            "and larger thread sets in thorough) are forced step by step onto the real WSGI stack "
            "(_StickyMiddleware, _SessionRegistry, _SessionResource, CallContext.close_session) by a deterministic "
            "scheduler; the observable dispatch/close history of every execution is judged by TLC with "
            "StickyMonitor.tla and the step trace is validated against Sticky.tla with StickyTrace.tla.",
    "note": "Trusted: the cooperative scheduler (exactly one thread runs between park points; park points are the "
            "lock acquires of vgi_rpc.http.server._sticky plus method body and close hook), so races on data not "
            "protected by those locks are out of reach; one session, one worker; the reaper is driven as explicit "
            "drain_expired() sweeps.",
    "technique": "TLC exhaustive interleaving exploration of a lock-granular TLA+ model; TLC-generated schedules "
                 "replayed on real threads by a deterministic scheduler; TLC trace validation + property monitor",
}

KINDS = ["use", "close", "delete", "reaper", "shutdown"]
CLAUSES = ["TypeOK", "Mutex", "CloseAtMostOnce", "NoCloseDuringDispatch", "NoDispatchAfterClose",
           "CloseExactlyOnceIfEnded", "LockSane", "NoDeadlock"]


def _set(names) -> str:
    return "{" + ", ".join(f'"{t}"' for t in names) + "}"


def _cfg(wd, kinds: dict, max_clock: int, expires: int, tag="MC_Sticky", base="Sticky", sets=None):
    fn = " @@ ".join(f'"{t}" :> "{k}"' for t, k in kinds.items())
    sets = sets if sets is not None else [list(kinds)]
    wrap_module(wd, base, tag, {"KindDef": f"({fn})", "SetsDef": "{" + ", ".join(_set(x) for x in sets) + "}"})
    return tag, dict(constants={"Threads": Raw(_set(kinds)), "MaxClock": max_clock, "Expires": expires},
                     overrides={"Kind": "KindDef", "ThreadSets": "SetsDef"})


ALL = [f"{k}{i}" for k in ("use", "close", "delete", "reaper", "shutdown") for i in (1, 2, 3)]


def _name(kinds: tuple) -> dict:
    out, n = {}, {}
    for k in kinds:
        n[k] = n.get(k, 0) + 1
        out[f"{k}{n[k]}"] = k
    return out


def _configs(ctx: Ctx):
    """Thread sets whose state graphs are small enough to dump; each thread kind pair/triple appears."""
    return [_name(tuple(c.values())) for c in _configs0(ctx)]


def _configs0(ctx: Ctx):
    out = []
    two = [("use", "use"), ("use", "close"), ("use", "delete"), ("use", "reaper"), ("use", "shutdown"),
           ("close", "close"), ("close", "delete"), ("close", "reaper"), ("close", "shutdown"),
           ("delete", "reaper"), ("delete", "delete"), ("reaper", "shutdown")]
    for a, b in two:
        out.append({"a": a, "b": b})
    three = [("use", "use", "delete"), ("use", "close", "reaper"), ("use", "delete", "reaper"),
             ("use", "close", "delete"), ("use", "use", "close"), ("close", "delete", "shutdown")]
    if not ctx.quick:
        three += [c for c in itertools.combinations_with_replacement(KINDS, 3) if c not in three and ("use" in c or "close" in c)][:20]
    for t in three:
        out.append({f"t{i}": k for i, k in enumerate(t)})
    return out


def run(ctx: Ctx) -> None:
    wd = ctx.wd.stage("sticky")
    for m in ("Sticky", "StickyOrig"):
        sany(wd, m)
    # (1) the design: every interleaving of five threads + clock
    big = {"r1": "use", "r2": "close", "d": "delete", "p": "reaper", "s": "shutdown"}
    if not ctx.quick:
        big["r3"] = "use"
    tag, kw = _cfg(wd, big, 2, 1)
    r = run_tlc(wd, tag, render_cfg(invariants=CLAUSES, **kw), coverage=True, timeout=1500)
    ctx.add_tlc(f"Sticky exhaustive {sorted(big.values())}", r)
    require_ok(r, "Sticky.tla (intended design) must satisfy the C26 clauses")
    ctx.exhaustive = True
    # the pre-fix design is kept as a documented counterexample generator
    orig = run_tlc(wd, "StickyOrig", render_cfg(
        constants={"Req": Raw("{r1, r2}"), "MaxClock": 2, "Expires": 1, "FixRevalidate": False,
                   "FixReaperLock": False, "FixCloseOrder": False},
        invariants=["Mutex", "CloseAtMostOnce", "NoCloseDuringDispatch", "NoDispatchAfterClose"]))
    ctx.extra["prefix_design_violates"] = orig.violated
    ctx.extra["prefix_design_counterexample"] = [a for a, _ in orig.counterexample]

    # (2) spec -> code: schedules from the state graphs of small thread sets
    ctx.rule = ("a case = one complete interleaving (sequence of Step(thread)/Tick) executed on the real WSGI "
                "sticky stack; generated as edge-covering paths of TLC's state graph for each thread set; "
                "non-trivial = distinct schedules with >= 2 threads that each took >= 1 step")
    step_traces: dict[str, list] = {}
    step_meta: dict[str, tuple] = {}
    mon_traces, mon_meta = [], []
    budget = 500 if ctx.quick else 6000
    allk = {n: n.rstrip("0123456789") for n in ALL}
    cfgs = _configs(ctx)
    tag, kw = _cfg(wd, allk, 2, 1, tag="G_Sticky", sets=[list(c) for c in cfgs])
    gr, g = dump_graph(wd, tag, render_cfg(invariants=CLAUSES, **kw), name="g")
    ctx.add_tlc(f"Sticky state graphs of {len(cfgs)} thread sets (2-3 threads each)", gr)
    require_ok(gr, "Sticky graph config")
    paths = g.edge_cover_paths(ctx.rng, max_paths=budget,
                               key=lambda s, lab, d: (lab, tuple(sorted(s["pc"].items())), s["reg"], s["owner"],
                                                       tuple(sorted(d["pc"].items()))))
    if not ctx.quick:
        paths += g.random_paths(ctx.rng, budget, 40)
    ctx.extra["graph_states"] = len(g.raw)
    ctx.extra["graph_edges"] = g.n_edges
    ctx.extra["schedules_from_edge_cover"] = len(paths)
    if True:
        for nodes, labs in paths:
            kinds = {t: allk[t] for t in sorted(g.state(nodes[0])["active"])}
            beh = g.path_to_behaviour(nodes, labs)
            steps = []
            for b in beh:
                if b["action"] == "Tick":
                    steps.append(("Tick",))
                else:
                    t = b["args"][0]
                    steps.append(("Step", t, b["state"]["pc"][t]))
            res = run_schedule(kinds, 1, steps)
            key = [sorted(kinds.items()), [s[:2] for s in steps]]
            ctx.case(key, nontrivial=len({s[1] for s in steps if s[0] == "Step"}) >= 2,
                     sample={"threads": kinds, "schedule": [":".join(s[:2]) for s in steps],
                             "history": [f"{e['t']}:{e['e']}" for e in res["ghost"]], "responses": res["results"]})
            if res["drift"]:
                ctx.drift.append({"threads": kinds, "drift": res["drift"]})
            gk = repr(sorted(kinds.items()))
            step_traces.setdefault(gk, []).append({"kinds": kinds, "expires": 1, "ev": res["trace"]})
            step_meta[gk] = kinds
            mon_traces.append({"ev": res["ghost"], "ended": res["live"] == 0})
            mon_meta.append({"threads": kinds, "schedule": [list(s[:2]) for s in steps], "history": res["ghost"],
                             "errors": res["errors"]})
            if res["errors"]:
                ctx.drift.append({"threads": kinds, "thread_errors": res["errors"]})

    # (3) code -> spec: TLC judges the observable histories (decides) and validates step traces (drift)
    verdicts = tracecheck.validate(ctx, wd, "StickyMonitor", mon_traces, spec="MSpec", name="StickyMonitor")
    for v, meta in zip(verdicts, mon_meta):
        for clause in v["bad"]:
            closer = next((e["t"] for e in meta["history"] if e["e"] == "CloseBegin"), None)
            ctx.violation(clause, {"threads": sorted(meta["threads"].values()),
                                   "closer": meta["threads"].get(closer, closer)}, meta)
    accepted = 0
    tag, kw = _cfg(wd, allk, 2, 1, tag="T_Sticky", base="StickyTrace")
    flat = [(gk, tr) for gk, trs in step_traces.items() for tr in trs]
    vs_all = tracecheck.validate(ctx, wd, tag, [tr for _, tr in flat], name="StickyTrace (all thread sets)", **kw)
    for gk in step_traces:
        kinds = step_meta[gk]
        trs = [tr for g2, tr in flat if g2 == gk]
        vs = [v for (g2, _), v in zip(flat, vs_all) if g2 == gk]
        for v, tr in zip(vs, trs):
            if v["matched"] == v["len"] and not v["bad"]:
                accepted += 1
            elif v["matched"] != v["len"]:
                ctx.drift.append({"threads": kinds, "trace_rejected_at": v["matched"], "event": tr["ev"][v["matched"]] if v["matched"] < len(tr["ev"]) else None})
    ctx.traces_validated = accepted
    ctx.extra["step_traces_accepted_by_StickyTrace"] = accepted
    ctx.extra["step_traces_total"] = sum(len(v) for v in step_traces.values())
