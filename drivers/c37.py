"""C37 -- OAuth browser flow redirects.  Spec: spec/data/Url.tla (WHATWG origin reference model + cookie table)."""
import base64
import contextlib
import io
import logging
import types
import warnings
from typing import Protocol
from urllib.parse import parse_qs, quote, urlsplit

from vf import table
from vf.core import Ctx
from vf.tlc import Raw

from drivers._data_enum import enumerate_families

META = {
    "engine": "data",
    "text": "Url.tla is a token-level reference model of the slice of the WHATWG URL parser that fixes the origin a "
            "browser navigates to (C0/space strip, tab/newline removal, scheme state, special-scheme '\\' == '/', "
            "special-relative-or-authority, relative slash, authority with last-'@' split, host classes, port) with a "
            "three-valued verdict.  TLC checks six model-sanity invariants exhaustively at small bounds and enumerates "
            "every string over the delimiter alphabet up to the length bound (flat strings, tails behind scheme://, "
            "paths behind '/', one-token neighbours of realistic seeds, leading-run, host look-alike, authority-shape "
            "(userinfo x host x port x continuation) and IPv6-literal families) for both roles (return_to x allowlist config, "
            "original URL x service prefix).  Every string is concretised (several spellings per token) and fed to the "
            "real _validate_return_to / _validate_original_url; accepted and sampled strings are driven through the "
            "real PKCE middleware fast path, the logout redirect and the full 401 -> IdP -> callback flow of make_wsgi_app "
            "with a stub IdP (all five Location-emitting sites of _oauth_pkce.py; the IdP one is only checked to be the IdP); "
            "TLC judges every observation with the ONE-SIDED Url!Conforms (flag only accept AND definite foreign "
            "origin).  Cookie half: TLC enumerates mutation x age x state x flow; the driver mutates every byte of a "
            "server-minted session cookie, moves the module clock, and TLC judges with Url!CookieConforms.",
    "note": "Trusted: Url.tla's transcription of the URL Standard for the modelled slice (everything outside it is "
            "'uncertain'/'failure' and never held against the code); the token spellings; the module-level stand-ins "
            "for httpx2 (stub IdP) and time (logical clock) patched into vgi_rpc.http._oauth_pkce from the harness.  "
            "The redirect to the configured authorization endpoint itself is outside the clause.  Same-origin targets "
            "outside the service prefix (/vgiX, /vgi/../x) are not judged (one-sided oracle on origins only).",
}

A_HOST = "app.example.com"
SPELL = {
    ":": [":"], "/": ["/"], "B": ["\\"], "@": ["@"], "?": ["?"], "#": ["#"], ".": ["."], "-": ["-"], "[": ["["], "]": ["]"],
    "%": ["%2F", "%5C", "%40", "%3A", "%23", "%3F", "%2f", "%5c"],
    "T": ["\t", "\n", "\r"], "S": [" "], "C": ["\x01", "\x1f", "\x00", "\x0b", "\x0c", "\x1b"],
    "H": ["http", "HTTP", "hTtP"], "Hs": ["https", "HTTPS", "HttpS"],
    "l": ["localhost", "LOCALHOST", "LocalHost"], "i": ["127.0.0.1"],
    "a": [A_HOST, A_HOST.upper(), "App.Example.Com"],
    "d": ["default-origin.invalid"], "e": ["evil.com", "attacker.example", "EVIL.COM"], "x": ["x", "zz", "wat"], "P": ["vgi"], "8": ["8443"], "6": ["::1"],
}


class _Svc(Protocol):
    def echo(self, message: str) -> str: ...


class _Impl:
    def echo(self, message: str) -> str:
        return message


def spell(tokens, variant: int, a_host: str | None = None) -> str:
    out = []
    for i, t in enumerate(tokens):
        opts = SPELL[t]
        s = opts[(variant + i) % len(opts)] if variant else opts[0]
        if t == "a" and a_host is not None:
            s = a_host if s == A_HOST else (a_host.upper() if s.isupper() else a_host.title())
        out.append(s)
    return "".join(out)


def klass(role: str, loc) -> str:
    """Input class for the violation signature (finding identification only, never part of the verdict)."""
    if role == "rt":
        if "B" in loc:
            return "rt-backslash-in-authority"
        if "[" in loc:
            return "rt-ipv6-literal"
        if "@" in loc:
            return "rt-userinfo"
        if "d" in loc:
            return "rt-default-origin-target"
        if "a" in loc and "8" in loc and ":" in loc[3:]:
            return "rt-allowlisted-host-other-port"
        if any(t in loc for t in ("l", "i", "a")):
            return "rt-lookalike-host"
        return "rt-other"
    k = 0
    while k < len(loc) and loc[k] in ("/", "B", "T", "S", "C"):
        k += 1
    if any(t in ("T", "S", "C") for t in loc[:k]):
        return "orig-ignored-char-in-leading-run"
    if "B" in loc[:k]:
        return "orig-slash-backslash-authority"
    if sum(1 for t in loc[:k] if t == "/") >= 3:
        return "orig-extra-slashes-authority"
    return "orig-other"


def S(xs) -> Raw:
    return Raw("{" + ",".join('"' + x + '"' for x in xs) + "}")


# ------------------------------------------------------------------ stub IdP / clock
class _World:
    def __init__(self) -> None:
        self.exchanges: list[dict] = []
        self.now = 1_900_000_000
        self.token = "opaque-access-token-7c1e"

    def install(self, pk):
        world = self

        class _Resp:
            status_code = 200
            headers = {"content-type": "application/json"}
            content = b"{}"

            def __init__(self, data):
                self._d = data

            def raise_for_status(self):
                return None

            def json(self):
                return self._d

        class _Client:
            def __init__(self, *a, **k):
                pass

            def __enter__(self):
                return self

            def __exit__(self, *a):
                return False

            def get(self, url, **k):
                return _Resp({"authorization_endpoint": "https://idp.test/authorize", "token_endpoint": "https://idp.test/token",
                              "issuer": "https://idp.test"})

            def post(self, url, data=None, **k):
                world.exchanges.append(dict(data or {}))
                return _Resp({"access_token": world.token, "expires_in": 3600, "refresh_token": "refresh-1"})

        self._saved = (pk.httpx2, pk.time)
        pk.httpx2 = types.SimpleNamespace(Client=_Client)
        pk.time = types.SimpleNamespace(time=lambda: world.now)
        self._pk = pk

    def uninstall(self):
        self._pk.httpx2, self._pk.time = self._saved


def _raw_get(app, path, query, headers):
    """GET straight through the WSGI callable (no wsgiref.validate).  A CR/LF in a header value is not deliverable."""
    import falcon.testing
    from http.cookies import SimpleCookie

    env = falcon.testing.create_environ(path=path, query_string=query, headers=headers, method="GET")
    got: dict = {}

    def start_response(status, hdrs, exc_info=None):
        got["status"], got["headers"] = status, list(hdrs)

    try:
        body = b"".join(app(env, start_response))
    except Exception as e:  # noqa: BLE001
        return e
    hdrs = {}
    cookies: dict = {}
    for k, v in got.get("headers", []):
        if "\r" in v or "\n" in v:
            return ValueError("header value with CR/LF cannot be sent")
        if k.lower() == "set-cookie":
            for name, morsel in SimpleCookie(v).items():
                cookies[name] = types.SimpleNamespace(value=morsel.value)
        else:
            hdrs[k.lower()] = v
    return types.SimpleNamespace(status_code=int(got["status"].split()[0]), headers=hdrs, cookies=cookies, content=body)


def _authenticate(req):
    from vgi_rpc.rpc import AuthContext

    h = req.get_header("Authorization") or ""
    if h == "Bearer opaque-access-token-7c1e":
        return AuthContext(domain="test", authenticated=True, principal="user")
    raise ValueError("missing or invalid credential")


def run(ctx: Ctx) -> None:
    warnings.filterwarnings("ignore")
    logging.disable(logging.CRITICAL)
    try:
        with contextlib.redirect_stderr(io.StringIO()):
            _run(ctx)
    finally:
        logging.disable(logging.NOTSET)


def _run(ctx: Ctx) -> None:
    quick = ctx.quick
    rng = ctx.rng
    import falcon.testing

    import vgi_rpc.http._oauth_pkce as pk
    from vgi_rpc.http import OAuthResourceMetadata, make_wsgi_app
    from vgi_rpc.rpc import RpcServer

    # ------------------------------------------------------------ 1. TLC: model sanity at small bounds
    flat_q = [":", "/", "B", "@", "H", "Hs", "l", "e", "x", "#", "?", "."]
    small = {"FlatAlphabet": S(flat_q + ["T", "S", "%", "8"]), "FlatLen": 2 if quick else 3,
             "TailAlphabet": S(["e", "l", "a", ":", "/", "B", "@", "?", "#", ".", "%", "S", "T", "8", "[", "i"]),
             "TailLen": 2 if quick else 3, "PrefixSchemes": S(["H", "Hs"]), "PrefixSlashes": S(["/", "B"]), "LeadLen": 2 if quick else 3, "HostLen": 2 if quick else 3, "BaseScheme": "H"}
    sanity = ["KindTotal", "WhitespaceInvisible", "BackslashIsSlash", "FragmentIrrelevant", "PathAbsoluteStays",
              "EscapeIsNoDelimiter"]
    fams = [f + "(0)" for f in ("RtFlat", "RtTails", "RtNeigh", "RtLead", "RtHosts", "RtAuth", "RtV6", "RtTargets", "OrigFlat", "OrigTails", "OrigNeigh", "OrigLead")]
    for base in (("H",) if quick else ("H", "Hs")):
        enumerate_families(ctx, "data", "Url", [f for f in fams if not ((quick or base == "Hs") and ("Neigh" in f or "RtAuth" in f))],
                           constants={**small, "BaseScheme": base, **({"TailLen": 2} if base == "Hs" else {})}, invariants=sanity,
                           name=f"Url:model-sanity(base={base})", emit=False)

    # ------------------------------------------------------------ 2. TLC: enumerate the case space + reference verdict
    if quick:
        consts = {"FlatAlphabet": S(flat_q), "FlatLen": 3,
                  "TailAlphabet": S(["e", "l", "a", ":", "/", "B", "@", "8", "%", "T"]), "TailLen": 4,
                  "PrefixSchemes": S(["H", "Hs"]), "PrefixSlashes": S(["/"]), "LeadLen": 3, "HostLen": 3, "BaseScheme": "H"}
    else:
        consts = {"FlatAlphabet": S(flat_q), "FlatLen": 4,
                  "TailAlphabet": S(["e", "l", "a", ":", "/", "B", "@", "?", "#", ".", "%", "S", "T", "8"]), "TailLen": 4,
                  "PrefixSchemes": S(["H", "Hs"]), "PrefixSlashes": S(["/"]), "LeadLen": 4, "HostLen": 4, "BaseScheme": "H"}
    cases = enumerate_families(ctx, "data", "Url", fams, constants=consts, name="Url:enumerate")
    ctx.exhaustive = True
    ctx.rule = ("case = (role, config, token string) enumerated by TLC (all strings up to the bound in each family); "
                "non-trivial = distinct (role, config, concrete string, path into the real code: validator / fast path / "
                "full login+callback) executions; cookie cases = (mutation incl. byte position, age, state, flow)")
    ctx.assume("base URL of the navigation is the service's own http(s) URL (special scheme); BaseScheme=http for the "
               "enumeration, both http and https for the model-sanity runs",
               "allowlist configurations: None (built-in default origin), empty (loopback only), https://app.example.com, the same "
               "with :8443, custom + default, a look-alike name the operator owns, an http origin, and two sloppy spellings "
               "(trailing slash, upper case) that are read generously; every configuration is driven through a hand-wired "
               "gate + _OAuthPkceMiddleware + _OAuthCallbackResource app because make_wsgi_app exposes no such parameter",
               "loopback = localhost / 127.0.0.1 on any port and scheme; *.localhost, trailing-dot names, numeric and "
               "IPv6 hosts are 'uncertain' and never flagged",
               "request paths always start with '/' (WSGI PATH_INFO), so original-URL cases do too",
               "the 302 to the configured authorization endpoint is the protocol itself and is not judged",
               "tampering = the decoded payload or MAC bytes differ from what the server minted (a different text "
               "encoding of the same bytes is not tampering); a cookie exactly max-age old may go either way")

    # ------------------------------------------------------------ 3. validators on every case
    d_origin = sorted(pk._DEFAULT_ALLOWED_RETURN_ORIGINS)[0]
    d_host = urlsplit(d_origin).hostname or "default.invalid"
    SPELL["d"] = [d_host, d_host.upper()]
    # allowed_return_origins per configuration (None = not configured: the library's built-in default list)
    allow_cfg = {"default": None, "empty": frozenset(), "noport": frozenset({f"https://{A_HOST}"}),
                 "port": frozenset({f"https://{A_HOST}:8443"}), "both": frozenset({f"https://{A_HOST}", d_origin}),
                 "lookalike": frozenset({f"https://{A_HOST}.evil.com"}), "http_a": frozenset({f"http://{A_HOST}"}),
                 "slash": frozenset({f"https://{A_HOST}/"}), "upper": frozenset({f"HTTPS://{A_HOST.upper()}"})}
    allow = {k: (pk._DEFAULT_ALLOWED_RETURN_ORIGINS if v is None else v) for k, v in allow_cfg.items()}
    prefix_of = {"root": "", "vgi": "/vgi"}
    fallback_tok = {"root": ["/"], "vgi": ["/", "P"]}
    obs: list[dict] = []
    raised: dict[str, int] = {}
    accepted_cases: list[tuple[dict, str]] = []
    nvar = 1 if quick else 2
    for cj in cases:
        c = cj["case"]
        toks = c["s"]
        multi = any(len(SPELL[t]) > 1 for t in toks)
        more = cj["exp"]["kind"] in ("foreign", "loopback", "allowed")     # alternative spellings where a host is in play
        for v in range(nvar if (multi and more) else 1):
            u = spell(toks, v)
            if c["role"] == "rt":
                try:
                    out = pk._validate_return_to(u, allow[c["cfg"]])
                except Exception as e:  # noqa: BLE001 -- no redirect is issued (the middleware answers 500)
                    raised[type(e).__name__] = raised.get(type(e).__name__, 0) + 1
                    out = ""
                acc = bool(out)
                loc = toks if out == u else None
            else:
                pfx = prefix_of[c["cfg"]]
                try:
                    out = pk._validate_original_url(u, pfx)
                except Exception as e:  # noqa: BLE001
                    raised[type(e).__name__] = raised.get(type(e).__name__, 0) + 1
                    out = None
                acc = out is not None
                loc = toks if out == u else (fallback_tok[c["cfg"]] if out == (pfx or "/") else None)
            ctx.case([c["role"], c["cfg"], u, "validate"])
            if acc and loc is None:
                ctx.drift.append({"what": "validator returned a value that is neither the input nor the fallback",
                                  "case": c, "input": u, "output": out})
                continue
            o = {"via": "validate", "accepted": acc, "loc": loc if acc else []}
            obs.append({"case": c, "obs": o, "_u": u, "_kind": cj["exp"]["kind"]})
            if acc and loc == toks and v == 0:
                accepted_cases.append((cj, u))
    ctx.extra["validator_raised"] = raised
    ctx.extra["validator_accepted_inputs"] = len(accepted_cases)

    # ------------------------------------------------------------ 4. the real flow, end to end
    world = _World()
    world.install(pk)
    try:
        a_e2e = urlsplit(sorted(pk._DEFAULT_ALLOWED_RETURN_ORIGINS)[0]).hostname or A_HOST
        clients = {}
        for cfgname, pfx in prefix_of.items():
            md = OAuthResourceMetadata(resource=f"http://svc.test:8000{pfx}", authorization_servers=("https://idp.test",),
                                       client_id="client-1", client_secret="client-secret-9f", use_id_token_as_bearer=False)
            app = make_wsgi_app(RpcServer(_Svc, _Impl(), enable_describe=True), prefix=pfx, token_key=b"k" * 32,
                                authenticate=_authenticate, oauth_resource_metadata=md, compression_level=None)
            clients[cfgname] = falcon.testing.TestClient(app)
        html = {"Accept": "text/html"}

        def get(client, path, query="", headers=None):
            try:
                return client.simulate_get(path, query_string=query, headers=headers or {})
            except AssertionError:
                # falcon's test client runs wsgiref.validate, which refuses a TAB in a header value although HTTP allows
                # it (RFC 9110 field-content) and real servers emit it: call the WSGI app directly
                return _raw_get(client.app, path, query, headers or {})
            except Exception as e:  # noqa: BLE001 -- nothing reached the browser
                return e

        def login(client, path, query):
            """401 on a browser GET -> 302 to the IdP; returns (session cookie value, state) or None."""
            r = get(client, path, query, html)
            if isinstance(r, Exception) or r.status_code != 302:
                return None
            loc = r.headers.get("location", "")
            if not loc.startswith("https://idp.test/authorize?"):
                ctx.violation("RedirectTargetSafe", {"role": "idp", "via": "login", "class": "login-redirect-not-to-idp"},
                              {"location": loc})
                return None
            ck = r.cookies.get(pk._SESSION_COOKIE_NAME)
            st = parse_qs(urlsplit(loc).query).get("state", [""])[0]
            return (ck.value, st) if ck is not None else None

        def callback(client, pfx, cookie, state):
            del world.exchanges[:]
            q = "code=auth-code-1" + ("" if state is None else "&state=" + quote(state, safe=""))
            h = {} if cookie is None else {"Cookie": f"{pk._SESSION_COOKIE_NAME}={cookie}"}
            return get(client, f"{pfx}/_oauth/callback", q, h)

        # which cases go end to end: everything the validator accepted (bounded) + a sample of the rest
        e2e_budget = 400 if quick else 6000
        pool_acc = [x for x in accepted_cases if x[0]["case"]["role"] == "orig" or x[0]["case"]["cfg"] == "noport"]
        foreign_acc = [x for x in pool_acc if x[0]["exp"]["kind"] == "foreign"]
        others = [x for x in pool_acc if x[0]["exp"]["kind"] != "foreign"]
        rng.shuffle(others)
        rng.shuffle(foreign_acc)
        # ... of the rest: half random, half strings the reference sends to a foreign origin (a flow that skips or
        # weakens validation on ONE path shows up exactly there)
        acc_keys = {id(x[0]) for x in accepted_cases}
        e2e_ok = [cj for cj in cases if cj["case"]["role"] == "orig" or cj["case"]["cfg"] == "noport"]
        rest_foreign = [cj for cj in e2e_ok if cj["exp"]["kind"] == "foreign" and id(cj) not in acc_keys]
        rejected = [(cj, spell(cj["case"]["s"], 0)) for cj in
                    rng.sample(e2e_ok, min(len(e2e_ok), e2e_budget // 8)) + rng.sample(rest_foreign, min(len(rest_foreign), e2e_budget // 8))]
        chosen = foreign_acc[: e2e_budget // 2] + others[: e2e_budget // 2] + rejected
        unjudged = {"n": 0}
        for cj, _u0 in chosen:
            c = cj["case"]
            toks = c["s"]
            if c["role"] == "rt":
                u = spell(toks, 0, a_host=a_e2e)
                client, pfx = clients["root"], ""
                sep = "#" if "#" not in u else "&"
                suffix = ["#", "x"] if "#" not in u else ["x"]
                # fast path: already signed in
                r = get(client, "/", "_vgi_return_to=" + quote(u, safe=""),
                        {**html, "Cookie": f"{pk._AUTH_COOKIE_NAME}={world.token}"})
                ctx.case(["rt", "noport", u, "fastpath"])
                if not isinstance(r, Exception):
                    loc = r.headers.get("location") if r.status_code == 302 else None
                    if loc is None:
                        obs.append({"case": c, "obs": {"via": "fastpath", "accepted": False, "loc": []}, "_u": u, "_kind": cj["exp"]["kind"]})
                    elif loc.startswith(u + sep + "token="):
                        obs.append({"case": c, "obs": {"via": "fastpath", "accepted": True, "loc": toks + suffix}, "_u": u,
                                    "_kind": cj["exp"]["kind"], "_loc": loc})
                    else:
                        unjudged["n"] += 1
                # logout: the one redirect of the flow that takes no target from the request
                qu = quote(u, safe="")
                r = get(client, "/_oauth/logout", f"next={qu}&return_to={qu}&redirect_uri={qu}&url={qu}",
                        {**html, "Referer": u if u.isprintable() else "http://svc.test:8000/", "Cookie": f"{pk._AUTH_COOKIE_NAME}={world.token}"})
                ctx.case(["rt", "noport", u, "logout"])
                if not isinstance(r, Exception) and r.status_code in (301, 302, 303, 307, 308):
                    loc = r.headers.get("location", "")
                    if loc == "/":
                        obs.append({"case": c, "obs": {"via": "logout", "accepted": True, "loc": ["/"]}, "_u": u, "_kind": cj["exp"]["kind"], "_loc": loc})
                    elif loc.startswith(u):
                        obs.append({"case": c, "obs": {"via": "logout", "accepted": True, "loc": toks}, "_u": u, "_kind": cj["exp"]["kind"], "_loc": loc})
                    else:
                        unjudged["n"] += 1
                # full flow: 401 -> IdP -> callback
                sess = login(client, "/", "_vgi_return_to=" + quote(u, safe=""))
                ctx.case(["rt", "noport", u, "callback"])
                if sess is not None:
                    r = callback(client, pfx, sess[0], sess[1])
                    if not isinstance(r, Exception) and r.status_code == 302:
                        loc = r.headers.get("location", "")
                        if loc.startswith(u + sep + "token="):
                            obs.append({"case": c, "obs": {"via": "callback", "accepted": True, "loc": toks + suffix}, "_u": u,
                                        "_kind": cj["exp"]["kind"], "_loc": loc})
                        elif loc.startswith("/?_vgi_return_to="):      # return_to refused: back to the original page
                            obs.append({"case": c, "obs": {"via": "callback", "accepted": False, "loc": []}, "_u": u,
                                        "_kind": cj["exp"]["kind"]})
                        else:
                            unjudged["n"] += 1
            else:
                w = spell(toks, 0)
                path, _, query = w.partition("?")
                if any(ch in query for ch in "# \\") or any(ord(ch) < 0x21 for ch in query):
                    continue        # not a query string a client can put on a request line
                client, pfx = clients[c["cfg"]], prefix_of[c["cfg"]]
                sess = login(client, quote(path, safe="/"), query)
                ctx.case(["orig", c["cfg"], w, "callback"])
                if sess is None:
                    continue
                r = callback(client, pfx, sess[0], sess[1])
                if isinstance(r, Exception) or r.status_code != 302:
                    continue
                loc = r.headers.get("location", "")
                seen = path + ("?" + query if query else "")       # what the server reconstructs (a bare "?" is dropped)
                if loc == w or loc == seen:
                    ltok = toks if loc == w else (toks[:-1] if toks and toks[-1] == "?" else None)
                    if ltok is None:
                        unjudged["n"] += 1
                        continue
                    obs.append({"case": c, "obs": {"via": "callback", "accepted": True, "loc": ltok}, "_u": w,
                                "_kind": cj["exp"]["kind"], "_loc": loc})
                elif loc == (pfx or "/"):
                    obs.append({"case": c, "obs": {"via": "callback", "accepted": True, "loc": fallback_tok[c["cfg"]]}, "_u": w,
                                "_kind": cj["exp"]["kind"], "_loc": loc})
                else:
                    unjudged["n"] += 1
        ctx.extra["e2e_locations_not_abstractable"] = unjudged["n"]

        # -------------------------------------------------------- 4b. every allowlist CONFIGURATION, through real middleware
        # make_wsgi_app never passes allowed_return_origins, so the middleware and the callback are wired by hand, once per
        # configuration, exactly as the factory orders them (authentication gate first, PKCE middleware second)
        import falcon

        class _Gate:
            def process_request(self, req, resp):
                if req.path.startswith("/_oauth/"):
                    return
                tok = req.cookies.get(pk._AUTH_COOKIE_NAME) or (req.get_header("Authorization") or "").removeprefix("Bearer ")
                if tok != world.token:
                    raise falcon.HTTPUnauthorized(description="missing or invalid credential")

        class _Landing:
            def on_get(self, req, resp):
                resp.text = "ok"

        def wire(allowed):
            key = pk._derive_session_key(b"k" * 32)
            disc = lambda: ("https://idp.test/authorize", "https://idp.test/token")  # noqa: E731
            kw = {} if allowed is None else {"allowed_return_origins": allowed}
            mw = pk._OAuthPkceMiddleware(session_key=key, oidc_discovery=disc, client_id="client-1", prefix="", secure_cookie=False,
                                         redirect_uri="http://svc.test:8000/_oauth/callback", **kw)
            app = falcon.App(middleware=[_Gate(), mw])
            app.add_route("/_oauth/callback", pk._OAuthCallbackResource(
                session_key=key, oidc_discovery=disc, client_id="client-1", client_secret="client-secret-9f", use_id_token=False,
                prefix="", secure_cookie=False, redirect_uri="http://svc.test:8000/_oauth/callback"))
            app.add_route("/", _Landing())
            return falcon.testing.TestClient(app)

        cfg_clients = {k: [wire(v)] for k, v in allow_cfg.items()}
        cfg_clients["default"].append(clients["root"])           # ... and the factory-built app, which is the "default" configuration
        targets = enumerate_families(ctx, "data", "Url", ["RtTargets(0)"], constants=consts, name="Url:config-targets")
        for cj in targets:
            c = cj["case"]
            toks = c["s"]
            u = spell(toks, 0)
            sep = "#" if "#" not in u else "&"
            suffix = ["#", "x"] if "#" not in u else ["x"]
            for client in cfg_clients[c["cfg"]]:
                r = get(client, "/", "_vgi_return_to=" + quote(u, safe=""), {**html, "Cookie": f"{pk._AUTH_COOKIE_NAME}={world.token}"})
                ctx.case(["rt", c["cfg"], u, "fastpath", id(client)])
                if not isinstance(r, Exception):
                    loc = r.headers.get("location") if r.status_code == 302 else None
                    if loc is None:
                        obs.append({"case": c, "obs": {"via": "fastpath", "accepted": False, "loc": []}, "_u": u, "_kind": cj["exp"]["kind"]})
                    elif loc.startswith(u + sep + "token="):
                        obs.append({"case": c, "obs": {"via": "fastpath", "accepted": True, "loc": toks + suffix}, "_u": u,
                                    "_kind": cj["exp"]["kind"], "_loc": loc})
                    else:
                        unjudged["n"] += 1
                sess = login(client, "/", "_vgi_return_to=" + quote(u, safe=""))
                ctx.case(["rt", c["cfg"], u, "callback", id(client)])
                if sess is None:
                    continue
                r = callback(client, "", sess[0], sess[1])
                if isinstance(r, Exception) or r.status_code != 302:
                    continue
                loc = r.headers.get("location", "")
                if loc.startswith(u + sep + "token="):
                    obs.append({"case": c, "obs": {"via": "callback", "accepted": True, "loc": toks + suffix}, "_u": u,
                                "_kind": cj["exp"]["kind"], "_loc": loc})
                elif loc.startswith("/?_vgi_return_to="):
                    obs.append({"case": c, "obs": {"via": "callback", "accepted": False, "loc": []}, "_u": u, "_kind": cj["exp"]["kind"]})
                else:
                    unjudged["n"] += 1
        ctx.extra["e2e_locations_not_abstractable"] = unjudged["n"]

        # -------------------------------------------------------- 5. TLC judges every observation
        for o in [x for x in obs if x["obs"]["accepted"]][:: max(1, len(obs) // 400)][:3] + obs[:: max(1, len(obs) // 3)][:3]:
            ctx.sample({"abstract": o["case"], "concrete": o["_u"], "reference_kind_of_input": o["_kind"], "observed": o["obs"],
                        "location": o.get("_loc")})
        bad = table.judge(ctx, "data", "Url", [{"case": o["case"], "obs": o["obs"]} for o in obs], constants=consts,
                          chunk=80000)
        classes: dict[str, int] = {}
        for idx, clauses in bad:
            o = obs[idx]
            c = o["case"]
            for cl in clauses:
                k = klass(c["role"], o["obs"]["loc"])
                key = f"{cl} role={c['role']} cfg={c['cfg']} via={o['obs']['via']} class={k}"
                classes[key] = classes.get(key, 0) + 1
                ctx.violation(cl, {"role": c["role"], "cfg": c["cfg"], "via": o["obs"]["via"], "class": k},
                              {"abstract": c["s"], "concrete_input": o["_u"], "location": o.get("_loc", o["_u"]),
                               "observed": o["obs"]})
        ctx.extra["failed_clause_classes"] = classes

        # -------------------------------------------------------- 6. cookie half
        _cookie_half(ctx, pk, world, clients, login, callback)
    finally:
        world.uninstall()


def _cookie_half(ctx: Ctx, pk, world: _World, clients, login, callback) -> None:
    quick = ctx.quick
    rng = ctx.rng
    ccases = table.enumerate_cases(ctx, "data", "Url", cases="CookieCases", expected="CookieExpected",
                                   invariants=["CookieSane"], name="Url:cookie-table",
                                   constants={"FlatAlphabet": S(["/"]), "FlatLen": 0, "TailAlphabet": S(["/"]), "TailLen": 0,
                                              "PrefixSchemes": S(["H"]), "PrefixSlashes": S(["/"]), "LeadLen": 0, "HostLen": 0, "BaseScheme": "H"})
    max_age = int(getattr(pk, "_SESSION_MAX_AGE", 600))
    ages = {"fresh": [0], "mid": [1, max_age // 2], "edge_in": [max_age - 1], "edge": [max_age], "edge_out": [max_age + 1],
            "old": [max_age * 6, 86400 * 30], "future": [-1, -max_age, -86400]}
    client, pfx = clients["vgi"], "/vgi"
    session_key = pk._derive_session_key(b"k" * 32)
    obs: list[dict] = []
    sanity_fail = 0

    def mint(flow):
        world.now = 1_900_000_000
        q = "" if flow == "same_origin" else "_vgi_return_to=" + quote("http://localhost:3000/cb", safe="")
        s = login(client, "/vgi/describe", q)
        if s is None:
            raise RuntimeError("harness: could not obtain a session cookie from the real flow")
        return s

    def mutations(mut, cookie, state, flow, full: bool):
        """-> [(label, cookie value or None)]"""
        raw = base64.urlsafe_b64decode(cookie)
        payload, mac = raw[:-32], raw[-32:]
        enc = lambda b: base64.urlsafe_b64encode(b).decode()  # noqa: E731
        if mut == "none":
            return [("as-minted", cookie)]
        if mut in ("payload_byte", "mac_byte"):
            region = range(len(payload)) if mut == "payload_byte" else range(len(payload), len(raw))
            pos = list(region) if full else rng.sample(list(region), 3)
            masks = [0x01] if (quick or not full) else [0x01, 0x80, 0xFF]
            return [(f"{mut}@{p}^{m:02x}", enc(raw[:p] + bytes([raw[p] ^ m]) + raw[p + 1:])) for p in pos for m in masks]
        if mut == "truncated":
            cuts = [len(raw) - 1, len(raw) - 32, len(raw) - 33, 49, 48, 9, 1]
            return [(f"cut@{n}", enc(raw[:n])) for n in (cuts if full else cuts[:2])]
        if mut == "extended":
            return [("append-nul", enc(raw + b"\x00")), ("payload+mac+mac", enc(raw + mac)),
                    ("grow-before-mac", enc(payload + b"x" + mac))][: 3 if full else 1]
        if mut in ("wrong_key", "stream_key"):
            cv, st, ou, rt = pk._unpack_oauth_cookie(cookie, session_key)
            key = b"another-key-entirely-0123456789ab" if mut == "wrong_key" else b"k" * 32
            out = [(mut, pk._pack_oauth_cookie(cv, st, ou, key, created_at=world.now, return_to=rt))]
            if full:
                out.append((mut + "+evil-return", pk._pack_oauth_cookie(cv, st, "/vgi", key, created_at=world.now,
                                                                         return_to="https://evil.com/cb")))
            return out
        if mut == "garbage":
            return [("AAAA", "AAAA"), ("not-b64", "not-base64!!"), ("zeros", enc(b"\x00" * 120)), ("empty", "")][: 4 if full else 2]
        if mut == "absent":
            return [("no-cookie", None)]
        if mut == "reencoded":
            return [("junk-char", cookie[:10] + "*" + cookie[10:]), ("no-padding", cookie.rstrip("="))]
        raise KeyError(mut)

    def state_of(kind, st):
        return {"match": st, "differs": st[:-1] + ("A" if st[-1] != "A" else "B"), "prefix": st[:-1], "extended": st + "x",
                "case": st.swapcase() if st.swapcase() != st else st + "Z", "absent": None}[kind]

    for cj in ccases:
        c = cj["case"]
        full = c["age"] == "fresh" and c["st"] == "match"
        cookie, st = mint(c["flow"])
        t0 = world.now
        for label, cval in mutations(c["mut"], cookie, st, c["flow"], full):
            for age in (ages[c["age"]] if full or not quick else ages[c["age"]][:1]):
                world.now = t0 + age
                r = callback(client, pfx, cval, state_of(c["st"], st))
                world.now = t0
                if isinstance(r, Exception):
                    o = {"status": 500, "exchanged": bool(world.exchanges), "delivered": False}
                else:
                    auth_ck = r.cookies.get(pk._AUTH_COOKIE_NAME)
                    loc = r.headers.get("location", "") or ""
                    o = {"status": r.status_code, "exchanged": bool(world.exchanges),
                         "delivered": bool((auth_ck is not None and auth_ck.value) or "token=" in loc)}
                ctx.case(["cookie", c["mut"], label, age, c["st"], c["flow"]])
                obs.append({"case": c, "obs": o, "_l": label, "_age": age})
                if cj["exp"]["must"] and not (o["exchanged"] and o["delivered"]):
                    sanity_fail += 1
    if sanity_fail:
        ctx.drift.append({"what": "a valid, fresh, state-matching session cookie did not complete the callback "
                                  "(not a clause of the statement; harness sanity)", "count": sanity_fail})
    for o in obs[:: max(1, len(obs) // 2)][:2]:
        ctx.sample({"cookie_case": o["case"], "mutation": o["_l"], "age_s": o["_age"], "observed": o["obs"]})
    bad = table.judge(ctx, "data", "Url", [{"case": o["case"], "obs": o["obs"]} for o in obs], conforms="CookieConforms",
                      constants={"FlatAlphabet": S(["/"]), "FlatLen": 0, "TailAlphabet": S(["/"]), "TailLen": 0,
                                 "PrefixSchemes": S(["H"]), "PrefixSlashes": S(["/"]), "LeadLen": 0, "HostLen": 0, "BaseScheme": "H"})
    for idx, clauses in bad:
        o = obs[idx]
        for cl in clauses:
            ctx.violation(cl, {"role": "cookie", **o["case"]}, {"mutation": o["_l"], "age_s": o["_age"], "observed": o["obs"]})
    ctx.extra["cookie_executions"] = len(obs)
