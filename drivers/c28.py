"""C28 -- shared-memory allocations never overlap or overflow.

Specs: spec/data/ShmTable.tla (clauses on table values + Conforms for recorded traces),
spec/data/ShmAlloc.tla (the allocator as a state machine), spec/data/ShmAllocTrace.tla (batch trace
validation), spec/data/ShmWrite.tla (second clause: a written batch stays inside its allocation).
"""
import json
import struct
import warnings

import pyarrow as pa

from vf import graph, table, tlc
from vf.core import Ctx
from vf.tlc import MachineryError

META = {
    "engine": "data",
    "text": "ShmAlloc.tla models the header allocation table with actions Alloc(n)/FreeOff(off); TLC explores every "
            "operation sequence at small constants (all reachable tables) and checks sorted / disjoint / in-region / "
            "bounded plus the step clauses completeness / alloc-recorded / free-exact, for the first-fit policy and "
            "for the most general allocator. The dumped state graph is replayed transition by transition into a real "
            "ShmAllocator over a real SharedMemory segment (1 unit = 64 bytes, MAX_ALLOCS lowered to the model bound); "
            "the recorded real traces (return values + header table after every operation) are validated by TLC "
            "against ShmAllocTrace and judged clause by clause with ShmTable!Conforms. Random long traces on a 1 MiB "
            "region, the shipped 4094-entry limit, and a two-handle leg (ShmPeers.tla: creator + attached peer on one segment, every (table, staleness of the acting handle, op, handle) class) are validated the same way. Second clause: ShmWrite.tla "
            "enumerates schema-shape x rows x placement classes (single writes between live neighbours / canaries) and "
            "write sequences (2-3 consecutive writes on one segment whose schemas are equal up to metadata, or whose nested "
            "dictionary grows, in the orders up/down/up_down/down_up/same); TLC judges for every write bytes_written <= "
            "allocation, all earlier live batches intact, nothing outside the allocation touched.",
    "note": "Trusted: the independent header reader (documented layout), canary/snapshot comparison, the projection "
            "of byte offsets to data-region-relative offsets. The size *estimate* itself is Arrow arithmetic that the "
            "model does not reproduce; it is observed per shape class (sampled sizes inside each class).",
}

UNIT = 64


# --------------------------------------------------------------------------------------------- real side
def _shm():
    from vgi_rpc import shm as S
    return S


def header_table(buf, header_size: int) -> list[dict]:
    """Independent reader of the documented header layout (count at byte 16, (off,len) pairs from 24)."""
    (num,) = struct.unpack_from("<I", buf, 16)
    out = []
    for i in range(num):
        off, length = struct.unpack_from("<QQ", buf, 24 + 16 * i)
        out.append({"off": off - header_size, "len": length})
    return out


class RealAllocator:
    """A real ShmAllocator over a real SharedMemory segment with a data region of `dbytes` bytes."""

    def __init__(self, dbytes: int, max_allocs: int | None) -> None:
        S = _shm()
        self.S = S
        self.H = S.HEADER_SIZE
        self.dbytes = dbytes
        want = S.HEADER_SIZE + dbytes
        self.seg = S.ShmSegment.create(want)
        self.buf = self.seg.buf
        if self.seg.size != want:  # page rounding: re-initialise the header for exactly the wanted region
            S.ShmAllocator.initialize(self.buf, want)
            self.alloc = S.ShmAllocator(self.buf, want)
        else:
            self.alloc = self.seg.allocator
        self._saved = S.MAX_ALLOCS
        if max_allocs is not None:
            S.MAX_ALLOCS = max_allocs

    def table(self) -> list[dict]:
        return header_table(self.buf, self.H)

    def reset(self) -> None:
        """Harness set-up between traces (NOT the reset() under test): zero the entry count directly in the header and
        take a fresh ShmAllocator object, so that a broken reset() shows up as a clause, not as a harness failure."""
        struct.pack_into("<I", self.buf, 16, 0)
        self.alloc = self.S.ShmAllocator(self.buf, self.H + self.dbytes)

    def do_alloc(self, n: int) -> int:
        try:
            r = self.alloc.allocate(n)
        except Exception:  # noqa: BLE001
            return -2
        return -1 if r is None else r - self.H

    def do_free(self, off: int) -> int:
        try:
            self.alloc.free(self.H + off)
        except Exception:  # noqa: BLE001
            return -2
        return 0

    def do_reset(self) -> int:
        try:
            self.alloc.reset()
        except Exception:  # noqa: BLE001
            return -2
        return 0

    def close(self) -> None:
        self.S.MAX_ALLOCS = self._saved
        self.alloc = None
        self.buf = None
        try:
            self.seg.close()
        finally:
            self.seg.unlink()


class PeerAllocators(RealAllocator):
    """Two handles on ONE real segment: the creator's ShmSegment and a peer obtained with ShmSegment.attach (its own
    mapping, its own ShmAllocator object).  use(h) selects which handle performs the next operation.  The table is
    read back with the independent struct reader through *both mappings*; the handles' own methods are never used
    for observation (a read through a handle would refresh whatever that handle remembers and hide staleness)."""

    def __init__(self, dbytes: int, max_allocs: int | None) -> None:
        super().__init__(dbytes, max_allocs)
        S = self.S
        want = S.HEADER_SIZE + dbytes
        # the size passed to attach() is only a hint (the kernel's size is authoritative): vary it
        self.attach_hint = self.seg.size + [0, -1, 4096, -(self.seg.size - 1)][(dbytes // UNIT + (max_allocs or 0)) % 4]
        self.peer = S.ShmSegment.attach(self.seg.name, self.attach_hint, track=False)
        self.peer_buf = self.peer.buf
        peer_alloc = self.peer.allocator if self.peer.size == want and self.seg.size == want else S.ShmAllocator(self.peer_buf, want)
        self.handles = {1: self.alloc, 2: peer_alloc}
        self.mapping_mismatch = 0

    def use(self, h: int) -> None:
        self.alloc = self.handles[h]

    def reset(self) -> None:
        # both handles start from the empty table, each a fresh allocator object on its own mapping
        struct.pack_into("<I", self.buf, 16, 0)
        want = self.H + self.dbytes
        self.handles = {1: self.S.ShmAllocator(self.buf, want), 2: self.S.ShmAllocator(self.peer_buf, want)}
        self.alloc = self.handles[1]

    def table(self) -> list[dict]:
        t1 = header_table(self.buf, self.H)
        t2 = header_table(self.peer_buf, self.H)
        if t1 != t2:
            self.mapping_mismatch += 1
        return t1

    def close(self) -> None:
        self.handles = {}
        self.peer_buf = None
        try:
            self.peer.close()
        finally:
            super().close()


def _fn(f, h: int):
    return f[h - 1] if isinstance(f, list) else f[h] if h in f else f[str(h)]


def stale_class(state: dict, h: int) -> str:
    """ShmPeers!Staleness(h) evaluated on a dumped model state."""
    if _fn(state["vsame"], h):
        return "fresh"
    return "stale_same_count" if _fn(state["vlen"], h) == len(state["tbl"]) else "stale_other_count"


def _event(op: str, n: int, ret: int, tbl: list[dict], chk: bool = True) -> dict:
    return {"op": op, "n": n, "ret": ret, "chk": chk, "tbl": tbl}


def replay_path(ra, beh: list[dict], ctx: Ctx, drift: list) -> dict:
    """ra: RealAllocator, or PeerAllocators (then every step is performed by the handle the model names in `who`)."""
    peers = isinstance(ra, PeerAllocators)
    ra.reset()
    evs = []
    pre = []
    for step in beh:
        last = step["state"]["last"]
        h = step["state"]["who"] if peers else 0
        if peers:
            ra.use(h)
        if last["op"] == "alloc":
            n = last["n"] * UNIT
            ret = ra.do_alloc(n)
            want_ret = last["ret"] * UNIT if last["ret"] >= 0 else -1
        elif last["op"] == "reset":
            n, want_ret = 0, 0
            ret = ra.do_reset()
        else:
            n = last["n"] * UNIT
            ret = ra.do_free(n)
            want_ret = 0
        tbl = ra.table()
        ctx.case([pre, last["op"], n] + ([h, stale_class(step["pre"], h)] if peers else []))
        evs.append({**_event(last["op"], n, ret, tbl), **({"h": h} if peers else {})})
        model_tbl = [{"off": e["off"] * UNIT, "len": e["len"] * UNIT} for e in step["state"]["tbl"]]
        if ret != want_ret or tbl != model_tbl:
            # the real allocator left the model's path: the rest of the path is no longer a script of valid
            # operations for the real state (its frees may name offsets that are not live); judge up to here
            if len(drift) < 3:
                drift.append({"pre": pre, "op": last["op"], "n": n, "real": [ret, tbl], "model": [want_ret, model_tbl]})
            break
        pre = tbl
    return {"init": [], "evs": evs}


def validate_traces(ctx: Ctx, wd, traces: list[dict], dbytes: int, max_allocs: int, name: str, chunk: int = 4000):
    """TLC validates every trace against ShmAllocTrace (faithful, FirstFit).  -> list[bool] accepted."""
    accepted: list[bool] = []
    for off in range(0, len(traces), chunk):
        part = traces[off:off + chunk]
        f = wd / f"traces_{name}_{off}.json"
        f.write_text(json.dumps(part))
        cfg = tlc.render_cfg(init_next=("TraceInit", "TraceNext"),
                             constants={"D": dbytes, "MaxAllocs": max_allocs, "MaxReq": 2 * dbytes + 1, "FirstFit": True},
                             invariants=["Sorted", "Disjoint", "InRegion", "Bounded"],
                             properties=["CompletenessT", "AllocRecordedT", "FreeExact"], constraint=["Progress"],
                             postcondition="Accepted")
        r = tlc.run_tlc(wd, "ShmAllocTrace", cfg, workers=1, env={"TRACE_FILE": str(f)}, cfg_name=f"trace_{name}.cfg",
                        timeout=1500)
        ctx.add_tlc(f"ShmAllocTrace:{name}[{off}:{off + len(part)}]", r)
        f.unlink()
        if r.violated or r.error:
            # an invariant can only fail here on a table the *trace* supplied (init); the judge names the clause
            accepted += [False] * len(part)
            ctx.extra.setdefault("trace_runs_not_completed", []).append({"run": name, "violated": r.violated, "error": r.error})
            continue
        got = {j["i"]: j for j in r.json_lines if isinstance(j, dict) and "ok" in j}
        if len(got) != len(part):
            raise MachineryError(f"ShmAllocTrace {name}: {len(got)} verdicts for {len(part)} traces\n{r.out[-2000:]}")
        accepted += [bool(got[i + 1]["ok"]) for i in range(len(part))]
    return accepted


def judge_traces(ctx: Ctx, traces: list[dict], accepted: list[bool], dbytes: int, max_allocs: int):
    """ShmTable!Conforms names the clause a trace violates.  A trace ACCEPTed by ShmAllocTrace took only steps of
    the model, on which TLC checked every table invariant and step clause during that very run, so only the
    traces the faithful model REJECTed (or that could not be run) are judged clause by clause."""
    idx = [i for i, a in enumerate(accepted) if not a]
    if not idx:
        return []
    obs = [{"case": {"kind": "trace"}, "obs": {"init": traces[i]["init"], "evs": [e for e in traces[i]["evs"] if e["chk"]]}}
           for i in idx]
    bad = table.judge(ctx, "data", "ShmTable", obs, constants={"D": dbytes, "MaxAllocs": max_allocs}, chunk=4000)
    return [(idx[j], cl) for j, cl in bad]


def settle(ctx: Ctx, leg: str, traces: list[dict], accepted: list[bool], bad, sig_extra: dict) -> None:
    """violations = clauses TLC found false on a real trace; REJECT without a false clause = drift."""
    badset = {}
    for idx, clauses in bad:
        badset[idx] = clauses
        t = traces[idx]
        for cl in clauses:
            ctx.violation(cl, {"leg": leg, **sig_extra, "ops": [[e["op"], e["n"]] + ([e["h"]] if "h" in e else []) for e in t["evs"]][:12]},
                          {"trace": t if len(json.dumps(t)) < 20000 else "(large)"})
    n_acc = sum(1 for a in accepted if a)
    ctx.traces_validated += n_acc
    ctx.extra.setdefault("trace_validation", {})[leg] = {"traces": len(traces), "accepted_by_ShmAllocTrace": n_acc,
                                                         "rejected": len(traces) - n_acc,
                                                         "with_false_clause": len(badset)}
    for i, a in enumerate(accepted):
        if not a and i not in badset:
            ctx.drift.append({"leg": leg, "trace_index": i, "note": "real allocator left the first-fit model without "
                              "violating a clause", "ops": [[e["op"], e["n"], e["ret"]] for e in traces[i]["evs"]][:10]})


# --------------------------------------------------------------------------------------------- clause 1
def model_and_graph(ctx: Ctx, wd, consts: dict, name: str, sanity: bool, general: bool):
    invs = ["Sorted", "Disjoint", "InRegion", "Bounded"] + (["CellsAgree", "GapsAgree"] if sanity else [])
    props = ["Completeness", "AllocRecorded", "FreeExact", "CompletenessT", "AllocRecordedT"]
    cfg = tlc.render_cfg(constants={**consts, "FirstFit": True}, invariants=invs, properties=props)
    r, g = graph.dump_graph(wd, "ShmAlloc", cfg, name=f"g_{name}", workers=4)
    ctx.add_tlc(f"ShmAlloc:{name}:firstfit", r)
    tlc.require_ok(r, f"ShmAlloc ({name}, first fit) invariants/step clauses")
    if general:
        cfg2 = tlc.render_cfg(constants={**consts, "FirstFit": False}, invariants=invs, properties=props)
        r2 = tlc.run_tlc(wd, "ShmAlloc", cfg2, workers=8)
        ctx.add_tlc(f"ShmAlloc:{name}:any-fit", r2)
        tlc.require_ok(r2, f"ShmAlloc ({name}, any fit) invariants/step clauses")
    return g


def run_allocator(ctx: Ctx, wd) -> None:
    quick = ctx.quick
    drift: list = []
    # ---- leg A: every transition of the exhaustively explored model, replayed on the real allocator
    consts = {"D": 5, "MaxAllocs": 3, "MaxReq": 6} if quick else {"D": 8, "MaxAllocs": 4, "MaxReq": 9}
    g = model_and_graph(ctx, wd, consts, "cover", sanity=quick, general=not quick)
    if not quick:  # vocabulary sanity (cell-level definitions) on the smaller instance
        model_and_graph(ctx, wd, {"D": 6, "MaxAllocs": 3, "MaxReq": 7}, "sanity", sanity=True, general=True)
    paths = g.edge_cover_paths(ctx.rng, key=lambda s, lab, d: (json.dumps(s["tbl"]), d["last"]["op"], d["last"]["n"]))
    dbytes = consts["D"] * UNIT
    ra = RealAllocator(dbytes, consts["MaxAllocs"])
    try:
        traces = [replay_path(ra, g.path_to_behaviour(n, l), ctx, drift) for n, l in paths]
        covered = {(json.dumps(g.state(a)["tbl"]), g.state(b)["last"]["op"], g.state(b)["last"]["n"])
                   for n, l in paths for a, b in zip(n, n[1:])}
        all_classes = {(json.dumps(g.state(u)["tbl"]), g.state(v)["last"]["op"], g.state(v)["last"]["n"])
                       for u, es in g.out.items() for _, v in es}
        ctx.extra["model_transition_classes"] = {"total": len(all_classes), "replayed": len(covered & all_classes),
                                                 "graph_states": len(g.raw), "graph_edges": g.n_edges}
        if covered & all_classes != all_classes:
            raise MachineryError("edge cover incomplete")
        # ---- leg B (thorough): all operation sequences to a depth on a second, smaller instance
        traces_b: list[dict] = []
        if not quick:
            cb = {"D": 5, "MaxAllocs": 3, "MaxReq": 6}
            gb = model_and_graph(ctx, wd, cb, "paths", sanity=False, general=False)
            allp, complete = gb.all_paths(5, 60000)
            ctx.extra["all_paths"] = {"depth": 5, "paths": len(allp), "complete": complete}
            ra.close()
            ra = RealAllocator(cb["D"] * UNIT, cb["MaxAllocs"])
            traces_b = [replay_path(ra, gb.path_to_behaviour(n, l), ctx, drift) for n, l in allp]
    finally:
        ra.close()
    ctx.sample({"leg": "cover", "first_trace": traces[0]["evs"][:3]})
    acc = validate_traces(ctx, wd, traces, dbytes, consts["MaxAllocs"], "cover")
    bad = judge_traces(ctx, traces, acc, dbytes, consts["MaxAllocs"])
    settle(ctx, "cover", traces, acc, bad, {"D": dbytes, "max_allocs": consts["MaxAllocs"]})
    if traces_b:
        acc = validate_traces(ctx, wd, traces_b, 5 * UNIT, 3, "paths", chunk=20000)
        bad = judge_traces(ctx, traces_b, acc, 5 * UNIT, 3)
        settle(ctx, "paths", traces_b, acc, bad, {"D": 5 * UNIT, "max_allocs": 3})

    # ---- leg P: the same table operated through two handles (creator + attached peer), lockstep
    peer_leg(ctx, wd, drift)

    # ---- leg C: random long traces, arbitrary byte sizes, 1 MiB region
    dbig, mbig = (1 << 20) - 37, 12      # an odd region size: nothing in the table arithmetic may assume alignment
    ntr, nops = (24, 50) if quick else (160, 120)
    ra = RealAllocator(dbig, mbig)
    rtraces = []
    try:
        for _ in range(ntr):
            rtraces.append(random_trace(ra, ctx, nops, dbig))
    finally:
        ra.close()
    ctx.sample({"leg": "random", "first_trace": rtraces[0]["evs"][:2]})
    acc = validate_traces(ctx, wd, rtraces, dbig, mbig, "random")
    bad = judge_traces(ctx, rtraces, acc, dbig, mbig)
    settle(ctx, "random", rtraces, acc, bad, {"D": dbig, "max_allocs": mbig})

    # ---- leg D (thorough): the shipped 4094-entry limit
    if not quick:
        limit_leg(ctx, wd)
    if drift:
        ctx.extra["python_side_model_mismatch_examples"] = drift


def peer_leg(ctx: Ctx, wd, drift: list) -> None:
    consts = {"D": 4, "MaxAllocs": 2, "MaxReq": 5} if ctx.quick else {"D": 5, "MaxAllocs": 3, "MaxReq": 6}
    cfg = tlc.render_cfg(init_next=("PInit", "PNext"), constants={**consts, "FirstFit": True, "Handles": tlc.Raw("{1, 2}")},
                         invariants=["Sorted", "Disjoint", "InRegion", "Bounded", "ViewSound"],
                         properties=["Completeness", "AllocRecorded", "FreeExact", "CompletenessT", "AllocRecordedT"])
    r, g = graph.dump_graph(wd, "ShmPeers", cfg, name="g_peers", workers=4)
    ctx.add_tlc("ShmPeers:two-handles", r)
    tlc.require_ok(r, "ShmPeers (two handles) invariants/step clauses")

    def key(s, lab, d):
        h = d["who"]
        return (json.dumps(s["tbl"]), stale_class(s, h), d["last"]["op"], d["last"]["n"], h)

    paths = g.edge_cover_paths(ctx.rng, key=key)
    classes = {key(g.state(u), None, g.state(v)) for u, es in g.out.items() for _, v in es}
    covered = {key(g.state(a), None, g.state(b)) for n, _ in paths for a, b in zip(n, n[1:])}
    if classes - covered:
        raise MachineryError("two-handle edge cover incomplete")
    by_stale: dict = {}
    for c in classes:
        by_stale[c[1]] = by_stale.get(c[1], 0) + 1
    dbytes = consts["D"] * UNIT
    ra = PeerAllocators(dbytes, consts["MaxAllocs"])
    try:
        traces = []
        for nodes, labels in paths:
            beh = g.path_to_behaviour(nodes, labels)
            for st, src in zip(beh, nodes):
                st["pre"] = g.state(src)
            traces.append(replay_path(ra, beh, ctx, drift))
        mism = ra.mapping_mismatch
    finally:
        ra.close()
    ctx.extra["two_handle_leg"] = {"graph_states": len(g.raw), "graph_edges": g.n_edges, "classes (table, staleness of acting handle, op, arg, "
                                   "handle)": len(classes), "classes_by_staleness": by_stale, "paths": len(paths),
                                   "operations": sum(len(t["evs"]) for t in traces), "mappings_disagreed": mism}
    ctx.sample({"leg": "peers", "first_trace": traces[0]["evs"][:3]})
    acc = validate_traces(ctx, wd, traces, dbytes, consts["MaxAllocs"], "peers")
    bad = judge_traces(ctx, traces, acc, dbytes, consts["MaxAllocs"])
    settle(ctx, "peers", traces, acc, bad, {"D": dbytes, "max_allocs": consts["MaxAllocs"]})


def random_trace(ra: RealAllocator, ctx: Ctx, nops: int, dbytes: int) -> dict:
    rng = ctx.rng
    ra.reset()
    evs = []
    pre: list[dict] = []
    for _ in range(nops):
        live = [e["off"] for e in pre]
        if live and rng.random() < 0.04:
            ret = ra.do_reset()
            op, n = "reset", 0
        elif live and rng.random() < 0.42:
            off = rng.choice(live)
            ret = ra.do_free(off)
            op, n = "free", off
        else:
            # gaps of the current table, to aim at exact / off-by-one fits
            gaps, lo = [], 0
            for e in sorted(pre, key=lambda x: x["off"]):
                gaps.append(e["off"] - lo)
                lo = e["off"] + e["len"]
            gaps.append(dbytes - lo)
            gaps = [x for x in gaps if x > 0]
            k = rng.random()
            if gaps and k < 0.35:
                n = max(1, rng.choice(gaps) + rng.choice([-1, 0, 0, 1]))
            elif k < 0.6:
                n = rng.randint(1, 200)
            elif k < 0.9:
                n = rng.randint(1, dbytes // 6)
            else:
                n = rng.randint(dbytes // 3, dbytes + 10)
            ret = ra.do_alloc(n)
            op = "alloc"
        tbl = ra.table()
        ctx.case([pre, op, n])
        evs.append(_event(op, n, ret, tbl))
        pre = tbl
    return {"init": [], "evs": evs}


def limit_leg(ctx: Ctx, wd) -> None:
    S = _shm()
    real_max = S.MAX_ALLOCS
    dunits = real_max + 106
    ra = RealAllocator(dunits * UNIT, None)
    try:
        ra.reset()
        fill = []
        judged = None
        for k in range(real_max - 1):
            ret = ra.do_alloc(UNIT)
            fill.append(_event("alloc", UNIT, ret, [], chk=False))
            if ret < 0 and judged is None:  # a fill allocation failed: hand TLC the table and the failing step
                tblk = ra.table()
                judged = {"init": tblk, "evs": [_event("alloc", UNIT, ret, tblk)]}
                break
        tail = []
        t0 = ra.table()
        if judged is None:
            def ev(op, n, ret):
                e = _event(op, n, ret, ra.table())
                tail.append(e)
                ctx.case(["limit", len(tail), op, n])
            ev("alloc", UNIT, ra.do_alloc(UNIT))            # the 4094th: must succeed
            ev("alloc", UNIT, ra.do_alloc(UNIT))            # full: fails although space remains
            mid = (real_max // 2) * UNIT
            ev("free", mid, ra.do_free(mid))
            ev("alloc", 2 * UNIT, ra.do_alloc(2 * UNIT))    # only the tail fits two units
            ev("alloc", UNIT, ra.do_alloc(UNIT))            # full again: the one-unit hole stays unusable
            ev("free", 0, ra.do_free(0))
            ev("alloc", UNIT, ra.do_alloc(UNIT))            # first fit: offset 0, not the hole in the middle
            ev("alloc", UNIT, ra.do_alloc(UNIT))
            judged = {"init": t0, "evs": tail}
    finally:
        ra.close()
    ctx.extra["limit_leg"] = {"max_allocs": real_max, "fill_allocations": len(fill), "tail_events": len(tail)}
    # ShmAllocTrace starts from the real table reached by the fill phase (replaying 4093 fill steps inside TLC costs
    # ~20 min; the fill phase is covered by the table clauses on that table and by the first checked event)
    acc = validate_traces(ctx, wd, [judged], dunits * UNIT, real_max, "limit")
    bad = judge_traces(ctx, [judged], [False] if not acc[0] else [True], dunits * UNIT, real_max)
    settle(ctx, "limit", [judged], acc, bad, {"D": dunits * UNIT, "max_allocs": real_max})


# --------------------------------------------------------------------------------------------- clause 2
def _cols(n: int, name_len: int = 24):
    names = [f"c{i:05d}_" + "n" * max(0, name_len - 7) for i in range(n)]
    return names


def build_batch(shape: str, rows: str, rng) -> pa.RecordBatch:
    nrows = {"zero": 0, "one": 1, "many": rng.choice([257, 1000, 4096])}[rows]
    if rows == "many" and (shape in ("wide_64", "wide_100", "wide_1000", "dict_top_wide")):
        # keep rows x columns inside the segment (these used to come back "no fit" and were never written)
        nrows = {"wide_64": 257, "wide_100": 257, "wide_1000": 40, "dict_top_wide": 257}[shape]
    ints = pa.array(list(range(nrows)), pa.int64())

    def int_batch(names, metadata=None, field_md=None):
        fields = [pa.field(nm, pa.int64(), metadata=(field_md if (field_md and i == 0) else None)) for i, nm in enumerate(names)]
        return pa.RecordBatch.from_arrays([ints] * len(names), schema=pa.schema(fields, metadata=metadata))

    if shape == "narrow":
        return pa.RecordBatch.from_arrays([ints, pa.array([float(i) for i in range(nrows)], pa.float64())], names=["a", "b"])
    if shape == "strings":
        return pa.RecordBatch.from_arrays([pa.array(["s" * rng.randint(0, 40) + str(i) for i in range(nrows)], pa.string()),
                                           pa.array([b"\x00" * (i % 7) for i in range(nrows)], pa.binary())], names=["s", "b"])
    if shape == "nested_struct":
        st = pa.array([{"x": i, "y": [str(i)] * (i % 3)} for i in range(nrows)],
                      pa.struct([("x", pa.int64()), ("y", pa.list_(pa.string()))]))
        return pa.RecordBatch.from_arrays([st, ints], names=["st", "i"])
    if shape == "sliced":
        big = max(nrows, 1) * 3 + 11
        src = pa.RecordBatch.from_arrays([pa.array(list(range(big)), pa.int64()), pa.array([i % 3 == 0 for i in range(big)], pa.bool_()),
                                          pa.array([("s%d" % i) * (i % 5) if i % 7 else None for i in range(big)], pa.string()),
                                          pa.array([[i, i + 1] if i % 4 else None for i in range(big)], pa.list_(pa.int32()))],
                                         names=["i", "flag", "s", "l"])
        return src.slice(rng.choice([1, 3, 9]), nrows)      # offsets not byte-aligned for the bitmap columns
    if shape == "mixed_types":
        import datetime as _dt
        import decimal as _dec
        return pa.RecordBatch.from_arrays(
            [pa.array([i % 2 == 0 for i in range(nrows)], pa.bool_()), pa.array([bytes([i % 256]) * 5 for i in range(nrows)], pa.binary(5)),
             pa.array([_dec.Decimal(i) / 100 for i in range(nrows)], pa.decimal128(12, 2)),
             pa.array([_dt.datetime(2020, 1, 1) + _dt.timedelta(seconds=i) for i in range(nrows)], pa.timestamp("us", tz="UTC")),
             pa.array(["L" * (i % 9) for i in range(nrows)], pa.large_string()),
             pa.array([None if i % 2 else float(i) for i in range(nrows)], pa.float32())],
            names=["b", "fsb", "dec", "ts", "ls", "f"])
    if shape == "all_null":
        return pa.RecordBatch.from_arrays([pa.nulls(nrows, pa.int64()), pa.nulls(nrows, pa.string())], names=["a", "b"])
    if shape.startswith("wide_"):
        base = int(shape.split("_")[1])
        n = base if base == 10 else rng.randint(base, base + base // 4)
        return int_batch(_cols(n, rng.choice([24, 32, 48])))
    if shape == "long_names":
        return int_batch([("L%d_" % i) + "x" * rng.randint(1500, 2500) for i in range(5)])
    if shape.startswith("schema_meta_"):
        size = {"100": 100, "3k": rng.randint(2500, 3200), "5k": rng.randint(4500, 6000), "100k": rng.randint(90000, 120000)}[shape.split("_")[2]]
        return int_batch(["a", "b"], metadata={b"doc": b"m" * size})
    if shape == "field_meta_10k":
        return int_batch(["a", "b"], field_md={b"description": b"f" * rng.randint(8000, 12000)})
    words = ["w%04d" % i for i in range(max(1, min(nrows, 300)))]
    if shape == "dict_top":
        d = pa.array([words[i % len(words)] for i in range(nrows)], pa.string()).dictionary_encode()
        return pa.RecordBatch.from_arrays([d, ints], names=["d", "i"])
    if shape == "dict_top_wide":
        d = pa.array([words[i % len(words)] for i in range(nrows)], pa.string()).dictionary_encode()
        names = _cols(rng.randint(100, 130))
        return pa.RecordBatch.from_arrays([d] + [ints] * len(names), names=["d"] + names)
    if shape == "dict_nested_list":
        big = ["word-%06d" % i for i in range(rng.randint(1200, 3000))]
        t = pa.list_(pa.dictionary(pa.int16(), pa.string()))
        vals = [[big[(i * 7 + j) % len(big)] for j in range(len(big) if i == 0 else 2)] for i in range(nrows)]
        return pa.RecordBatch.from_arrays([pa.array(vals, t), ints], names=["ld", "i"])
    if shape == "dict_nested_struct":
        big = ["word-%06d" % i for i in range(rng.randint(1200, 3000))]
        t = pa.struct([("k", pa.dictionary(pa.int32(), pa.string())), ("v", pa.int64())])
        n2 = max(nrows, 0)
        vals = [{"k": big[i % len(big)], "v": i} for i in range(n2 if rows != "many" else len(big))]
        arr = pa.array(vals, t)
        return pa.RecordBatch.from_arrays([arr, pa.array(list(range(len(arr))), pa.int64())], names=["sd", "i"])
    if shape == "big_data":
        n = 0 if rows == "zero" else (1 if rows == "one" else rng.choice([60_000, 100_000]))
        return pa.RecordBatch.from_arrays([pa.array(list(range(n)), pa.int64())], names=["big"])
    raise MachineryError(f"unknown shape {shape}")


def run_writes(ctx: Ctx) -> None:
    S = _shm()
    H = S.HEADER_SIZE
    cases = table.enumerate_cases(ctx, "data", "ShmWrite", invariants=["WellFormed", "SeqSteps"])
    nvar = 1 if ctx.quick else 3
    seg_bytes = 3 * 512 * 1024
    seg = S.ShmSegment.create(H + seg_bytes)
    size = seg.size
    nb_a = pa.RecordBatch.from_arrays([pa.array([1, 2, 3], pa.int64()), pa.array(["left", "live", "batch"])], names=["x", "s"])
    nb_c = pa.RecordBatch.from_arrays([pa.array([9.5, 8.5], pa.float64()), pa.array([b"right", b"live"])], names=["y", "b"])
    obs = []
    try:
        for cj in cases:
            c = cj["case"]
            if c["kind"] == "seq":
                for v in range(nvar):
                    run_sequence(ctx, seg, size, c, cj["exp"], v, nb_a, obs)
                continue
            for v in range(nvar):
                batch = build_batch(c["shape"], c["rows"], ctx.rng)
                # what the implementation requests for this batch (dry run on the empty segment)
                seg.reset()
                struct.pack_into("<I", seg.buf, 16, 0)
                try:
                    dry = seg.allocate_and_write(batch)
                except Exception:  # noqa: BLE001
                    dry = "raised"
                t_dry = header_table(seg.buf, H)
                if not t_dry:
                    obs.append(_wobs(c, {"result": "nofit" if dry is None else "raised", "alloc_len": 0, "written": 0,
                                         "left_ok": True, "right_ok": True, "outside_ok": True}, batch, v, "dry"))
                    ctx.case([c, v, "dry"])
                    continue
                need = t_dry[0]["len"]
                seg.reset()
                buf = seg.buf
                struct.pack_into("<I", buf, 16, 0)       # set-up must not depend on the reset() under test
                buf[H:size] = b"\xa5" * (size - H)
                ra = seg.allocate_and_write(nb_a)
                left = right = None
                if ra is None:
                    raise MachineryError("neighbour batch does not fit")
                left = (ra[0], header_table(buf, H)[0]["len"])
                if c["place"] == "between":
                    hole = seg.allocator.allocate(need)
                    rc = seg.allocate_and_write(nb_c)
                    right = (rc[0], [e for e in header_table(buf, H) if e["off"] == rc[0] - H][0]["len"])
                    seg.allocator.free(hole)
                elif c["place"] == "tail":
                    used = left[0] + left[1]
                    filler = size - used - need
                    if filler > 0:
                        seg.allocator.allocate(filler)
                before = bytes(buf[H:size])
                try:
                    if c["via"] == "maybe_write_to_shm":
                        # the transport's entry point: returns a pointer batch whose metadata names the region
                        pb, pcm = S.maybe_write_to_shm(batch, None, seg)
                        if pcm is None or pcm.get(b"vgi_rpc.shm_offset") is None:
                            res = None
                        else:
                            res = (int(pcm.get(b"vgi_rpc.shm_offset")), int(pcm.get(b"vgi_rpc.shm_length")))
                    else:
                        res = seg.allocate_and_write(batch)
                    result = "nofit" if res is None else "written"
                except Exception as e:  # noqa: BLE001
                    res, result = None, "raised:" + type(e).__name__
                after = bytes(buf[H:size])
                tbl = header_table(buf, H)
                if res is not None:
                    ent = [e for e in tbl if e["off"] == res[0] - H]
                    alloc_len = ent[0]["len"] if ent else 0
                    lo, hi = res[0] - H, res[0] - H + alloc_len
                    written = res[1]
                else:
                    # a raised write may have left an allocation behind; "outside" is then everything that was
                    # not newly allocated by this call
                    new = [e for e in tbl if [e["off"] + H, e["len"]] not in ([list(left)] + ([list(right)] if right else []))
                           and e["len"] == need]
                    alloc_len, written = (new[0]["len"] if new else 0), 0
                    lo, hi = (new[0]["off"], new[0]["off"] + new[0]["len"]) if new else (0, 0)
                outside_ok = before[:lo] == after[:lo] and before[hi:] == after[hi:]

                def intact(reg, orig):
                    if reg is None:
                        return True
                    o, ln = reg[0] - H, reg[1]
                    if before[o:o + ln] != after[o:o + ln]:
                        return False
                    try:
                        got = S._deserialize_from_shm(pa.py_buffer(after[o:o + ln]), orig.schema)
                        return got.equals(orig)
                    except Exception:  # noqa: BLE001
                        return False
                o = {"result": result.split(":")[0], "alloc_len": alloc_len, "written": written,
                     "left_ok": intact(left, nb_a), "right_ok": intact(right, nb_c), "outside_ok": outside_ok}
                obs.append(_wobs(c, o, batch, v, result))
                ctx.case([c, v, batch.schema.to_string()[:200], batch.num_rows])
    finally:
        buf = None
        seg.close()
        seg.unlink()
    for o in obs[:: max(1, len(obs) // 3)][:3]:
        ctx.sample({"case": o["case"], "observed": o["obs"], "concrete": o["_c"]})
    bad = table.judge(ctx, "data", "ShmWrite", [{"case": o["case"], "obs": o["obs"]} for o in obs])
    over = {}
    for idx, clauses in bad:
        o = obs[idx]
        for cl in clauses:
            ctx.violation(cl, {"shape": ("seq:" if o["case"]["kind"] == "seq" else "") + o["case"]["shape"], "rows": o["case"]["rows"],
                               "place": o["case"]["place"], "path": o["_c"]["path"],
                               **({"pattern": o["case"]["pattern"], "step": o["_c"].get("step")} if o["case"]["kind"] == "seq" else {})},
                          {"observed": o["obs"], "concrete": o["_c"]})
        over[o["case"]["shape"]] = over.get(o["case"]["shape"], 0) + 1
    ctx.extra["write_cases"] = {"abstract": len(cases), "executed": len(obs),
                                "results": {k: sum(1 for o in obs if o["_c"]["result"].startswith(k)) for k in ("written", "nofit", "raised")},
                                "shapes_with_false_clause": over}


def build_seq_batch(family: str, rows: str, level: str, rng, step: int) -> pa.RecordBatch:
    """Batches of one family have the same fields; only the varying part (metadata size, dictionary size, rows)
    follows the level.  pa.Schema.equals (check_metadata=False) is TRUE between any two of them."""
    nrows = {"zero": 0, "one": 1, "many": rng.choice([50, 257, 1000])}[rows]
    big = level == "L"
    ids = pa.array([step * 100000 + i for i in range(nrows)], pa.int64())
    names = pa.array([f"row-{step}-{i}" for i in range(nrows)], pa.string())

    def md(prefix: bytes, lo: int, hi: int):
        return {b"doc": prefix * (rng.randint(lo, hi) if big else rng.randint(0, 8))} if (big or rng.random() < 0.5) else None

    if family in ("schema_meta", "field_meta", "both_meta"):
        fm = family in ("field_meta", "both_meta")
        sm = family in ("schema_meta", "both_meta")
        fields = [pa.field("id", pa.int64(), metadata=md(b"i", 2500, 9000) if fm else None),
                  pa.field("name", pa.string(), metadata=md(b"n", 2500, 9000) if fm else None)]
        return pa.RecordBatch.from_arrays([ids, names], schema=pa.schema(fields, metadata=md(b"s", 6000, 40000) if sm else None))
    if family == "nested_dict":
        words = ["word-%06d" % i for i in range(rng.randint(1500, 4000) if big else 3)]
        t = pa.list_(pa.dictionary(pa.int16(), pa.string()))
        n = max(nrows, 1)       # the dictionary travels with the batch, so at least one row carries it
        vals = [[words[(i + j) % len(words)] for j in range(len(words) if i == 0 else 2)] for i in range(n)]
        return pa.RecordBatch.from_arrays([pa.array(vals, t), pa.array([step * 1000 + i for i in range(n)], pa.int64())], names=["ld", "i"])
    if family == "top_dict":
        words = ["w%05d" % i for i in range(rng.randint(1500, 4000) if big else 3)]
        n = max(nrows, 1) if not big else max(nrows, len(words))
        d = pa.array([words[i % len(words)] for i in range(n)], pa.string()).dictionary_encode()
        return pa.RecordBatch.from_arrays([d, pa.array(list(range(n)), pa.int64())], names=["d", "i"])
    if family == "reuse":
        n = 40 if not big else 700
        return pa.RecordBatch.from_arrays([pa.array([step * 10000 + i for i in range(n + min(nrows, 50))], pa.int64())], names=["id"])
    if family == "rows_only":
        n = (nrows if not big else nrows * 20 + 500)
        return pa.RecordBatch.from_arrays([pa.array(list(range(n)), pa.int64()), pa.array([f"r{i}" for i in range(n)], pa.string())],
                                          names=["id", "name"])
    raise MachineryError(f"unknown sequence family {family}")


def run_sequence(ctx: Ctx, seg, size: int, c: dict, levels: list, v: int, nb_a: pa.RecordBatch, obs: list) -> None:
    """2-3 consecutive allocate_and_write calls on the same segment object (no reset in between); one observation per
    write.  'left' = every batch written earlier (the live neighbour first), checked by bytes and by decoding."""
    S = _shm()
    H = S.HEADER_SIZE
    seg.reset()
    buf = seg.buf
    struct.pack_into("<I", buf, 16, 0)
    buf[H:size] = b"\xa5" * (size - H)
    ra = seg.allocate_and_write(nb_a)
    if ra is None:
        raise MachineryError("neighbour batch does not fit")
    live = [(ra[0], header_table(buf, H)[0]["len"], nb_a)]     # (abs offset, allocation length, original batch)
    for step, level in enumerate(levels, start=1):
        if c["shape"] == "reuse" and step == len(levels) and len(live) >= 2:
            # reuse after free: the first batch of the chain is released; the hole is offered to the last write
            off0, _, _ = live.pop(1)
            seg.free(off0)
        batch = build_seq_batch(c["shape"], c["rows"], level, ctx.rng, step)
        before = bytes(buf[H:size])
        known = {(e["off"], e["len"]) for e in header_table(buf, H)}
        try:
            res = seg.allocate_and_write(batch)
            result = "nofit" if res is None else "written"
        except Exception as e:  # noqa: BLE001
            res, result = None, "raised:" + type(e).__name__
        after = bytes(buf[H:size])
        tbl = header_table(buf, H)
        new = [e for e in tbl if (e["off"], e["len"]) not in known]
        if res is not None:
            ent = [e for e in tbl if e["off"] == res[0] - H]
            alloc_len = ent[0]["len"] if ent else 0
            lo, hi, written = res[0] - H, res[0] - H + alloc_len, res[1]
        else:
            alloc_len, written = (new[0]["len"] if new else 0), 0
            lo, hi = (new[0]["off"], new[0]["off"] + new[0]["len"]) if new else (0, 0)
        outside_ok = before[:lo] == after[:lo] and before[hi:] == after[hi:]
        left_ok = True
        for off, ln, orig in live:
            o_, n_ = off - H, ln
            if before[o_:o_ + n_] != after[o_:o_ + n_]:
                left_ok = False
                break
            try:
                if not S._deserialize_from_shm(pa.py_buffer(after[o_:o_ + n_]), orig.schema).equals(orig):
                    left_ok = False
                    break
            except Exception:  # noqa: BLE001
                left_ok = False
                break
        o = {"result": result.split(":")[0], "alloc_len": alloc_len, "written": written, "left_ok": left_ok, "right_ok": True,
             "outside_ok": outside_ok}
        w = _wobs(c, o, batch, v, result)
        w["_c"].update({"step": step, "level": level, "levels": levels})
        obs.append(w)
        ctx.case([c, v, step, batch.schema.to_string(show_schema_metadata=False)[:120], batch.schema.serialize().size, batch.num_rows])
        if res is not None:
            # later steps check this batch over the extent it really occupies (its written bytes), so a batch that
            # overran and is then overwritten by the next allocation is seen as damaged
            live.append((res[0], max(alloc_len, written), batch))
    buf = None


def _wobs(c, o, batch, v, result):
    S = _shm()
    return {"case": c, "obs": o, "_c": {"variant": v, "columns": batch.num_columns, "rows": batch.num_rows,
                                        "result": result, "path": "dict" if S._has_dictionary_columns(batch.schema) else "ipc",
                                        "schema_bytes": batch.schema.serialize().size}}


def run(ctx: Ctx) -> None:
    warnings.filterwarnings("ignore")
    wd = ctx.wd.stage("data")
    ctx.rule = ("clause 1: one case per real allocate()/free() call, keyed by (header table before, operation, argument); "
                "non-trivial = distinct keys. Every transition class (table, op, arg) of the exhaustively explored model "
                "is replayed. clause 2: one case per allocate_and_write of a generated batch (shape class x rows x "
                "placement x variant)")
    ctx.exhaustive = True
    ctx.assume("1 model unit = 64 bytes in the replay legs; random leg uses arbitrary byte sizes on a 1 MiB region",
               "MAX_ALLOCS is lowered through the module namespace (vgi_rpc.shm.MAX_ALLOCS) for the small-model legs; "
               "the shipped value 4094 is exercised in the thorough tier",
               "frees are of live offsets only (the statement quantifies over frees of allocated offsets)",
               "the write-size estimate is observed, not modelled: shape classes are sampled with seeded sizes")
    run_allocator(ctx, wd)
    run_writes(ctx)
