"""State graphs dumped by TLC (-dump dot,actionlabels): loading, tours, behaviour sampling."""
from __future__ import annotations

import random
import re
from collections import deque
from pathlib import Path

from .tlaval import parse_state
from .tlc import MachineryError, TlcResult, run_tlc

_NODE = re.compile(r'^(-?\d+) \[label="(.*?)"(?:,style = filled)?(?:,tooltip=".*")?\];?$')
_EDGE = re.compile(r'^(-?\d+) -> (-?\d+) \[label="(.*?)",color')


class Graph:
    def __init__(self) -> None:
        self.raw: dict[str, str] = {}
        self.init: list[str] = []
        self.out: dict[str, list[tuple[str, str]]] = {}
        self._parsed: dict[str, dict] = {}

    def state(self, n: str) -> dict:
        s = self._parsed.get(n)
        if s is None:
            s = parse_state(self.raw[n].replace("\\n", "\n").replace('\\"', '"').replace("\\\\", "\\"))
            self._parsed[n] = s
        return s

    @property
    def n_edges(self) -> int:
        return sum(len(v) for v in self.out.values())

    # ---- behaviours -------------------------------------------------------------
    def path_to_behaviour(self, nodes: list[str], labels: list[str]) -> list[dict]:
        """[{action, args, state}] (state = full variable valuation after the action)."""
        out = []
        for n, lab in zip(nodes[1:], labels):
            m = re.match(r"(\w+)(?:\((.*)\))?$", lab)
            act = m.group(1) if m else lab
            args = [a.strip().strip('"') for a in m.group(2).split(",")] if m and m.group(2) else []
            out.append({"action": act, "args": args, "state": self.state(n)})
        return out

    def edge_cover_paths(self, rng: random.Random, max_paths: int = 10**9, key=None, max_len: int = 10**6):
        """Paths from an initial state that together cover every edge *class*.

        key(src_state, label, dst_state) -> hashable class (default: the edge itself).  Greedy: BFS tree to
        each uncovered edge, then extend the path by a random walk that prefers uncovered classes until a
        terminal state / max_len.
        """
        parent: dict[str, tuple[str, str] | None] = {}
        dq = deque()
        for i in self.init:
            parent[i] = None
            dq.append(i)
        while dq:
            u = dq.popleft()
            for lab, v in self.out.get(u, []):
                if v not in parent:
                    parent[v] = (u, lab)
                    dq.append(v)

        def prefix(n: str):
            nodes, labs = [n], []
            while parent[nodes[0]] is not None:
                u, lab = parent[nodes[0]]
                nodes.insert(0, u)
                labs.insert(0, lab)
            return nodes, labs

        def cls(u, lab, v):
            return (u, lab, v) if key is None else key(self.state(u), lab, self.state(v))

        uncovered: dict = {}
        order = list(self.out.items())
        for u, es in order:
            if u not in parent:
                continue
            for lab, v in es:
                uncovered.setdefault(cls(u, lab, v), (u, lab, v))
        paths = []
        while uncovered and len(paths) < max_paths:
            c, (u, lab, v) = next(iter(uncovered.items()))
            nodes, labs = prefix(u)
            # mark prefix edges
            for a, l, b in zip(nodes, labs, nodes[1:]):
                uncovered.pop(cls(a, l, b), None)
            nodes.append(v)
            labs.append(lab)
            uncovered.pop(c, None)
            # extend
            cur = v
            while len(labs) < max_len:
                es = self.out.get(cur, [])
                es = [(l, w) for l, w in es if w != cur]
                if not es:
                    break
                fresh = [(l, w) for l, w in es if cls(cur, l, w) in uncovered]
                l, w = rng.choice(fresh) if fresh else rng.choice(es)
                if not fresh and rng.random() < 0.35:
                    break
                uncovered.pop(cls(cur, l, w), None)
                nodes.append(w)
                labs.append(l)
                cur = w
            paths.append((nodes, labs))
        return paths

    def random_paths(self, rng: random.Random, n: int, max_len: int):
        res = []
        for _ in range(n):
            cur = rng.choice(self.init)
            nodes, labs = [cur], []
            while len(labs) < max_len:
                es = [(l, w) for l, w in self.out.get(cur, []) if w != cur]
                if not es:
                    break
                l, w = rng.choice(es)
                nodes.append(w)
                labs.append(l)
                cur = w
            res.append((nodes, labs))
        return res

    def all_paths(self, max_len: int, limit: int):
        """All maximal paths (DFS) up to max_len, at most `limit` of them; returns (paths, complete?)."""
        res = []
        complete = True
        stack = [([i], []) for i in self.init]
        while stack:
            nodes, labs = stack.pop()
            es = [(l, w) for l, w in self.out.get(nodes[-1], []) if w != nodes[-1]]
            if not es or len(labs) >= max_len:
                res.append((nodes, labs))
                if len(res) >= limit:
                    complete = not stack
                    break
                continue
            for l, w in es:
                stack.append((nodes + [w], labs + [l]))
        return res, complete


def load_dot(path: Path) -> Graph:
    g = Graph()
    with open(path) as f:
        for line in f:
            line = line.rstrip("\n")
            m = _EDGE.match(line)
            if m:
                g.out.setdefault(m.group(1), []).append((m.group(3).replace('\\"', '"'), m.group(2)))
                continue
            if line.endswith("style = filled]") or ",style = filled]" in line:
                m = re.match(r'^(-?\d+) \[label="(.*)",style = filled\]$', line)
                if m:
                    g.raw[m.group(1)] = m.group(2)
                    g.init.append(m.group(1))
                    continue
            m = re.match(r'^(-?\d+) \[label="(.*?)",tooltip="', line)
            if m:
                g.raw.setdefault(m.group(1), m.group(2))
    if not g.init:
        raise MachineryError(f"no initial state in {path}")
    return g


def dump_graph(workdir: Path, module: str, cfg_text: str, *, timeout: int = 900, name: str = "graph",
               workers: int | str = "auto") -> tuple[TlcResult, Graph]:
    dot = workdir / f"{name}.dot"
    r = run_tlc(workdir, module, cfg_text, workers=workers, timeout=timeout,
                extra=["-dump", "dot,actionlabels", str(dot.with_suffix(""))])
    if not dot.exists():
        raise MachineryError(f"TLC produced no graph for {module}:\n{r.out[-2000:]}")
    g = load_dot(dot)
    dot.unlink()
    return r, g
