------------------------------------ MODULE TokenForge ------------------------------------
(* C12 -- stream state tokens are unforgeable, identity-bound and opaque: the decision table for ONE
   continuation / cancel request whose cursor or call token has been manipulated.

     which   which token was manipulated              "cursor" | "call" | "both" (a complete, mutually consistent
             cursor + call pair that is not the caller's: minted for another identity or under another key)
     mut     how                                      "none" | "flip" | "trunc" | "extend" | "reencode" (different
             base64 text, same bytes) | "garbage" | "swapkind" (the other kind of token in this slot) |
             "swapstream" (same kind, same identity, another stream) | "foreignkey" | "crossident" | "absent" |
             "stale" (call token only: genuine and untouched, but minted more than TTL ago while the cursor
             presented with it is fresh -- a stream kept alive across the TTL; `age` is then the cursor's age)
     age     clock relative to the TTL                "lt" | "eq" | "gt"      (age > TTL is expired)
     cache   state of the worker's call-state cache   "warm" | "cold"
     op      "continue" | "cancel"
     ttl     "on" (tokens expire after the TTL) | "off" (deployment with token_ttl = 0: expiry disabled, every other
             rule unchanged -- a reduced grid of ages and manipulations is enough there)

   Served(c) -- the only rows that may be served: nothing manipulated and not expired.                       *)
EXTENDS Naturals, FiniteSets
Whichs == {"cursor", "call", "both"}
Muts == {"none", "flip", "trunc", "extend", "reencode", "garbage", "swapkind", "swapstream", "foreignkey",
         "crossident", "absent", "stale"}
Ages == {"lt", "eq", "gt"}
Cases == {c \in [which : Whichs, mut : Muts, age : Ages, cache : {"warm", "cold"}, op : {"continue", "cancel"}, ttl : {"on", "off"}] :
             /\ c.mut = "stale" => (c.which = "call" /\ c.age = "lt" /\ c.ttl = "on")
             /\ c.which = "both" => c.mut \in {"crossident", "foreignkey"}
             /\ c.ttl = "off" => c.age \in {"lt", "gt"}}
Served(c) == c.mut = "none" /\ (c.age # "gt" \/ c.ttl = "off")
Expected(c) == [served |-> Served(c)]
\* table sanity
OnlyUntouchedServed(c) == Served(c) => c.mut = "none"
ExpiredNeverServed(c) == (c.ttl = "on" /\ (c.age = "gt" \/ c.mut = "stale")) => ~Served(c)      \* EITHER token beyond the TTL
CacheIrrelevant(c) == Served(c) = Served([c EXCEPT !.cache = IF c.cache = "warm" THEN "cold" ELSE "warm"])

(* observation o = [served, status, hooks (number of user hooks that ran: process / rehydrate / bind_call_state /
   on_cancel), uniform (rejection body identical, modulo request id, to the reference rejection), leak (the state
   plaintext marker is visible in a token)]                                                                  *)
Conforms(c, o) ==
       {"ServedOnlyGenuine"   : x \in {1} \cap (IF o.served => Served(c) THEN {} ELSE {1})}
  \cup {"GenuineServed"       : x \in {1} \cap (IF Served(c) => o.served THEN {} ELSE {1})}
  \cup {"Rejected400"         : x \in {1} \cap (IF (~Served(c) /\ ~o.served) => o.status = 400 THEN {} ELSE {1})}
  \cup {"NoHookOnReject"      : x \in {1} \cap (IF ~o.served => o.hooks = 0 THEN {} ELSE {1})}
  \cup {"UniformRejection"    : x \in {1} \cap (IF (~o.served /\ o.status = 400) => o.uniform THEN {} ELSE {1})}
  \cup {"Opaque"              : x \in {1} \cap (IF ~o.leak THEN {} ELSE {1})}
=============================================================================================
