"""Helpers shared by the data-table drivers (C22, C43, C35).

enumerate_cases / judge below are vf.table's functions with one addition, a `workers` parameter: these table
models consist of initial states only, and TLC with `-workers auto` (16 threads) was measured 4x slower on them
than with 4 workers (contention while the initial states are generated and checked).  The generated wrapper
modules are vf.table's own templates."""
import json

from vf import table
from vf.tlc import MachineryError, render_cfg, require_ok, run_tlc, sany

WORKERS = 4


def enumerate_cases(ctx, engine: str, module: str, *, constants=None, invariants=(), timeout: int = 1500,
                    workers: int = WORKERS, cases: str = "Cases", expected: str = "Expected",
                    name: str | None = None) -> list[dict]:
    wd = ctx.wd.stage(engine)
    invs = "\n".join(f"Inv_{x} == {x}(c)" for x in invariants)
    (wd / f"{module}_Enum.tla").write_text(table.ENUM.format(m=module, cases=cases, expected=expected, invs=invs))
    sany(wd, f"{module}_Enum")
    cfg = render_cfg(init_next=("EnumInit", "EnumNext"), constants=constants,
                     invariants=[f"Inv_{x}" for x in invariants] + ["Emit"])
    r = run_tlc(wd, f"{module}_Enum", cfg, timeout=timeout, cfg_name=f"{module}_{name or 'enum'}.cfg", workers=workers)
    ctx.add_tlc(f"{module}:{name or 'enumerate'}", r)
    require_ok(r, f"{module} table enumeration / table invariants {list(invariants)}")
    if len(r.json_lines) != r.distinct:
        raise MachineryError(f"{module}: {r.distinct} cases but {len(r.json_lines)} emitted")
    return r.json_lines


def judge(ctx, engine: str, module: str, observations: list[dict], *, constants=None, timeout: int = 1500,
          chunk: int = 20000, workers: int = WORKERS) -> list[tuple[int, list[str]]]:
    wd = ctx.wd.stage(engine)
    (wd / f"{module}_Obs.tla").write_text(table.OBS.format(m=module, conforms="Conforms"))
    sany(wd, f"{module}_Obs")
    bad: list[tuple[int, list[str]]] = []
    for off in range(0, len(observations), chunk):
        part = observations[off:off + chunk]
        f = wd / f"obs_{module}_{off}.json"
        f.write_text(json.dumps(part))
        cfg = render_cfg(init_next=("ObsInit", "ObsNext"), constants=constants, invariants=["Judge"])
        r = run_tlc(wd, f"{module}_Obs", cfg, timeout=timeout, env={"OBS_FILE": str(f)}, cfg_name=f"{module}_obs.cfg",
                    workers=workers)
        ctx.add_tlc(f"{module}:judge[{off}:{off + len(part)}]", r)
        require_ok(r, f"{module} observation judging")
        if r.distinct != len(part):
            raise MachineryError(f"{module}: judged {r.distinct} of {len(part)} observations")
        ctx.traces_validated += len(part) - len(r.json_lines)
        for j in r.json_lines:
            bad.append((off + j["i"] - 1, list(j["bad"])))
        f.unlink()
    return bad


def judge_dedup(ctx, engine: str, module: str, records: list[dict], *, constants=None, chunk: int = 20000):
    """TLC judges every *distinct* (case, obs) pair once; the verdict is mapped back to every concrete
    execution that produced that pair.  records: [{"case", "obs", ...anything else (kept out of TLC)}].
    Returns [(record index, [clause names])]."""
    groups: dict[str, list[int]] = {}
    order: list[str] = []
    for i, r in enumerate(records):
        k = json.dumps([r["case"], r["obs"]], sort_keys=True)
        if k not in groups:
            groups[k] = []
            order.append(k)
        groups[k].append(i)
    uniq = []
    for k in order:
        c, o = json.loads(k)
        uniq.append({"case": c, "obs": o})
    bad = judge(ctx, engine, module, uniq, constants=constants, chunk=chunk)
    # judge() counted accepted *distinct* pairs; credit the concrete executions behind them as well
    bad_idx = {i for i, _ in bad}
    extra_ok = sum(len(groups[order[i]]) - 1 for i in range(len(order)) if i not in bad_idx)
    ctx.traces_validated += extra_ok
    out = []
    for ui, clauses in bad:
        for ri in groups[order[ui]]:
            out.append((ri, clauses))
    ctx.extra["distinct_case_obs_pairs_judged_by_tlc"] = ctx.extra.get("distinct_case_obs_pairs_judged_by_tlc", 0) + len(uniq)
    return out


def faithful_counterexample(ctx, engine: str, module: str, *, constants: dict, invariant: str, name: str):
    """Model-check the *faithful* variant of a table spec (a Dev_... switch on): TLC is expected to refute the
    named invariant; returns the offending case (TLC's own counterexample) or None if the invariant held.
    A refuted faithful model is not a verdict about the code -- the returned case is concretised and executed
    by the caller like any other case."""
    import re

    from vf.tlc import MachineryError, render_cfg, run_tlc, sany

    wd = ctx.wd.stage(engine)
    mod = f"{module}_Faithful"
    (wd / f"{mod}.tla").write_text(
        f"---- MODULE {mod} ----\nEXTENDS {module}, TLC\nVARIABLE c\nFInit == c \\in Cases\nFNext == UNCHANGED c\n"
        f"FInv == {invariant}(c)\n====\n")
    sany(wd, mod)
    cfg = render_cfg(init_next=("FInit", "FNext"), constants=constants, invariants=["FInv"])
    r = run_tlc(wd, mod, cfg, cfg_name=f"{mod}.cfg", workers=2)
    ctx.add_tlc(name, r)
    if r.ok:
        return None
    if r.violated != "FInv":
        raise MachineryError(f"{mod}: expected FInv to be refuted, got violated={r.violated} error={r.error}\n{r.out[-2000:]}")
    m = re.search(r"violated by the initial state:\s*\n(.*?)\n\s*\n", r.out, re.S)
    text = m.group(1) if m else (r.counterexample[0][1] if r.counterexample else r.out[-800:])
    text = re.sub(r"^\s*c = ", "", text.strip())
    return " ".join(text.split())[:1500]
