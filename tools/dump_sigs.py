#!/venv/bin/python
"""tools/dump_sigs.py <ID> [tier] -- run a check and print every (clause, signature) it raises, before known-findings matching (dev aid; run through ./check's environment: PYTHONPATH=$REPO:/verif:/verif/vf/shims)."""
import collections, importlib, json, sys
from vf import core
pid, tier = sys.argv[1], (sys.argv[2] if len(sys.argv) > 2 else "quick")
mod = importlib.import_module(f"drivers.{pid.lower()}")
orig = core.Ctx.finish
def finish(self):
    c = collections.Counter((v["clause"], json.dumps(v["sig"], sort_keys=True, default=str)) for v in self.violations)
    for (cl, sig), n in sorted(c.items()):
        print(f"SIG {n:5d} {cl} {sig}")
    self.wd.__exit__()
    return 0
core.Ctx.finish = finish
sys.exit(core.main_for(pid, mod.run, ["--tier", tier]))
