---------------------------------- MODULE StickyTrace ----------------------------------
(* Batch trace validation for Sticky: every recorded real execution must be a behaviour of Sticky!Spec.
   Trace file (IOEnv.TRACE_FILE): JSON array of traces; a trace = [kinds |-> [thread |-> kind], expires,
   ev |-> <<[e, t, label, nclose, dbegin, dend], ...>>].  One event per scheduler step (sched.step(t)) or Tick.
   Logged per step: the park label the real thread reached (must equal the label of pc'[t]), how many close
   hooks began, whether a dispatch began / ended.  Everything else is inferred by Sticky's own actions.
   Registers: 2*tid -> furthest event index matched; 2*tid+1 -> set of property clauses violated on the way. *)
EXTENDS Sticky, Json, IOUtils, Sequences, TLCExt
Traces == JsonDeserialize(IOEnv.TRACE_FILE)
VARIABLES tid, l
tvars == <<vars, tid, l>>

TThreads(i) == DOMAIN Traces[i].kinds
Label(p) == CASE p = "init" -> "start" [] p = "get" -> "acq:REG" [] p \in {"lock", "xlock", "hlock"} -> "acq:SES"
              [] p \in {"reval", "pop"} -> "acq:REG" [] p = "dispatch" -> "dispatch"
              [] p \in {"hhook", "xhook"} -> "hook" [] p = "done" -> "EXIT" [] OTHER -> "?"

TraceInit == /\ tid \in 1..Len(Traces) /\ l = 1 /\ InitWith(TThreads(tid))
Ev == Traces[tid].ev[l]
Consume == l <= Len(Traces[tid].ev) /\ l' = l + 1 /\ UNCHANGED tid
TraceStep == /\ Consume /\ Ev.e = "Step"
             /\ \E t \in Threads : /\ t = Ev.t /\ t \in TThreads(tid) /\ Step(t)
                                   /\ Label(pc'[t]) = Ev.label
                                   /\ closeCount' - closeCount = Ev.nclose
                                   /\ (t \in dispatching' /\ t \notin dispatching) = Ev.dbegin
                                   /\ (t \notin dispatching' /\ t \in dispatching) = Ev.dend
TraceTick == Consume /\ Ev.e = "Tick" /\ Tick
TraceNext == TraceStep \/ TraceTick
TraceSpec == TraceInit /\ [][TraceNext]_tvars

Bad == {c \in {"Mutex", "CloseAtMostOnce", "NoCloseDuringDispatch", "NoDispatchAfterClose"} :
          \/ (c = "Mutex" /\ ~Mutex) \/ (c = "CloseAtMostOnce" /\ ~CloseAtMostOnce)
          \/ (c = "NoCloseDuringDispatch" /\ ~NoCloseDuringDispatch)
          \/ (c = "NoDispatchAfterClose" /\ ~NoDispatchAfterClose)}
Track == /\ TLCSet(2 * tid, IF TLCGet(2 * tid) < l THEN l ELSE TLCGet(2 * tid))
         /\ TLCSet((2 * tid + 1), TLCGet((2 * tid + 1)) \cup Bad)
ASSUME \A i \in 1..Len(Traces) : TLCSet(2 * i, 0) /\ TLCSet((2 * i + 1), {})
Verdicts == \A i \in 1..Len(Traces) :
   PrintT("@@J@@" \o ToJson([tid |-> i, matched |-> TLCGet(2 * i) - 1, len |-> Len(Traces[i].ev), bad |-> TLCGet((2 * i + 1))]))
==========================================================================================
