"""Standalone reproduction of the C05 findings (no framework):  PYTHONPATH=/repo /venv/bin/python drivers/_wire2_repro.py
Each request is one well-framed Arrow IPC stream; the unchanged server lets an exception escape RpcServer.serve
(serve thread dead, no reply) or answers and then ends the connection; with the proposed fix each is answered with a
typed error stream (or served inline) and the follow-up echo call on the same connection is answered."""
import io, logging, threading, warnings
from typing import Protocol

import pyarrow as pa
from pyarrow import ipc

from vgi_rpc.rpc import RpcServer, make_pipe_pair
from vgi_rpc.shm import HEADER_SIZE, ShmSegment

warnings.filterwarnings("ignore")
logging.disable(logging.CRITICAL)


class Svc(Protocol):
    def echo(self, x: int) -> int: ...
    def blob(self, x: int) -> bytes: ...


class Impl:
    def echo(self, x: int) -> int:
        return x

    def blob(self, x: int) -> bytes:
        return b"z" * x


S = pa.schema([pa.field("x", pa.int64(), nullable=False)])


def request(rows: list[int], method: bytes = b"echo", **md: bytes) -> bytes:
    sink = io.BytesIO()
    meta = {b"vgi_rpc.method": method, b"vgi_rpc.request_version": b"1"}
    meta.update({k.replace("__", ".").encode(): v for k, v in md.items()})
    with ipc.new_stream(sink, S) as w:
        w.write_batch(pa.RecordBatch.from_pydict({"x": rows}, schema=S), custom_metadata=meta)
    return sink.getvalue()


def attempt(name: str, req: bytes) -> None:
    ct, st = make_pipe_pair()
    died = []

    def serve() -> None:
        try:
            RpcServer(Svc, Impl()).serve(st)
        except BaseException as e:  # noqa: BLE001
            died.append(f"{type(e).__name__}: {e}")
        finally:
            st.close()

    th = threading.Thread(target=serve, daemon=True)
    th.start()
    ct.writer.write(req + request([7]))          # the malformed request, then a well-formed call
    ct.writer.close()
    replies = []
    try:
        while True:
            rd = ipc.open_stream(ct.reader)
            b, cmd = rd.read_next_batch_with_custom_metadata()
            val = b.column(0)[0].as_py() if b.num_rows else -1
            shown = f"result={val}" if isinstance(val, int) else f"result=<{len(val)} bytes>"
            replies.append((cmd or {}).get(b"vgi_rpc.log_message", shown.encode()).decode()[:60])
            for _ in rd:
                pass
    except Exception:  # noqa: BLE001 - EOF
        pass
    th.join(5)
    print(f"{name:28s} escaped={died or None}  replies={replies}")


good = ShmSegment.create(HEADER_SIZE + 65536)
try:
    seg = {"vgi_rpc__shm_segment_name": good.name.encode(), "vgi_rpc__shm_segment_size": str(good.size).encode()}
    attempt("baseline", request([1]))
    attempt("segment does not exist", request([1], vgi_rpc__shm_segment_name=b"no_such_segment_xyz", vgi_rpc__shm_segment_size=b"70000"))
    attempt("segment size -1", request([1], vgi_rpc__shm_segment_name=good.name.encode(), vgi_rpc__shm_segment_size=b"-1"))
    attempt("pointer offset garbage", request([], vgi_rpc__shm_offset=b"xyz", vgi_rpc__shm_length=b"10", **seg))
    attempt("pointer without length", request([], vgi_rpc__shm_offset=b"65536", **seg))
    attempt("pointer out of range", request([], vgi_rpc__shm_offset=b"99999999", vgi_rpc__shm_length=b"10", **seg))
    attempt("traceparent not UTF-8", request([1], traceparent=b"\xff\xfe"))
    # still open at HEAD 4f2decc: the segment attaches, but its allocation table is garbage and the result is large
    # enough to be routed through it -> struct.error escapes while the response is written
    import struct
    struct.pack_into("<I", good.buf, 16, 0xFFFFFFFF)
    attempt("corrupt allocation table", request([300_000], method=b"blob", **seg))
finally:
    good.unlink()
    good.close()
