"""Real sticky-session stack under the deterministic scheduler (shared by C25/C26/C27 drivers).

A fresh WSGI app (make_wsgi_app(enable_sticky=True)) is built while `vgi_rpc.http.server._sticky.threading`
and `.time` are replaced by the scheduler's shims, so the registry lock, every per-session RLock and the
clock the registry reads are under harness control.  No source change.
"""
import warnings
from dataclasses import dataclass
from typing import Protocol

import falcon.testing
import pyarrow as pa

import vgi_rpc.http.server._sticky as S
from vf import world
from vf.sched import Scheduler
from vgi_rpc.http import make_wsgi_app
from vgi_rpc.rpc import CallContext, RpcServer

_REAL_THREADING = S.threading
_REAL_TIME = S.time

PC_LABEL = {"init": "start", "get": "acq:REG", "lock": "acq:SES", "xlock": "acq:SES", "hlock": "acq:SES",
            "reval": "acq:REG", "pop": "acq:REG", "dispatch": "dispatch", "hhook": "hook", "xhook": "hook",
            "done": "EXIT"}


class StickySvc(Protocol):
    def open_s(self) -> int: ...
    def use(self) -> int: ...
    def use_close(self) -> int: ...


class _DummyReaper:
    def stop(self) -> None:
        pass


class World:
    """One app + one open session + scheduler."""

    def __init__(self, ttl: float, key: bytes = b"k" * 32) -> None:
        warnings.filterwarnings("ignore")
        self.sched = Scheduler()
        S.threading = self.sched.threading_shim()
        S.time = self.sched.time_shim()
        w = self

        class State:
            def __init__(self) -> None:
                self.closed = 0

            def close(self) -> None:
                self.closed += 1
                w.sched.emit(e="CloseBegin")
                w.sched.yield_point("hook")
                w.sched.emit(e="CloseEnd")

        class Impl:
            def open_s(self, ctx: CallContext) -> int:
                ctx.open_session(State())
                return 1

            def use(self, ctx: CallContext) -> int:
                assert ctx.session is not None
                w.sched.emit(e="DispatchBegin")
                w.sched.yield_point("dispatch")
                w.sched.emit(e="DispatchEnd")
                return 2

            def use_close(self, ctx: CallContext) -> int:
                assert ctx.session is not None
                w.sched.emit(e="DispatchBegin")
                w.sched.yield_point("dispatch")
                ctx.close_session()
                w.sched.emit(e="DispatchEnd")
                return 3

        self.server = RpcServer(StickySvc, Impl())
        self.app = make_wsgi_app(self.server, token_key=key, enable_sticky=True, sticky_default_ttl=ttl)
        self.mw = None
        for group in getattr(self.app, "_middleware", ()):
            for bm in group:
                owner = getattr(bm, "__self__", None)
                if isinstance(owner, S._StickyMiddleware):
                    self.mw = owner
        assert self.mw is not None
        self.mw._reaper = _DummyReaper()  # the sweep is driven explicitly as a scheduled thread
        self.registry = self.mw._registry
        self.registry._lock.name = "REG"
        self.client = falcon.testing.TestClient(self.app)
        self.req = world.raw_request(b"x", pa.schema([]), {})
        self.token = None
        self.results: dict[str, dict] = {}

    def restore(self) -> None:
        S.threading = _REAL_THREADING
        S.time = _REAL_TIME

    # -------------------------------------------------------------- unscheduled helpers (main thread)
    def post(self, method: str, headers: dict | None = None):
        body = world.raw_request(method.encode(), pa.schema([]), {})
        h = {"Content-Type": world.ARROW_CT}
        h.update(headers or {})
        return self.client.simulate_post(f"/{method}", body=body, headers=h)

    def open_session(self) -> str:
        r = self.post("open_s", {"VGI-Session-Accept": "true"})
        assert r.status_code == 200, r.status_code
        self.token = r.headers.get("VGI-Session")
        assert self.token
        for sid in list(self.registry):
            self.registry._entries[sid].lock.name = "SES"
        return self.token

    # -------------------------------------------------------------- scheduled threads
    def _request(self, name: str, method: str) -> None:
        r = self.post(method, {"VGI-Session": self.token})
        err = None
        if r.headers.get("content-type", "").startswith(world.ARROW_CT):
            for s in world.read_streams(r.content):
                err = err or world.error_of(s)
        self.results[name] = {"status": r.status_code, "kind": (err or {}).get("kind"), "type": (err or {}).get("type"),
                              "close_hdr": r.headers.get("VGI-Session-Close")}

    def _delete(self, name: str) -> None:
        r = self.client.simulate_delete("/__session__", headers={"VGI-Session": self.token})
        self.results[name] = {"status": r.status_code}

    def spawn(self, name: str, kind: str) -> None:
        if kind == "use":
            self.sched.spawn(name, self._request, name, "use")
        elif kind == "close":
            self.sched.spawn(name, self._request, name, "use_close")
        elif kind == "delete":
            self.sched.spawn(name, self._delete, name)
        elif kind == "reaper":
            self.sched.spawn(name, self.registry.drain_expired)
        elif kind == "shutdown":
            self.sched.spawn(name, self.registry.shutdown)
        else:
            raise ValueError(kind)


def run_schedule(kinds: dict[str, str], expires: int, steps: list, *, follow_pc=None) -> dict:
    """Execute one schedule on a fresh world.

    steps: list of ("Tick",) | ("Step", thread[, expected_pc_after]).
    Returns {"trace": [...per-step events...], "ghost": [...], "drift": str|None, "results": {...}}.
    """
    w = World(ttl=expires + 0.5)
    trace, drift = [], None
    try:
        w.open_session()
        for n, k in kinds.items():
            w.spawn(n, k)
        mark = 0
        for st in steps:
            if st[0] == "Tick":
                w.sched.clock += 1
                trace.append({"e": "Tick", "t": "", "label": "", "nclose": 0, "dbegin": False, "dend": False})
                continue
            t = st[1]
            if not w.sched.enabled(t):
                drift = f"step {len(trace)}: {t} not enabled at {w.sched.label(t)}"
                break
            lab = w.sched.step(t)
            evs = w.sched.events[mark:]
            mark = len(w.sched.events)
            trace.append({"e": "Step", "t": t, "label": lab,
                          "nclose": sum(1 for e in evs if e["e"] == "CloseBegin"),
                          "dbegin": any(e["e"] == "DispatchBegin" for e in evs),
                          "dend": any(e["e"] == "DispatchEnd" for e in evs)})
            if len(st) > 2 and PC_LABEL.get(st[2]) != lab:
                drift = f"step {len(trace)}: {t} parked at {lab}, spec pc {st[2]} expects {PC_LABEL.get(st[2])}"
                break
        # run whatever is left to completion (any order) so the ghost history is complete
        ok = w.sched.finish_all()
        if not ok:
            drift = (drift or "") + " deadlock-at-finish"
            w.sched.release_all()
        ghost = [{"e": e["e"], "t": e["thread"]} for e in w.sched.events]
        return {"trace": trace, "ghost": ghost, "drift": drift, "results": w.results,
                "errors": {k: repr(v) for k, v in w.sched.errors.items()}, "live": len(w.registry)}
    finally:
        w.restore()
