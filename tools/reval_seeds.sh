#!/bin/bash
# tools/reval_seeds.sh [parallel]  -- re-run every stored seeded change that still applies to /repo HEAD against the
# current checks; one line per seed to /verif/seeded/REVALIDATION.txt (caught = check exit 1 with a VIOLATION line).
par=${1:-3}
cd /verif
head=$(git -C /repo log --format=%h -1)
one() { d=$(realpath $1); id=$(basename $d | sed 's/-[0-9]*$//'); 
  if ! git -C /repo apply --check "$d/patch.diff" 2>/dev/null; then echo "$(basename $d) NOT-APPLICABLE-TO-HEAD (patch context changed by later fix commits; last applicable commit: $(/venv/bin/python -c "import json;print(json.load(open('$d/meta.json')).get('applies_to_repo_commit'))"))"; return; fi
  out=$(tools/try_seeded.sh $d $id 2>&1 | grep "check_rc=" | head -1); rc=$(echo "$out" | grep -o 'check_rc=[0-9]*' | cut -d= -f2)
  echo "$(basename $d) $( [ "$rc" = 1 ] && echo caught || echo "NOT-CAUGHT rc=$rc") $(echo "$out" | sed 's/.*check_rc=[0-9]* *//')"; }
export -f one
{ echo "# re-validation of stored seeded changes against the checks at /verif $(git log --format=%h -1) and /repo $head"; ls -d seeded/C* | grep -v "${REVAL_EXCLUDE:-NONE}" | xargs -P $par -I{} bash -c "one {}" | sort; } > seeded/REVALIDATION.txt
grep -c " caught" seeded/REVALIDATION.txt; grep -c "NOT-CAUGHT" seeded/REVALIDATION.txt; grep -c "NOT-APPLICABLE" seeded/REVALIDATION.txt
