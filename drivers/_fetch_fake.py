"""Deterministic stand-in for aiohttp.ClientSession as used by vgi_rpc.external_fetch (C31, C30).

Surface emulated (everything external_fetch touches): ``session.head/get(url, headers=, allow_redirects=False)``
-> response with ``status``, ``headers.get`` (case-insensitive), ``reason``, ``method``, ``request_info.headers``,
``release()``, ``content.read(n)``, ``content.iter_chunked(n)``; ``session.close()``.

Every request is recorded (method, URL, Range header, virtual time) *before* the origin script answers; every byte
handed to the client through ``content`` is counted per request.  A virtual-time event loop makes delays free and
scheduling deterministic.
"""
from __future__ import annotations

import asyncio
import types
from dataclasses import dataclass, field
from typing import Callable

from multidict import CIMultiDict


class VirtualLoop(asyncio.SelectorEventLoop):
    """Event loop whose clock jumps to the next timer whenever nothing is ready."""

    def __init__(self) -> None:
        super().__init__()
        self._vt = 0.0

    def time(self) -> float:
        return self._vt

    def _run_once(self) -> None:  # type: ignore[override]
        if not self._ready and self._scheduled:
            while self._scheduled and self._scheduled[0]._cancelled:  # noqa: SLF001
                import heapq

                h = heapq.heappop(self._scheduled)
                h._scheduled = False  # noqa: SLF001
            if self._scheduled and self._scheduled[0]._when > self._vt:  # noqa: SLF001
                self._vt = self._scheduled[0]._when  # noqa: SLF001
        super()._run_once()


class ClockShim:
    """Stands in for the name `time` inside vgi_rpc.external_fetch: monotonic() = loop time."""

    def __init__(self, loop: asyncio.AbstractEventLoop) -> None:
        self._loop = loop

    def monotonic(self) -> float:
        return self._loop.time()

    def time(self) -> float:
        return self._loop.time()


@dataclass
class Reply:
    status: int = 200
    headers: dict = field(default_factory=dict)
    body: bytes = b""
    reason: str = "OK"
    delay: float = 0.0                  # before the response head arrives
    read_delay: float = 0.0             # before every body read
    piece: int = 1 << 30                # the origin hands out at most this many bytes per read
    exc: Callable[[], BaseException] | None = None        # raised instead of a response head
    body_exc: Callable[[], BaseException] | None = None   # raised once `body_exc_after` bytes were handed out
    body_exc_after: int = 0


@dataclass
class Rec:
    seq: int
    method: str
    url: str
    range: str | None
    t: float
    bytes_out: int = 0
    reads: int = 0
    released: bool = False
    status: int | None = None
    tag: object = None


class _Content:
    def __init__(self, loop, rec: Rec, reply: Reply) -> None:
        self._loop, self._rec, self._reply, self._pos = loop, rec, reply, 0

    async def read(self, n: int = -1) -> bytes:
        r = self._reply
        if r.read_delay:
            await asyncio.sleep(r.read_delay)
        else:
            await asyncio.sleep(0)
        if r.body_exc is not None and self._pos >= r.body_exc_after:
            raise r.body_exc()
        if n is None or n < 0:
            n = len(r.body)
        limit = min(n, r.piece)
        if r.body_exc is not None:
            limit = min(limit, r.body_exc_after - self._pos)
        out = r.body[self._pos:self._pos + limit]
        self._pos += len(out)
        self._rec.bytes_out += len(out)
        self._rec.reads += 1
        return out

    async def _iter(self, n: int):
        while True:
            b = await self.read(n)
            if not b:
                return
            yield b

    def iter_chunked(self, n: int):
        return self._iter(n)


class _Response:
    def __init__(self, loop, rec: Rec, reply: Reply, req_headers) -> None:
        self.status = reply.status
        self.reason = reply.reason
        self.method = rec.method
        self.headers = CIMultiDict(reply.headers)
        self.request_info = types.SimpleNamespace(headers=CIMultiDict(req_headers or {}), url=rec.url, method=rec.method)
        self.content = _Content(loop, rec, reply)
        self._rec = rec

    def release(self) -> None:
        self._rec.released = True

    def close(self) -> None:
        self._rec.released = True


class FakeSession:
    """origin(rec, headers) -> Reply is consulted for every request."""

    def __init__(self, origin: Callable[[Rec, dict], Reply], loop: asyncio.AbstractEventLoop | None = None) -> None:
        self.origin = origin
        self.loop = loop
        self.requests: list[Rec] = []
        self.closed = False

    async def _request(self, method: str, url: str, headers=None, allow_redirects: bool = True, **kw):
        loop = asyncio.get_running_loop()
        rec = Rec(len(self.requests), method, str(url), (headers or {}).get("Range"), loop.time())
        self.requests.append(rec)
        if allow_redirects:
            raise AssertionError("fetcher must not let the HTTP client follow redirects on its own")
        reply = self.origin(rec, dict(headers or {}))
        if reply.delay:
            await asyncio.sleep(reply.delay)
        else:
            await asyncio.sleep(0)
        if reply.exc is not None:
            raise reply.exc()
        rec.status = reply.status
        return _Response(loop, rec, reply, headers)

    async def head(self, url, **kw):
        return await self._request("HEAD", url, **kw)

    async def get(self, url, **kw):
        return await self._request("GET", url, **kw)

    async def close(self) -> None:
        self.closed = True
