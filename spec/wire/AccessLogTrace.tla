-------------------------------- MODULE AccessLogTrace --------------------------------
(* Trace validation for AccessLog.  A recorded real execution is
       [tr, msg, script, events, recs]
   events = the client-observable history of running `script` over a real connection, in the vocabulary of
            AccessLog!hist (<<op, outcome>>);
   recs   = the access-log records captured from the `vgi_rpc.access` logger while it ran, in emission order,
            projected to [mtype, method, sid, status, hasMsg, full, valid, cancelled, csid, chasMsg, cfull, cvalid]
            (c... = the same fact read from the record as VgiAccessLogFormatter(max_record_bytes=2048) renders it)
            (sid: 0 = no stream_id, else a small number naming the distinct stream_id values by first appearance;
             hasMsg: error_message present and non-empty; full: it contains the server-side message;
             valid: the JSON-formatted record validates against access_log.schema.json).

   The model is deterministic for a given (tr, msg, script): TLC runs it, prunes behaviours whose hist stops
   being a prefix of the logged events, and when the model has made every call of the script with hist = events it judges the real
   records against the model's dispatch list (alog) and observed outcomes (outc) clause by clause.
   A trace whose client history the model cannot reproduce is not accepted (drift); for it only the clauses
   that need no alignment are evaluated.
   Registers: 3*tid -> 1 if accepted; 3*tid+1 -> set of failed clause names; 3*tid+2 -> longest prefix matched. *)
EXTENDS AccessLog, Json, IOUtils, TLCExt
Traces == JsonDeserialize(IOEnv.TRACE_FILE)
VARIABLE tid
tvars == <<vars, tid>>
TScript == Traces[tid].script
TraceInit == /\ tid \in 1..Len(Traces)
             /\ tr = Traces[tid].tr /\ msg = "none" /\ script = <<>>
             /\ ip = 0 /\ pc = "idle" /\ st = NoStream /\ hist = <<>> /\ alog = <<>> /\ outc = <<>> /\ nsid = 1
\* the next call is the one the real history made, under the real history's message class
TraceNext == /\ \/ (ip < Len(TScript) /\ \E m \in {"none", Traces[tid].msg} : StartCall(TScript[ip + 1], m))
                \/ Tick \/ Close \/ Cancel
             /\ UNCHANGED tid
TraceSpec == TraceInit /\ [][TraceNext]_tvars
TDone == pc = "idle" /\ ip = Len(TScript)
Logged == Traces[tid].events
IsPrefix == Len(hist) <= Len(Logged) /\ \A i \in 1..Len(hist) : hist[i] = Logged[i]

Cl(name, ok) == IF ok THEN {} ELSE {name}
Free(R) ==      Cl("SchemaValid", \A i \in Idx(R) : R[i].valid)
           \cup Cl("ErrorMessageNonEmpty", MsgNonEmpty(R))
           \cup Cl("ErrorMessageFull", MsgFull(R))
           \* the record as rendered by the repo's formatter under a small per-record size cap
           \cup Cl("SchemaValidCapped", \A i \in Idx(R) : R[i].cvalid)
           \cup Cl("ErrorMessageNonEmptyCapped", \A i \in Idx(R) : R[i].status = "error" => R[i].chasMsg)
           \cup Cl("ErrorMessageFullCapped", \A i \in Idx(R) : R[i].status = "error" => R[i].cfull)
Aligned(R) == LET same == Len(R) = Len(alog) IN
                Cl("CountMatches", same)
           \cup Cl("StatusMatches", same => StatusOK(R, alog, outc))
           \cup Cl("OneStreamId", same => SidOK(R, alog))
           \cup Cl("OneStreamIdCapped", same => SidOKc(R, alog))
           \cup Cl("RecordsAlign", same => \A i \in Idx(R) : R[i].mtype = alog[i].mtype /\ R[i].cancelled = alog[i].cancelled)
Track == /\ IsPrefix
         /\ TLCSet(3 * tid + 2, IF TLCGet(3 * tid + 2) < Len(hist) THEN Len(hist) ELSE TLCGet(3 * tid + 2))
         /\ IF TDone /\ hist = Logged
            THEN TLCSet(3 * tid, 1) /\ TLCSet(3 * tid + 1, Free(Traces[tid].recs) \cup Aligned(Traces[tid].recs))
            ELSE TRUE
ASSUME \A i \in 1..Len(Traces) : TLCSet(3 * i, 0) /\ TLCSet(3 * i + 1, {}) /\ TLCSet(3 * i + 2, 0)
Verdicts == \A i \in 1..Len(Traces) :
   PrintT("@@J@@" \o ToJson([tid |-> i, accepted |-> TLCGet(3 * i) = 1,
                             bad |-> IF TLCGet(3 * i) = 1 THEN TLCGet(3 * i + 1) ELSE Free(Traces[i].recs),
                             matched |-> TLCGet(3 * i + 2), len |-> Len(Traces[i].events)]))
=========================================================================================
