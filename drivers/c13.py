"""C13 -- stream tokens are bound to the method that minted them.  spec/http/HttpStream.tla (MethodBound)."""
from drivers import _http_world as H
from drivers.c14 import TICK_S, TTL_TICKS, consts
from vf import tracecheck
from vf.core import Ctx
from vf.tlc import render_cfg, require_ok, run_tlc, sany

META = {
    "engine": "http",
    "text": "TLC model-checks HttpStream.tla with three stream methods: every cursor/call token minted during any stream's "
            "lifetime presented at every endpoint, on warm and cold workers, must satisfy MethodBound (served => the "
            "endpoint is the minting method).  The driver does the same on real workers for a service with six stream "
            "methods (two exchange methods sharing a state class, one with a different class, a union-state method, two "
            "producers sharing a class): every token of every stream (init cursor and the cursors of later turns) x "
            "every endpoint x {warm, cold worker} x {continue, cancel} x identities x {tokens expire, token_ttl = 0}; the state objects log which endpoint "
            "processed which method's state; TLC validates the recorded histories against HttpStreamTrace.tla.",
    "note": "Trusted: state objects identify their minting method by a tag field set at init; endpoint identity is read "
            "from the CallContext passed to process/on_cancel.",
}
METHS = ["xa", "xb", "xc", "xu", "pd", "pe"]


def run(ctx: Ctx) -> None:
    wd = ctx.wd.stage("http")
    sany(wd, "HttpStream")
    r = run_tlc(wd, "HttpStream", render_cfg(
        constants=consts(3, False, "{0, 1}", methods='{"xa", "xb", "pd"}', max_clock=1 if ctx.quick else 3, streams=2),
        invariants=["TypeOK", "MethodBound", "HitSameIdentity"]), timeout=1500)
    ctx.add_tlc("HttpStream exhaustive, 3 methods, all token/endpoint pairings", r)
    require_ok(r, "HttpStream MethodBound")
    ctx.exhaustive = True
    orig = run_tlc(wd, "HttpStream", render_cfg(
        constants=consts(2, False, "{1}", fix=(True, False, False, False), methods='{"xa", "xb"}', max_clock=0, streams=1),
        invariants=["MethodBound"]))
    ctx.extra["design_as_found_violates"] = orig.violated
    ctx.rule = ("case = one presentation of a real token pair minted by method m at endpoint e (worker warm/cold, "
                "continue/cancel, identity); non-trivial = distinct (m, token age, e, worker, cancel, identity)")
    clock = H.Clock()
    traces, metas = [], []
    try:
        key = b"M" * 32
        # two deployments: tokens expire after the TTL / token_ttl = 0 (expiry disabled; every other rule still applies)
        for ttl_world, ident in [(w, i) for w in ("ttl", "noexpiry") for i in ("anon", "A")]:
            world_ttl = TTL_TICKS * TICK_S if ttl_world == "ttl" else 0
            for m in METHS + ["xu1"]:
                if ttl_world == "noexpiry" and ctx.quick and m in ("xc", "pe"):
                    continue
                warm = H.Worker(key, 8, world_ttl, server_id="w1")
                cold = H.Worker(key, 0, world_ttl, server_id="w2")
                meth = "xu" if m == "xu1" else m
                init = warm.init(meth, ident, which=1 if m == "xu1" else 0)
                if not init["served"] or init["cursor"] is None:
                    raise RuntimeError(f"init of {m} failed: {init['error']}")
                ev = [{"a": "init", "w": "w1", "id": ident, "m": meth}]
                tok = lambda: {"sid": 1, "ident": ident, "meth": meth, "created": 0}
                cursors = [init["cursor"]]
                for _turn in range(2):
                    c = warm.cont(meth, ident, cursors[-1], init["call"])
                    ev.append({"a": "cont", "w": "w1", "id": ident, "ep": meth, "cur": tok(), "call": tok(), "served": bool(c["served"])})
                    if c["cursor"] is not None:
                        cursors.append(c["cursor"])
                for age, cur in enumerate(cursors):
                    for ep in METHS:
                        for wname, wk in (("w1", warm), ("w2", cold)):
                            for cancel in (False, True):
                                for pid in ((ident,) if ctx.quick and age else (ident, "A" if ident == "anon" else "B")):
                                    n0 = len(H.HOOKS)
                                    r_ = wk.cont(ep, pid, cur, init["call"], cancel=cancel)
                                    hooks = H.HOOKS[n0:]
                                    foreign = [h for h in hooks if h[0] in ("process", "on_cancel") and h[1] is not None and h[2] != h[1]]
                                    anyhook_on_reject = (not r_["served"]) and ep != meth and bool(hooks)
                                    ctx.case([m, age, ep, wname, cancel, pid],
                                             sample={"minted_by": m, "cursor_turn": age, "endpoint": ep, "worker": wname, "cancel": cancel,
                                                     "ident": pid, "status": r_["status"], "served": r_["served"], "hooks": hooks}
                                             if (len(traces) + age) % 5 == 0 and ep != meth else None)
                                    sig = {"minted_by": m, "endpoint": ep, "worker": "warm" if wname == "w1" else "cold", "cancel": cancel,
                                           "same_ident": pid == ident, "token_ttl": ttl_world}
                                    det = {"status": r_["status"], "served": r_["served"], "values": r_["values"], "hooks": hooks,
                                           "error": (r_["error"] or {}).get("message")}
                                    if foreign:
                                        ctx.violation("MethodBound", sig, det)
                                    if ep != meth and pid == ident and (r_["status"] != 400 or anyhook_on_reject):
                                        ctx.violation("ForeignRejectedBeforeHooks", sig, det)
                                    if pid == ident:
                                        # cancel is a continuation as far as the token rules go
                                        ev.append({"a": "cont", "w": wname, "id": pid, "ep": ep, "cur": tok(), "call": tok(),
                                                   "served": bool(r_["served"] or (cancel and r_["status"] == 200))})
                # cross pairing: this method's OWN cursor with the call token another method's init minted (same identity):
                # the endpoint must not run its state against call state / schemas its own init did not produce
                for other in METHS:
                    if other == meth:
                        continue
                    oi = warm.init(other, ident)
                    ev.append({"a": "init", "w": "w1", "id": ident, "m": other})
                    n_streams = sum(1 for e in ev if e["a"] == "init")
                    otok = {"sid": n_streams, "ident": ident, "meth": other, "created": 0}
                    for wname, wk in (("w2", cold),):
                        for cancel in (False, True):
                            n0 = len(H.HOOKS)
                            r_ = wk.cont(meth, ident, cursors[0], oi["call"], cancel=cancel)
                            hooks = H.HOOKS[n0:]
                            ctx.case([m, "own-cursor+foreign-call", other, wname, cancel, ident],
                                     sample={"endpoint": meth, "cursor_of": meth, "call_token_of": other, "worker": wname,
                                             "status": r_["status"], "served": r_["served"], "hooks": hooks} if other == METHS[0] else None)
                            sig = {"minted_by": m, "endpoint": meth, "call_token_of": other, "worker": "cold", "cancel": cancel,
                                   "token_ttl": ttl_world}
                            if r_["served"] or r_["status"] != 400 or hooks:
                                ctx.violation("OwnInitOnly", sig, {"status": r_["status"], "served": r_["served"], "hooks": hooks,
                                                                   "error": (r_["error"] or {}).get("message")})
                            ev.append({"a": "cont", "w": wname, "id": ident, "ep": meth, "cur": tok(), "call": otok,
                                       "served": bool(r_["served"])})
                traces.append({"caps": {"w1": 8, "w2": 0}, "ev": ev})
                metas.append({"minted_by": m, "ident": ident, "token_ttl": ttl_world})
    finally:
        clock.restore()
    vs = [None] * len(traces)
    for world in ("ttl", "noexpiry"):
        idx = [i for i, mt in enumerate(metas) if mt["token_ttl"] == world]
        c = consts(10**6, False, methods='{"xa", "xb", "xc", "xu", "pd", "pe"}', no_expiry=world == "noexpiry")
        c["MaxStreams"] = 8
        for i, v in zip(idx, tracecheck.validate(ctx, wd, "HttpStreamTrace", [traces[i] for i in idx], constants=c,
                                                 name=f"HttpStreamTrace (cross-method presentations, {world})")):
            vs[i] = v
    for v, meta, tr in zip(vs, metas, traces):
        for cl in v["bad"]:
            ctx.violation(cl, {"via": "trace", **meta}, {"tlc": v})
        if v["matched"] == v["len"] and not v["bad"]:
            ctx.traces_validated += 1
        elif v["matched"] != v["len"]:
            e = tr["ev"][v["matched"]] if v["matched"] < len(tr["ev"]) else None
            if e and e["a"] == "cont" and e["ep"] != e["cur"]["meth"] and e["served"]:
                ctx.violation("MethodBound", {"via": "trace", **meta, "endpoint": e["ep"]}, {"event": e, "tlc": v})
            else:
                ctx.drift.append({**meta, "rejected_at": v["matched"], "event": e})
