"""Raw-wire helpers shared by drivers: craft request bytes, run the real server on byte buffers,
decode response streams.  Only public wire facts (docs/WIRE_PROTOCOL.md) are used to craft/parse."""
from __future__ import annotations

import io
import json
import threading
from typing import Any

import pyarrow as pa
from pyarrow import ipc

K_METHOD = b"vgi_rpc.method"
K_REQVER = b"vgi_rpc.request_version"
K_PROTOVER = b"vgi_rpc.protocol_version"
K_LEVEL = b"vgi_rpc.log_level"
K_MSG = b"vgi_rpc.log_message"
K_EXTRA = b"vgi_rpc.log_extra"
K_KIND = b"vgi_rpc.error_kind"
ARROW_CT = "application/vnd.apache.arrow.stream"


def ipc_stream(schema: pa.Schema, batches: list[tuple[pa.RecordBatch, dict | None]]) -> bytes:
    sink = io.BytesIO()
    with ipc.new_stream(sink, schema) as w:
        for b, md in batches:
            if md is None:
                w.write_batch(b)
            else:
                w.write_batch(b, custom_metadata=pa.KeyValueMetadata(md))
    return sink.getvalue()


def raw_request(method: bytes | None, schema: pa.Schema, row: dict[str, Any] | None = None, *,
                md: dict[bytes, bytes] | None = None, request_version: bytes | None = b"1",
                nrows: int = 1, batch: pa.RecordBatch | None = None) -> bytes:
    """One request IPC stream.  `md` is merged last so callers can override / inject any key."""
    if batch is None:
        row = row or {}
        arrays = [pa.array([row.get(f.name)] * nrows, type=f.type) for f in schema]
        batch = pa.RecordBatch.from_arrays(arrays, schema=schema)
    meta: dict[bytes, bytes] = {}
    if method is not None:
        meta[K_METHOD] = method
    if request_version is not None:
        meta[K_REQVER] = request_version
    if md:
        meta.update(md)
    return ipc_stream(batch.schema, [(batch, meta)])


class ByteTransport:
    """RpcTransport over in-memory buffers (reader = given bytes, writer = BytesIO)."""

    def __init__(self, data: bytes) -> None:
        self._r = io.BytesIO(data)
        self._w = io.BytesIO()

    @property
    def reader(self):  # noqa: D401
        return self._r

    @property
    def writer(self):
        return self._w

    def close(self) -> None:
        pass

    def written(self) -> bytes:
        return self._w.getvalue()

    def unread(self) -> int:
        return len(self._r.getvalue()) - self._r.tell()


def serve_one_bytes(server, data: bytes):
    """Run the real RpcServer.serve_one on a byte buffer. Returns (response bytes, unread input bytes, exception|None)."""
    t = ByteTransport(data)
    exc = None
    try:
        server.serve_one(t)
    except BaseException as e:  # noqa: BLE001
        exc = e
    return t.written(), t.unread(), exc


def serve_bytes(server, data: bytes):
    """Run the real RpcServer.serve (the whole connection loop) on a byte buffer holding several requests.
    Returns (response bytes, unread input bytes, exception|None); the loop ends at end of input."""
    t = ByteTransport(data)
    exc = None
    try:
        server.serve(t)
    except BaseException as e:  # noqa: BLE001
        exc = e
    return t.written(), t.unread(), exc


def read_streams(data: bytes) -> list[dict]:
    """Split a byte string into consecutive IPC streams: [{schema, batches:[(batch, md dict)], complete}]"""
    out = []
    buf = io.BytesIO(data)
    while buf.tell() < len(data):
        try:
            rd = ipc.open_stream(buf)
        except Exception as e:  # noqa: BLE001
            out.append({"error": f"{type(e).__name__}: {e}", "batches": [], "complete": False})
            break
        st = {"schema": rd.schema, "batches": [], "complete": False}
        try:
            while True:
                try:
                    b, md = rd.read_next_batch_with_custom_metadata()
                except StopIteration:
                    st["complete"] = True
                    break
                st["batches"].append((b, dict(md) if md is not None else {}))
        except Exception as e:  # noqa: BLE001
            st["error"] = f"{type(e).__name__}: {e}"
        out.append(st)
        if not st["complete"]:
            break
    return out


def error_of(stream: dict) -> dict | None:
    """First EXCEPTION-level batch of a decoded stream -> {type, message, kind}."""
    for b, md in stream["batches"]:
        if md.get(K_LEVEL) == b"EXCEPTION" and b.num_rows == 0:
            extra = {}
            try:
                extra = json.loads(md.get(K_EXTRA, b"{}"))
            except Exception:  # noqa: BLE001
                pass
            return {"type": extra.get("exception_type"), "message": md.get(K_MSG, b"").decode("utf-8", "replace"),
                    "kind": (md.get(K_KIND) or b"").decode() or None, "extra": extra}
    return None


def run_thread(fn, *a, name: str = "t", **k) -> threading.Thread:
    t = threading.Thread(target=fn, args=a, kwargs=k, name=name, daemon=True)
    t.start()
    return t
