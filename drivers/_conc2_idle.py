"""Real `_serve_socket_threaded` under the deterministic scheduler (C33, IdleAccept.tla).

Nothing in /repo is changed: `vgi_rpc.rpc._transport.threading` is replaced by a shim namespace for the
duration of one run (Lock -> scheduler lock, Thread -> scheduler thread, Timer -> harness-fired timer,
Semaphore -> scheduler-aware semaphore), the listening socket is a fake whose accept() is a park point whose
result (connection / TimeoutError / OSError) the controller scripts, the server is a fake whose serve() parks
until the controller ends the connection.

Spec action  <->  controller operation (one action = one `sched.step`, except Arrive/TFire):
  Arrive            a connection id is appended to the fake kernel backlog
  LStart..LFinal    step("loop")            (LAccept / LTimeout: accept() scripted to return conn / raise TimeoutError)
  HStart/HServeEnd/HFin(c)   step("h<c>")
  TFire(t)          the t-th Timer object's callback thread is spawned and run to its first park point
  TRun(t)           step("t<t>")
Observed after every operation (all threads parked): park labels, Timer objects' states/intervals, and --
read-only, through the closure cells of the callback handed to Timer() -- conn_count, shutdown_requested, timer.
"""
from __future__ import annotations

import sys
import threading as _real_threading

import vgi_rpc.rpc._transport as T
from vf.sched import Scheduler

_REAL = T.threading
sys.setswitchinterval(1e-5)   # scheduler hand-offs are GIL hand-offs; the default 5 ms interval dominates otherwise

LPC_LABEL = {"start": "start", "initlock": "acq", "accept": "accept", "lock1": "acq", "lock2": "acq",
             "check": "acq", "final": "acq", "exited": "EXIT"}
HPC_LABEL = {"start": "start", "semwait": "sem", "serving": "serve", "fin": "acq", "done": "EXIT"}


def _lab(label: str) -> str:
    return "acq" if label.startswith("acq:") else label


class _Sem:
    """threading.Semaphore whose acquire is a park point (enabled iff a permit is free)."""

    def __init__(self, w: "IdleWorld", value: int = 1) -> None:
        self.w, self.value, self.name = w, value, "SEM"

    def can_acquire(self, who: str) -> bool:
        return self.value > 0

    def acquire(self, blocking: bool = True, timeout: float | None = None) -> bool:
        self.w.sched.yield_point("sem", self)  # type: ignore[arg-type]
        self.value -= 1
        return True

    def release(self, n: int = 1) -> None:
        self.value += n


class IdleWorld:
    def __init__(self, idle_timeout: float = 5.0, max_connections: int | None = None, serve_raises=()) -> None:
        self.sched = Scheduler(step_timeout=20.0)
        self.idle_timeout = idle_timeout
        self.max_connections = max_connections
        self.timers: list = []
        self.thread_objs: dict[str, object] = {}
        self.backlog: list[int] = []
        self.arrived = 0
        self.next_accept = "timeout"
        self.serving: set[int] = set()
        self.cells: dict[str, object] = {}
        self.serve_raises = set(serve_raises)
        self.listener_closed = False
        self.trace: list[dict] = []
        self.mon: list[dict] = []          # observable history for IdleAcceptMonitor
        self.loop_steps: list[tuple[int, str]] = []   # (len(mon) after the step, what accept() did in it)
        self.forced_end = False
        w = self

        class TimerShim:
            def __init__(self, interval, function, args=None, kwargs=None):
                self.interval, self.function = interval, function
                self.args, self.kwargs = tuple(args or ()), dict(kwargs or {})
                self.state = "new"
                self.daemon = False
                self.id = len(w.timers) + 1
                w.timers.append(self)
                if not w.cells and getattr(function, "__closure__", None):
                    w.cells = dict(zip(function.__code__.co_freevars, function.__closure__))

            def start(self):
                self.state = "armed"
                w._mon("Arm", t=self.id, k=w.kind(self))

            def cancel(self):
                if self.state == "armed":
                    self.state = "cancelled"

            def is_alive(self):
                return self.state in ("armed", "fired")

            def join(self, timeout=None):
                return None

        class ThreadShim:
            def __init__(self, group=None, target=None, name=None, args=(), kwargs=None, *, daemon=None):
                self.target, self.args, self.kwargs = target, tuple(args), dict(kwargs or {})
                self.name, self.daemon = name, daemon
                cid = next((getattr(a, "cid", None) for a in self.args if hasattr(a, "cid")), None)
                self.lname = f"h{cid}" if cid is not None else f"x{len(w.thread_objs) + 1}"

            def start(self):
                w.thread_objs[self.lname] = self
                w.sched.spawn(self.lname, self.target, *self.args, **self.kwargs)

            def join(self, timeout=None):
                return None        # bounded wait in the code (10 s per thread): modelled as "returns"

            def is_alive(self):
                return self.lname not in w.sched.done

        def current_thread():
            me = w.sched._me()
            return w.thread_objs.get(me) or _real_threading.current_thread()

        ns = self.sched.threading_shim(thread_cls=ThreadShim)
        ns.Timer = TimerShim
        ns.Semaphore = lambda value=1: _Sem(w, value)
        ns.BoundedSemaphore = ns.Semaphore
        ns.current_thread = current_thread
        self.ns = ns

        class Conn:
            def __init__(self, cid):
                self.cid = cid
                self.closed = False

            def settimeout(self, t):
                pass

            def fileno(self):
                return 100 + self.cid

            def close(self):
                self.closed = True

        class Listener:
            def settimeout(self, t):
                self.timeout = t

            def accept(self):
                w.sched.yield_point("accept")
                k = w.next_accept
                if k == "conn" and w.backlog:
                    c = w.backlog.pop(0)
                    w.last_accept = ("conn", c)
                    sr = w.cell("shutdown_requested")
                    w._mon("Accept", c=c, sr=int(sr) if isinstance(sr, bool) else -1)
                    return Conn(c), ("peer", c)
                if k == "oserror":
                    w.last_accept = ("oserror", 0)
                    raise OSError("listener closed")
                w.last_accept = ("timeout", 0)
                raise TimeoutError("timed out")

            def close(self):
                w.listener_closed = True

        class Transport:
            def __init__(self, conn):
                self.conn = conn

            def close(self):
                self.conn.close()

        class Server:
            def serve(self, transport):
                c = transport.conn.cid
                w.serving.add(c)
                w._mon("ServeBegin", c=c)
                try:
                    w.sched.yield_point("serve")
                    if c in w.serve_raises:
                        raise RuntimeError("connection handler failed")
                finally:
                    w.serving.discard(c)
                    w._mon("ServeEnd", c=c)

        self.listener = Listener()
        self.last_accept = ("", 0)
        self._args = (Server(), self.listener, max_connections, idle_timeout, Transport, "vgi-fake")

    # ------------------------------------------------------------------ lifecycle
    def __enter__(self) -> "IdleWorld":
        T.threading = self.ns
        self.sched.spawn("loop", T._serve_socket_threaded, *self._args)
        return self

    def __exit__(self, *exc) -> None:
        try:
            self.teardown()
        finally:
            T.threading = _REAL

    def _mon(self, e: str, **k) -> None:
        self.mon.append({"e": e, "c": 0, "t": 0, "k": "", "sr": -1, **k})

    def monitor_history(self) -> list[dict]:
        """Observable history with the Stop event placed: the loop's first step after its last accept() call,
        if the loop ended without the harness closing the listener under it."""
        h = list(self.mon)
        if self.sched.label("loop") == "EXIT" and not self.forced_end and "loop" not in self.sched.errors:
            last = max((i for i, (_, acc) in enumerate(self.loop_steps) if acc), default=None)
            if last is not None and last + 1 < len(self.loop_steps):
                h.insert(self.loop_steps[last + 1][0], {"e": "Stop", "c": 0, "t": 0, "k": "", "sr": -1})
        return h

    def teardown(self) -> None:
        """Let everything end (not part of any trace): pending timers are dropped, the listener 'closes'."""
        s = self.sched
        for _ in range(10000):
            live = [n for n in s.threads if n not in s.done]
            if not live:
                return
            self.next_accept = "oserror"
            self.forced_end = True
            r = s.runnable()
            if not r:
                break
            s.step(r[0])
        s.release_all()

    # ------------------------------------------------------------------ observation
    def cell(self, name: str):
        c = self.cells.get(name)
        try:
            return c.cell_contents if c is not None else None
        except ValueError:
            return None

    def kind(self, t) -> str:
        it = self.idle_timeout
        if t.interval == max(it, 60.0) and t.id == 1:
            return "grace"
        if t.interval == it:
            return "idle"
        return "short" if t.interval < it else "long"

    def observe(self) -> dict:
        cc, sr, tm = self.cell("conn_count"), self.cell("shutdown_requested"), self.cell("timer")
        return {
            "lab": _lab(self.sched.label("loop")),
            "cc": cc if isinstance(cc, int) else -1,
            "sr": int(sr) if isinstance(sr, bool) else -1,
            "tm": (tm.id if tm is not None else 0) if ("timer" in self.cells) else -1,
            "ts": [{"new": "none"}.get(t.state, t.state) for t in self.timers],
            "tk": [self.kind(t) for t in self.timers],
            "h": {n: _lab(self.sched.label(n)) for n in self.sched.threads if n.startswith("h")},
            "serving": sorted(self.serving),
        }

    # ------------------------------------------------------------------ operations (each appends one trace event)
    def _ev(self, a: str, **k) -> dict:
        ev = {"a": a, "c": 0, "t": 0, "acc": "", **k, **self.observe()}
        ev["hl"] = ev["h"].get(f"h{ev['c']}", "") if ev["c"] else ""
        self.trace.append(ev)
        return ev

    def arrive(self) -> dict:
        self.arrived += 1
        self.backlog.append(self.arrived)
        return self._ev("Arrive")

    def loop(self, accept: str = "") -> dict:
        """One step of the accept loop; `accept` scripts what a pending accept() call does."""
        self.last_accept = ("", 0)
        if accept:
            self.next_accept = accept
        self.sched.step("loop")
        self.loop_steps.append((len(self.mon), self.last_accept[0]))
        return self._ev("Loop", acc=self.last_accept[0])

    def handler(self, c: int) -> dict:
        self.sched.step(f"h{c}")
        return self._ev("H", c=c)

    def fire(self, t: int) -> dict:
        tm = self.timers[t - 1]
        if tm.state != "armed":
            raise RuntimeError(f"timer {t} is {tm.state}, cannot fire")
        tm.state = "fired"
        self._mon("Fire", t=t)
        name = f"t{t}"

        def body():
            try:
                tm.function(*tm.args, **tm.kwargs)
            finally:
                tm.state = "done"

        self.sched.spawn(name, body)
        self.sched.step(name)          # from thread start to its first park point (the state_lock acquire)
        if self.sched.label(name) == "EXIT":
            tm.state = "done"
        return self._ev("TFire", t=t)

    def timer_run(self, t: int) -> dict:
        self.sched.step(f"t{t}")
        return self._ev("TRun", t=t)

    def settle(self) -> None:
        """Let the accept loop finish what it is doing: run it until it calls accept() again or returns, so that
        'it stopped accepting' is decided by what it did, not by where the schedule happened to end."""
        for _ in range(8):
            lab = self.sched.label("loop")
            if lab in ("accept", "EXIT") or not self.sched.enabled("loop"):
                return
            try:
                self.loop()
            except Exception:  # noqa: BLE001
                return

    def enabled_ops(self) -> list[tuple]:
        """Every operation the environment/scheduler could perform now (for random exploration)."""
        s = self.sched
        ops: list[tuple] = []
        lab = s.label("loop")
        if lab not in ("EXIT",) and s.enabled("loop"):
            if lab == "accept":
                ops.append(("loop", "conn") if self.backlog else ("loop", "timeout"))
            else:
                ops.append(("loop", ""))
        for n in s.threads:
            if n.startswith("h") and s.enabled(n):
                ops.append(("handler", int(n[1:])))
            if n.startswith("t") and s.enabled(n):
                ops.append(("timer_run", int(n[1:])))
        for t in self.timers:
            if t.state == "armed":
                ops.append(("fire", t.id))
        return ops


def apply(w: IdleWorld, action: str, args: list) -> dict:
    """Execute one IdleAccept.tla action on the real code."""
    if action == "Arrive":
        return w.arrive()
    if action == "LAccept":
        return w.loop("conn")
    if action == "LTimeout":
        return w.loop("timeout")
    if action in ("LStart", "LInit", "LLock1", "LLock2", "LCheck", "LFinal"):
        return w.loop()
    if action in ("HStart", "HAcquire", "HServeEnd", "HFin"):
        return w.handler(int(args[0]))
    if action == "TFire":
        return w.fire(int(args[0]))
    if action == "TRun":
        return w.timer_run(int(args[0]))
    raise ValueError(action)


def project(state: dict, n_conns: int) -> dict:
    """Spec state -> the same shape as IdleWorld.observe() (for the step-by-step comparison)."""
    nt = state["nTimers"]
    seq = lambda f: [f[i] for i in range(1, nt + 1)] if isinstance(f, dict) else list(f)[:nt]  # noqa: E731
    tst, tk = state["tst"], state["tkind"]
    hpc = state["hpc"]
    get = (lambda c: hpc[c]) if isinstance(hpc, dict) else (lambda c: hpc[c - 1])
    return {
        "lab": LPC_LABEL[state["lpc"]],
        "cc": state["connCount"], "sr": int(state["shutdownReq"]), "tm": state["timer"],
        "ts": seq(tst), "tk": seq(tk),
        "h": {f"h{c}": HPC_LABEL[get(c)] for c in range(1, n_conns + 1) if get(c) != "none"},
        "serving": sorted(c for c in range(1, n_conns + 1) if get(c) == "serving"),
    }


def differs(obs: dict, exp: dict) -> list[str]:
    out = []
    for k in ("lab", "ts", "tk", "h", "serving"):
        if obs[k] != exp[k]:
            out.append(k)
    for k in ("cc", "sr", "tm"):
        if obs[k] != -1 and obs[k] != exp[k]:
            out.append(k)
    return out


def run_path(behaviour: list[dict], n_conns: int, idle_timeout: float = 5.0, max_par: int = 0) -> dict:
    """Replay one TLC path on the real code.  Returns the recorded trace and the first divergence (if any)."""
    drift = None
    with IdleWorld(idle_timeout=idle_timeout, max_connections=max_par or None) as w:
        for i, b in enumerate(behaviour):
            try:
                ev = apply(w, b["action"], b["args"])
            except Exception as e:  # noqa: BLE001  (Blocked / SchedTimeout / not armed ...)
                drift = {"step": i, "action": b["action"], "args": b["args"], "error": repr(e)}
                break
            d = differs(ev, project(b["state"], n_conns))
            if d:
                drift = {"step": i, "action": b["action"], "args": b["args"], "fields": d,
                         "observed": {k: ev[k] for k in d}, "expected": {k: project(b["state"], n_conns)[k] for k in d}}
                break
        w.settle()
        trace = list(w.trace)
        errors = {k: repr(v) for k, v in w.sched.errors.items()}
        mon = w.monitor_history()
    return {"trace": trace, "mon": mon, "drift": drift, "errors": errors, "mp": max_par}


def run_random(rng, n_conns: int, max_steps: int = 60, idle_timeout: float = 5.0, max_connections=None,
               serve_raises=()) -> dict:
    """Random walk over whatever the real code enables (not taken from the model); the trace is judged by TLC."""
    with IdleWorld(idle_timeout=idle_timeout, max_connections=max_connections, serve_raises=serve_raises) as w:
        for _ in range(max_steps):
            ops = w.enabled_ops()
            if w.arrived < n_conns and w.sched.label("loop") != "EXIT":
                ops.append(("arrive",))
            # bias: timers fire less often than everything else so that connections overlap them
            if not ops:
                break
            op = rng.choice(ops)
            getattr(w, op[0])(*op[1:])
        w.settle()
        trace = list(w.trace)
        errors = {k: repr(v) for k, v in w.sched.errors.items()}
        mon = w.monitor_history()
    return {"trace": trace, "mon": mon, "drift": None, "errors": errors, "mp": max_connections or 0}


def calibrate() -> dict:
    """Which design does the code under test follow?  Two scripted runs, decided by behaviour alone."""
    a = ["LStart", "LInit", "TFire:1", "TRun:1", "Arrive", "LAccept", "LLock1", "LLock2", "LTimeout", "LCheck"]
    b = ["LStart", "LInit", "Arrive", "TFire:1", "LAccept", "LLock1", "LLock2", "HStart:1", "HServeEnd:1", "HFin:1",
         "TRun:1", "LTimeout", "LCheck"]
    out = {}
    for name, script in (("FixClearOnAccept", a), ("FixStaleTimer", b)):
        try:
            with IdleWorld() as w:
                ev = None
                for s in script:
                    act, _, arg = s.partition(":")
                    ev = apply(w, act, [arg] if arg else [])
                out[name] = ev["lab"] == "accept"     # the loop went back to accept() instead of breaking
        except Exception:  # noqa: BLE001
            out[name] = False
    return out
