"""C36 -- token introspection endpoint.  Spec: spec/data/IntrospectEndpoint.tla (Cases / Expected / Conforms)."""
import contextlib
import io
import json
import logging
import math
import re
import warnings
from typing import Protocol

from vf import table
from vf.core import Ctx

META = {
    "engine": "data",
    "text": "IntrospectEndpoint.tla transcribes the endpoint as a guard chain (route, caller allowlist, body, JWS shape, "
            "resolver outcome) into a total decision table with set-valued admissible statuses where the statement is "
            "silent.  TLC enumerates the complete space mode x 9 caller classes x 15 body classes x 16 resolver "
            "behaviours (ttl 300/1/huge/0.5/0/-1/-0.0/NaN/inf/-inf/True/'300'/None, None, unavailable, other exception) and checks the "
            "table-sanity invariants; every row is concretised into several real POSTs against real make_wsgi_app "
            "workers (in-process WSGI) with a scripted resolver and authenticator; TLC judges every observed "
            "(status, 404 byte-identity, resolver calls, Retry-After, key set, ttl class, strict-JSON, leak) with "
            "IntrospectEndpoint!Conforms.",
    "note": "Trusted: the transcription of the statement into Admissible(); the projection of a response onto the "
            "observation record (Python computes byte equality with the reference 404, strict-JSON parse and "
            "substring search for the credential and for any 10 consecutive characters of it).  Size caps are read from the module's own constants.  The rate "
            "limiter (429, not part of the statement) is configured out of the way.  HTTP legs are in-process WSGI.",
}

ALLOW = ["proxy@example.com", "svc:introspector"]
PRINCIPAL, TOKEN_NAME = "alice@example.com", "laptop-key"


class _Svc(Protocol):
    def ping(self) -> str: ...


class _Impl:
    def ping(self) -> str:
        return "pong"


# ------------------------------------------------------------------ scripted world
class _World:
    def __init__(self) -> None:
        self.calls: list[str] = []
        self.behaviour = None  # callable(token) -> identity | None | raises
        self.auth_table: dict[str, object] = {}

    def resolver(self, token: str):
        self.calls.append(token)
        return self.behaviour(token)

    def authenticate(self, req):
        key = req.get_header("X-Caller") or ""
        act = self.auth_table.get(key)
        if act is None:
            raise ValueError("no credential")
        return act


def _callers():
    from vgi_rpc.rpc import AuthContext

    def au(p, authenticated=True, domain="test"):
        return AuthContext(domain=domain, authenticated=authenticated, principal=p)

    return {
        "anon_noauth": [None],
        "anon_optional": [AuthContext.anonymous(), AuthContext(domain="test", authenticated=False)],
        "anon_rejected": ["reject"],
        "allow": [au(ALLOW[0])],
        "allow2": [au(ALLOW[1])],
        "other": [au("mallory@example.com"), au(PRINCIPAL), au("root"), au("*")],
        "near": [au("Proxy@example.com"), au("proxy@example.com "), au(" proxy@example.com"), au("proxy@example.co"),
                 au("proxy@example.com.evil.test"), au("proxy@example.com,svc:introspector"), au("proxy@example.com\n"),
                 au("PROXY@EXAMPLE.COM"), au("svc:introspecto"), au("proxy@example.com\x00"), au("svc:"),
                 au("['proxy@example.com']")],
        "empty": [au(""), au(None)],
        "unauth_named": [au(ALLOW[0], authenticated=False), au(ALLOW[1], authenticated=False, domain=None)],
    }


def _bodies(needle: str, max_body: int, max_tok: int):
    """body class -> [(label, raw bytes, token or None)]; every body that can carries the per-request needle."""
    def j(obj):
        return json.dumps(obj).encode()

    def padded(obj, size):
        raw = j(obj)
        return raw[:-1] + b" " * (size - len(raw)) + raw[-1:]

    t = needle
    long_ok = t + "x" * (max_tok - len(t))
    return {
        "valid": [("plain", j({"token": t}), t), ("extra-keys", j({"token": t, "claims": {"a": 1}, "x": None}), t),
                  ("unicode", j({"token": "tök€n " + t}), "tök€n " + t),
                  ("raw-utf8", ('{"token":"ключ-' + t + '"}').encode(), "ключ-" + t),
                  ("ws", b' \n\t{ "token" :\r\n "' + t.encode() + b'" } ', t),
                  ("punct", j({"token": t + "+/=:;,"}), t + "+/=:;,"), ("dots1", j({"token": t + ".x y"}), t + ".x y")],
        "valid_edge": [("tok-at-cap", j({"token": long_ok}), long_ok),
                       ("body-at-cap", padded({"token": t}, max_body), t)],
        "near_jws": [("2seg", j({"token": t + ".def"}), t + ".def"), ("4seg", j({"token": "a.b.c." + t}), "a.b.c." + t),
                     ("tilde", j({"token": t + "~1.seg.seg"}), t + "~1.seg.seg"),
                     ("slash", j({"token": "v1." + t + "/abc.def"}), "v1." + t + "/abc.def")],
        "jws": [("real", j({"token": "eyJhbGciOiJIUzI1NiJ9.eyJzdWIiOiJ4In0." + t}), "eyJhbGciOiJIUzI1NiJ9.eyJzdWIiOiJ4In0." + t),
                ("short", j({"token": t + ".b.c"}), t + ".b.c"), ("b64url", j({"token": "A-_9." + t + "_-.c-_"}), "A-_9." + t + "_-.c-_")],
        "jws_unsigned": [("algnone", j({"token": "eyJhbGciOiJub25lIn0." + t + "."}), "eyJhbGciOiJub25lIn0." + t + "."),
                         ("short", j({"token": "a." + t + "."}), "a." + t + ".")],
        "oversized": [("cap+1", padded({"token": t}, max_body + 1), t), ("100k", j({"token": t, "pad": "p" * 100_000}), t),
                      ("hugetok", j({"token": t + "x" * 100_000}), t)],
        "nonjson": [("empty", b"", None), ("text", b"token=" + t.encode(), t), ("open", b'{"token": "' + t.encode(), t),
                    ("pyrepr", b"{'token': '" + t.encode() + b"'}", t), ("trailing", j({"token": t}) + b" x", t),
                    ("two", j({"token": t}) + j({"token": t}), t)],
        "nonutf8": [("ff", b'{"token": "\xff\xfe' + t.encode() + b'"}', t), ("lone", b"\xff", None),
                    ("cut", '{"token": "\u00e9'.encode()[:-1] + t.encode() + b'"}', t)],
        # (a UTF-16/32 encoded JSON document is decoded by the JSON parser and is a usable body; the statement does
        #  not call it malformed, so it is not exercised as such)
        "nonobject": [("list", j([{"token": t}]), t), ("string", j(t), t), ("number", b"123", None), ("null", b"null", None),
                      ("true", b"true", None), ("liststr", j(["token", t]), t)],
        "missing_key": [("empty", b"{}", None), ("nottoken", j({"nottoken": t}), t), ("Token", j({"Token": t}), t),
                        ("token-sp", j({"token ": t}), t), ("nested", j({"body": {"token": t}}), t)],
        "wrongtype": [("int", j({"token": 123}), None), ("list", j({"token": [t]}), t), ("obj", j({"token": {"token": t}}), t),
                      ("null", j({"token": None}), None), ("true", j({"token": True}), None), ("float", j({"token": 1.5}), None),
                      ("nan", b'{"token": NaN}', None)],
        "empty_token": [("empty", j({"token": ""}), None), ("empty+", j({"token": "", "t": t}), t)],
        "overlong": [("cap+1", j({"token": long_ok + "y"}), long_ok + "y"), ("7000", j({"token": t + "z" * 7000}), t)],
        "surrogate": [("lead", b'{"token":"\\ud800' + t.encode() + b'"}', t), ("trail", b'{"token":"' + t.encode() + b'\\udfff"}', t)],
        "deep": [("brackets", b"[" * 5000, None), ("under-token", b'{"token":' + b"[" * 3000 + b"]" * 3000 + b"}", None),
                 ("objs", b'{"a":' * 1500 + b'"' + t.encode() + b'"' + b"}" * 1500, t)],
    }


def _resolvers():
    """resolver class -> [(label, factory(TokenIdentity, AuthUnavailableError) -> callable(token))]"""
    def ident(ttl):
        def f(TI, AU):
            return lambda tok: TI(principal=PRINCIPAL, token_name=TOKEN_NAME, ttl_seconds=ttl)
        return f

    def raises(make):
        def f(TI, AU):
            def r(tok):
                raise make(tok, AU)
            return r
        return f

    class _Outage(Exception):
        pass

    return {
        "ttl_pos": [("300", ident(300)), ("3600", ident(3600)), ("86400.0", ident(86400.0))],
        "ttl_one": [("1", ident(1))],
        "ttl_huge": [("2^63", ident(2 ** 63)), ("1e30", ident(10 ** 30)), ("1e300", ident(1e300))],
        "ttl_frac": [("0.5", ident(0.5)), ("299.9", ident(299.9))],
        "ttl_zero": [("0", ident(0)), ("0.0", ident(0.0))],
        "ttl_neg": [("-1", ident(-1)), ("-300", ident(-300)), ("-0.5", ident(-0.5))],
        "ttl_negzero": [("-0.0", ident(-0.0))],
        "ttl_nan": [("nan", ident(float("nan")))],
        "ttl_inf": [("inf", ident(float("inf")))],
        "ttl_neginf": [("-inf", ident(float("-inf")))],
        "ttl_bool": [("True", ident(True)), ("False", ident(False))],
        "ttl_str": [("'300'", ident("300")), ("'inf'", ident("inf"))],
        "ttl_none": [("None", ident(None))],
        "none": [("none", lambda TI, AU: (lambda tok: None))],
        "unavailable": [("ra9", raises(lambda tok, AU: AU("mapping store unreachable", retry_after=9))),
                        ("default", raises(lambda tok, AU: AU())),
                        ("ra0", raises(lambda tok, AU: AU("store restarting", retry_after=0))),
                        ("subclass", raises(lambda tok, AU: type("StoreDown", (AU,), {})("down", retry_after=120)))],
        "exception": [("keyerror", raises(lambda tok, AU: KeyError(tok))), ("runtime", raises(lambda tok, AU: RuntimeError("boom"))),
                      ("valueerror", raises(lambda tok, AU: ValueError("cannot look up " + tok))),
                      ("timeout", raises(lambda tok, AU: TimeoutError("store timed out"))),
                      ("oserror", raises(lambda tok, AU: ConnectionRefusedError(111, "refused")))],
        "na": [("na", lambda TI, AU: (lambda tok: None))],
    }


def _strict(raw: bytes):
    def bad(x):
        raise ValueError(x)
    return json.loads(raw.decode("utf-8"), parse_constant=bad)


def _needles(tok: str | None, needle: str | None) -> list[bytes]:
    out = []
    for s in (tok, needle):
        if s:
            for enc in (s.encode("utf-8", "surrogatepass"), json.dumps(s).encode()[1:-1], s.encode("unicode_escape")):
                if enc and enc not in out:
                    out.append(enc)
    if needle:
        # partial disclosure: any 10-character window of the per-request credential core (e.g. a "helpful" token[:12])
        nb = needle.encode()
        for i in range(0, len(nb) - 9):
            if nb[i:i + 10] not in out:
                out.append(nb[i:i + 10])
    return out


def _project(resp, ref404, consulted: int, needles: list[bytes]) -> dict:
    status = resp.status_code
    headers = {k.lower(): v for k, v in dict(resp.headers).items()}
    body = resp.content or b""
    comparable = (status, body, tuple(sorted((k, v) for k, v in headers.items() if k not in ("x-request-id",))))
    ra = headers.get("retry-after")
    retry_after = "none" if ra is None else ("seconds" if re.fullmatch(r"[0-9]+", ra) else "other")
    keys, ident_ok, ttl, strict_json = "na", False, "na", False
    parsed = None
    try:
        parsed = _strict(body)
        strict_json = True
    except Exception:  # noqa: BLE001
        try:
            parsed = json.loads(body.decode("utf-8", "replace"))
        except Exception:  # noqa: BLE001
            parsed = None
    if isinstance(parsed, dict):
        keys = "three" if set(parsed) == {"principal", "token_name", "ttl_seconds"} else "other"
        ident_ok = parsed.get("principal") == PRINCIPAL and parsed.get("token_name") == TOKEN_NAME
        v = parsed.get("ttl_seconds")
        if isinstance(v, bool) or not isinstance(v, (int, float)):
            ttl = "nonnumber" if "ttl_seconds" in parsed else "na"
        elif isinstance(v, float) and not math.isfinite(v):
            ttl = "nonfinite"
        else:
            ttl = "finite_pos" if v > 0 else "nonpos"
    hay = [body] + [str(k).encode("latin-1", "replace") + b": " + str(v).encode("latin-1", "replace") for k, v in headers.items()]
    leak = any(n in h for n in needles for h in hay)
    return {"status": status, "same404": bool(ref404 is not None and comparable == ref404), "consulted": consulted,
            "retry_after": retry_after, "keys": keys, "ident_ok": ident_ok, "ttl": ttl, "strict_json": strict_json,
            "leak": leak}, comparable


def run(ctx: Ctx) -> None:
    warnings.filterwarnings("ignore")
    logging.disable(logging.CRITICAL)
    try:
        with contextlib.redirect_stderr(io.StringIO()):  # falcon prints resolver tracebacks to wsgi.errors
            _run(ctx)
    finally:
        logging.disable(logging.NOTSET)


def _run(ctx: Ctx) -> None:
    quick = ctx.quick
    invs = ["Total", "IdentityOnlyWhenEarned", "ResolverOnlyForAllowlisted", "DisabledIgnoresRequest",
            "OutageNotDefinitive", "RefusalsDefinitive", "CallerGuardFirst"]
    cases = table.enumerate_cases(ctx, "data", "IntrospectEndpoint", invariants=invs)
    ctx.exhaustive = True
    ctx.rule = ("case = (mode, caller class, body class, resolver behaviour) enumerated by TLC from "
                "IntrospectEndpoint!Cases; non-trivial = distinct (worker, concrete caller, concrete body variant, "
                "concrete resolver variant) POSTs executed against the real WSGI app")
    ctx.assume("rate limiter configured to 10^9/s so that 429 (outside the statement) never interferes",
               "an anonymous caller rejected by the authentication layer may be answered 401 by that layer (C20/C21) "
               "instead of 403/404 by the route",
               "resolver-supplied strings (principal, token_name, outage detail) never contain the credential; an "
               "'other exception' may carry it in its message",
               "'JWS-shaped' = exactly three dot-separated base64url segments, first two non-empty; a detached-payload "
               "form (a..c) is not exercised either way",
               "byte-identical 404 = status, body and every header except X-Request-ID equal the worker's answer for "
               "an unknown credential")

    from vgi_rpc.http import AuthUnavailableError
    from vgi_rpc.http._testing import make_sync_client
    from vgi_rpc.http.server import _introspect as mod
    from vgi_rpc.http.server._introspect import TokenIdentity
    from vgi_rpc.rpc import RpcServer

    max_body = int(getattr(mod, "_MAX_BODY_BYTES", 8192))
    max_tok = int(getattr(mod, "_MAX_TOKEN_CHARS", 4096))
    world = _World()
    callers = _callers()

    def app(enabled: bool, auth: bool, prefix: str = ""):
        kw = {}
        if enabled:
            kw.update(introspect_resolver=world.resolver, introspect_principals=list(ALLOW), introspect_rate_limit=10 ** 9)
        if auth:
            kw["authenticate"] = world.authenticate
        return make_sync_client(RpcServer(_Svc, _Impl()), token_key=b"k" * 32, prefix=prefix, **kw)

    prefixes = [""] if quick else ["", "/vgi"]
    apps = {(en, au, p): app(en, au, p) for en in (True, False) for au in (True, False) for p in prefixes}

    def post(client, prefix, caller_key, raw):
        h = {"Content-Type": "application/json"}
        if caller_key is not None:
            h["X-Caller"] = caller_key
        return client.post(f"http://x{prefix}/__introspect_token__", content=raw, headers=h)

    # reference 404: what an allowlisted caller gets for an unknown credential, per worker
    world.auth_table = {"ref": callers["allow"][0]}
    ref404 = {}
    for p in prefixes:
        world.behaviour = lambda tok: None
        r = post(apps[(True, True, p)], p, "ref", json.dumps({"token": "reference-unknown-credential"}).encode())
        o, comparable = _project(r, None, 0, [])
        if o["status"] != 404:
            ctx.violation("Unresolved404", {"mode": "enabled", "caller": "allow", "body": "valid", "res": "none",
                                           "variant": "reference"}, {"observed": o})
        ref404[p] = comparable

    resolvers = _resolvers()
    obs: list[dict] = []
    nvar = 2 if quick else 99
    serial = 0
    for cj in cases:
        c = cj["case"]
        enabled = c["mode"] == "enabled"
        auth = c["caller"] != "anon_noauth"
        cvars = callers[c["caller"]]
        rvars = resolvers[c["res"]]
        # guards that fire before the subject is looked at need fewer concrete variants of what follows
        light = cj["exp"]["outcome"] in ("auth_layer", "not_enabled", "forbidden")
        for p in prefixes:
            client = apps[(enabled, auth, p)]
            serial += 1
            needle = "cred-%06d-%08x" % (serial, ctx.rng.getrandbits(32))
            bvars = _bodies(needle, max_body, max_tok)[c["body"]]
            n_b = min(len(bvars), 1 if (light and quick) else nvar)
            n_c = min(len(cvars), nvar if not quick else (3 if light else 1))
            n_r = min(len(rvars), 1 if light else nvar)
            combos = [(ci, bi, ri) for bi in range(n_b) for ci in range(n_c) for ri in range(n_r)]
            if len(combos) > (4 if quick else 24):
                combos = ctx.rng.sample(combos, 4 if quick else 24)
            for ci, bi, ri in combos:
                who = cvars[ci]
                blabel, raw, tok = bvars[bi]
                rlabel, factory = rvars[ri]
                world.auth_table = {} if who in (None, "reject") else {"c": who}
                world.behaviour = factory(TokenIdentity, AuthUnavailableError)
                del world.calls[:]
                try:
                    r = post(client, p, None if who is None else "c", raw)
                except Exception as e:  # noqa: BLE001  -- an exception escaping the WSGI app is a 500 to the caller
                    ctx.violation("AdmissibleStatus", {**c, "variant": f"{blabel}/{rlabel}", "escaped": type(e).__name__},
                                  {"exc": repr(e)})
                    continue
                o, _ = _project(r, ref404[p], len(world.calls), _needles(tok, needle if needle.encode() in raw else None))
                key = [c["mode"], auth, p, c["caller"], ci, c["body"], blabel, c["res"], rlabel]
                ctx.case(key)
                obs.append({"case": c, "obs": o, "_k": key, "_body": raw[:120]})
    for o in obs[:: max(1, len(obs) // 5)][:5]:
        ctx.sample({"abstract": o["case"], "concrete": o["_k"], "body_head": repr(o["_body"]), "observed": o["obs"]})
    bad = table.judge(ctx, "data", "IntrospectEndpoint", [{"case": o["case"], "obs": o["obs"]} for o in obs])
    classes: dict[str, int] = {}
    for idx, clauses in bad:
        o = obs[idx]
        for cl in clauses:
            k = f"{cl} caller={o['case']['caller']} body={o['case']['body']} res={o['case']['res']} status={o['obs']['status']}"
            classes[k] = classes.get(k, 0) + 1
            ctx.violation(cl, {**o["case"], "variant": f"{o['_k'][6]}/{o['_k'][8]}"},
                          {"concrete": o["_k"], "body_head": repr(o["_body"]), "observed": o["obs"]})
    ctx.extra["failed_clause_classes"] = classes
