------------------------------- MODULE Unauthorized -------------------------------
(* C21 -- the shape of every authentication rejection (docs/unauthorized-spec.md), as a decision table over
   (service configuration, authenticator composition, what every authenticator does on this request,
   Accept header, route).

   An authenticator composition is a tree:
       [k |-> "leaf",   impl, decl, out]          one authenticate callback; `out` = what it does on this request
       [k |-> "chain",  ms |-> <<node, ...>>]      chain_authenticate (OR: first acceptance wins)
       [k |-> "reqall", gate, inner]               require_all (AND: gate first, then inner; inner may be [k |-> "none"])
   impl says which real authenticator stands behind the node ("stub" = header-driven stub; "bearer" =
   bearer_authenticate_static; "xfcc" = mtls_authenticate_xfcc; "pem" = mtls_authenticate on a PEM header; gates: "stubgate", "proof_require",
   "proof_allow" = proxy_proof_gate);  decl = the callable declares a proxy-injected header.

   Outcomes:  ok      accept                               miss/inv/exp/scope/proxy/unauth  AuthFailure(reason)
              ve      bare ValueError                      pe      bare PermissionError
              proof   ProofError (a PermissionError)       down    AuthUnavailableError (outage)
              bogus   AuthFailure carrying a reason that is not a member of the closed set
              ve_sub  a ValueError subclass (UnicodeDecodeError)   pe_attr  a PermissionError that declares a reason
   ValueError-class outcomes make a chain try the next alternative, PermissionError-class ones and outages
   propagate.  Eval is the composition semantics of §3.1 of the document.                                  *)
EXTENDS Naturals, Sequences, FiniteSets

CONSTANTS Outs,        \* outcome alphabet of stub leaves (subset of AllOuts)
          Outs3,       \* smaller alphabet used inside chains of three and nested compositions
          Deep         \* TRUE: also chains of 3 and nested compositions

Closed == {"missing_credential", "invalid_credential", "expired_credential", "insufficient_scope",
           "proxy_required", "unauthorized"}
AllOuts == {"ok", "miss", "inv", "exp", "scope", "proxy", "unauth", "ve", "pe", "proof", "down", "bogus", "ve_sub", "pe_attr"}
Reason(o) == CASE o = "miss" -> "missing_credential" [] o = "inv" -> "invalid_credential"
               [] o = "exp" -> "expired_credential"  [] o = "scope" -> "insufficient_scope"
               [] o = "proxy" -> "proxy_required"    [] o = "unauth" -> "unauthorized"
               [] o = "ve" -> "unauthorized"         [] o = "pe" -> "insufficient_scope"
               [] o = "proof" -> "proxy_required"    [] o = "bogus" -> "unauthorized"
               [] o = "ve_sub" -> "unauthorized"     [] o = "pe_attr" -> "invalid_credential"
               [] OTHER -> "none"
IsPE(o) == o \in {"pe", "proof", "pe_attr"}

\* ---------------------------------------------------------------- composition semantics
Acc == [r |-> "accept", reason |-> "none", pe |-> FALSE, allmiss |-> FALSE]
Down == [r |-> "down", reason |-> "none", pe |-> FALSE, allmiss |-> FALSE]
Rej(reason, pe, allmiss) == [r |-> "reject", reason |-> reason, pe |-> pe, allmiss |-> allmiss]
Combine(codes) == IF \A i \in 1..Len(codes) : codes[i] = "missing_credential" THEN "missing_credential"
                  ELSE LET i == CHOOSE j \in 1..Len(codes) :
                                   codes[j] # "missing_credential" /\ \A l \in 1..(j - 1) : codes[l] = "missing_credential"
                       IN codes[i]

RECURSIVE Eval(_), ChainEval(_, _, _, _)
Eval(n) ==
  CASE n.k = "leaf" -> (IF n.out = "ok" THEN Acc ELSE IF n.out = "down" THEN Down
                        ELSE Rej(Reason(n.out), IsPE(n.out), n.out = "miss"))
    [] n.k = "chain" -> ChainEval(n.ms, 1, <<>>, TRUE)
    [] n.k = "reqall" -> (IF n.gate.out = "fail" THEN Rej("proxy_required", TRUE, FALSE)
                          ELSE IF n.gate.out = "pe" THEN Rej("insufficient_scope", TRUE, FALSE)
                          ELSE IF n.inner.k = "none" THEN Acc ELSE Eval(n.inner))
ChainEval(ms, i, codes, allmiss) ==
  IF i > Len(ms) THEN Rej(Combine(codes), FALSE, allmiss)
  ELSE LET e == Eval(ms[i]) IN
       IF e.r # "reject" \/ e.pe THEN e
       ELSE ChainEval(ms, i + 1, Append(codes, e.reason), allmiss /\ e.allmiss)

CookieLeaf == [k |-> "leaf", impl |-> "cookie", decl |-> FALSE, out |-> "miss"]    \* PKCE's cookie alternative, no cookie sent
EvalTop(c) == IF c.cfg.pkce THEN Eval([k |-> "chain", ms |-> <<c.tree, CookieLeaf>>]) ELSE Eval(c.tree)

RECURSIVE Decl(_)
Decl(n) == CASE n.k = "leaf" -> n.decl
             [] n.k = "chain" -> \E i \in 1..Len(n.ms) : Decl(n.ms[i])
             [] n.k = "reqall" -> n.gate.decl \/ (n.inner.k # "none" /\ Decl(n.inner))
             [] OTHER -> FALSE
Depends(c) == c.cfg.pah \/ c.cfg.ppr \/ Decl(c.tree)
HasChain(c) == c.cfg.pkce \/ c.tree.k = "chain" \/ (c.tree.k = "reqall" /\ c.tree.inner.k = "chain")

\* ---------------------------------------------------------------- case space
Leaf(impl, decl, out) == [k |-> "leaf", impl |-> impl, decl |-> decl, out |-> out]
Stub0(A) == {Leaf("stub", FALSE, o) : o \in A}
StubD(A) == {Leaf("stub", TRUE, o) : o \in A}
Real == {Leaf("bearer", FALSE, o) : o \in {"ok", "miss", "inv"}} \cup {Leaf("xfcc", TRUE, o) : o \in {"ok", "proxy", "inv"}}
        \cup {Leaf("pem", TRUE, o) : o \in {"ok", "proxy", "inv", "exp"}}       \* mtls_authenticate(check_expiry=TRUE)
Leaves == Stub0(Outs) \cup StubD(Outs) \cup Real
Chain(ms) == [k |-> "chain", ms |-> ms]
None == [k |-> "none"]
Gates == {[impl |-> "stubgate", decl |-> d, out |-> o] : d \in BOOLEAN, o \in {"pass", "fail", "pe"}}
         \cup {[impl |-> "proof_require", decl |-> TRUE, out |-> o] : o \in {"pass", "fail"}}
         \cup {[impl |-> "proof_allow", decl |-> FALSE, out |-> o] : o \in {"pass", "unproven"}}
ReqAll(g, i) == [k |-> "reqall", gate |-> g, inner |-> i]

\* (two real leaves of the same kind read the same request header, so their outcomes are not independent)
Chains2 == {Chain(<<q[1], q[2]>>) : q \in {p \in (Stub0(Outs) \cup Real) \X (Stub0(Outs) \cup Real) :
                                                p[2].impl = "stub" \/ p[2].impl # p[1].impl}}
           \cup {Chain(<<a, b>>) : a \in StubD(Outs3), b \in Stub0(Outs3)}
           \cup {Chain(<<a, b>>) : a \in Stub0(Outs3), b \in StubD(Outs3)}
DeclOuts == {"miss", "exp", "pe"} \cap Outs
NestOuts == IF Deep THEN Outs3 ELSE {"ok", "miss", "inv", "ve", "pe"} \cap Outs
Chains3 == {Chain(<<a, b, c>>) : a \in Stub0(Outs3), b \in Stub0(Outs3), c \in Stub0(Outs3) \cup {Leaf("bearer", FALSE, "miss")}}
           \cup {Chain(<<a, b, c>>) : a \in StubD(DeclOuts), b \in Stub0(DeclOuts), c \in Stub0(DeclOuts)}
           \cup {Chain(<<a, b, c>>) : a \in Stub0(DeclOuts), b \in StubD(DeclOuts), c \in Stub0(DeclOuts)}
           \cup {Chain(<<a, b, c>>) : a \in Stub0(DeclOuts), b \in Stub0(DeclOuts), c \in StubD(DeclOuts)}
ReqAlls == {ReqAll(g, i) : g \in Gates, i \in {None} \cup Leaves}
Nested == {ReqAll(g, Chain(<<a, b>>)) : g \in Gates, a \in Stub0(Outs3), b \in Stub0(Outs3)}
          \cup {Chain(<<ReqAll(g, a), b>>) : g \in Gates, a \in Stub0(Outs3), b \in Stub0(Outs3)}
          \cup {Chain(<<a, ReqAll(g, b)>>) : g \in Gates, a \in Stub0(Outs3), b \in Stub0(Outs3)}
\* a chain used as one alternative of another chain (its combined AuthFailure is what the outer chain sees)
ChainInChain == {Chain(<<Chain(<<a, b>>), c>>) : a \in Stub0(NestOuts), b \in Stub0(NestOuts), c \in Stub0(NestOuts)}
                \cup {Chain(<<a, Chain(<<b, c>>)>>) : a \in Stub0(NestOuts), b \in Stub0(NestOuts), c \in Stub0(NestOuts)}
Trees == Leaves \cup Chains2 \cup ReqAlls \cup ChainInChain \cup (IF Deep THEN Chains3 \cup Nested ELSE {})

Cfgs3 == [pah : BOOLEAN, ppr : BOOLEAN, pkce : BOOLEAN, www : {FALSE}, otel : {FALSE}]
Cfg0 == [pah |-> FALSE, ppr |-> FALSE, pkce |-> FALSE, www |-> FALSE, otel |-> FALSE]
CfgPah == [Cfg0 EXCEPT !.pah = TRUE]
\* www: OAuth resource metadata without the browser flow (a WWW-Authenticate challenge on every 401);
\* otel: OpenTelemetry instrumentation (an auth-failure callback runs inside the rejection path)
Cfgs == Cfgs3 \cup {[Cfg0 EXCEPT !.www = TRUE], [Cfg0 EXCEPT !.otel = TRUE], [CfgPah EXCEPT !.www = TRUE, !.otel = TRUE]}
Accepts == {"absent", "any", "json", "html", "html_mixed", "arrow", "text_plain", "xml", "json_q", "empty"}
Routes == {"unary", "init", "landing", "describe", "session", "exchange", "upload", "introspect_token", "foreign"}
WantsHtml(a) == a \in {"html", "html_mixed"}
\* detail: the text the rejecting stub puts into its exception ("shared" = the same text for every reason, "unique" = a
\* text no other request used); cache: "flooded" = asked after the service has rendered more distinct (reason, detail)
\* pairs than its rendered-body cache holds
Details == {"default", "shared", "empty", "special", "unique"}
\* the rendering / configuration dimensions are crossed with a small set of compositions only
SmallTrees == {t \in Leaves : t.out \in {"miss", "exp", "pe", "proof", "down", "ve", "ok"} \cap (Outs \cup {"ok"})}
              \cup {Chain(<<Leaf("stub", FALSE, "miss"), Leaf("xfcc", TRUE, "proxy")>>),
                    Chain(<<Leaf("bearer", FALSE, "miss"), Leaf("stub", FALSE, "miss")>>),
                    ReqAll([impl |-> "proof_require", decl |-> TRUE, out |-> "fail"], Leaf("bearer", FALSE, "miss")),
                    ReqAll([impl |-> "proof_require", decl |-> TRUE, out |-> "pass"], Leaf("bearer", FALSE, "inv")),
                    ReqAll([impl |-> "proof_allow", decl |-> FALSE, out |-> "unproven"], Leaf("bearer", FALSE, "miss")),
                    ReqAll([impl |-> "stubgate", decl |-> TRUE, out |-> "pass"], Leaf("stub", FALSE, "exp"))}
StubTrees == {t \in SmallTrees : t.k = "leaf" /\ t.impl = "stub" /\ ~t.decl}
Cases == [cfg : {Cfg0}, tree : Trees, accept : {"any"}, route : {"unary"}, detail : {"default"}, cache : {"fresh"}]
         \cup [cfg : Cfgs, tree : SmallTrees, accept : Accepts, route : {"unary"}, detail : {"default"}, cache : {"fresh"}]
         \cup [cfg : {Cfg0, CfgPah}, tree : StubTrees, accept : {"any", "html", "json_q"}, route : {"unary"},
                detail : Details, cache : {"fresh", "flooded"}]
         \cup (IF Deep THEN [cfg : {g \in Cfgs : ~g.pkce}, tree : SmallTrees, accept : Accepts, route : Routes,
                              detail : {"default"}, cache : {"fresh"}]
                     ELSE [cfg : {Cfg0, CfgPah}, tree : SmallTrees, accept : {"any", "html"}, route : Routes,
                           detail : {"default"}, cache : {"fresh"}])

\* "foreign": the authenticator accepts and a resource behind it answers falcon.HTTPUnauthorized -- a 401 of the
\* service that did not come from the authenticate callback (unclassified => "unauthorized")
EvalReq(c) == LET e == EvalTop(c) IN
              IF c.route = "foreign" /\ e.r = "accept" THEN Rej("unauthorized", FALSE, FALSE) ELSE e

Expected(c) == LET e == EvalReq(c) IN
  [r |-> e.r, reason |-> e.reason, allmiss |-> e.allmiss, pe |-> e.pe, depends |-> Depends(c), html |-> WantsHtml(c.accept)]

\* ---------------------------------------------------------------- table sanity (TLC, every case)
ReasonInClosedSet(c) == EvalTop(c).r = "reject" => EvalTop(c).reason \in Closed
PkceTransparent(c) == LET a == Eval(c.tree) b == Eval(Chain(<<c.tree, CookieLeaf>>)) IN a.r = b.r /\ a.reason = b.reason
MissingOnlyIfAllMissing(c) == LET e == EvalTop(c) IN (e.r = "reject" /\ e.reason = "missing_credential") <=> (e.r = "reject" /\ e.allmiss)
GateFailureIsProxyRequired(c) == (c.tree.k = "reqall" /\ c.tree.gate.out = "fail") =>
                                   (EvalTop(c).r = "reject" /\ EvalTop(c).reason = "proxy_required")
OutageNeverRejects(c) == (c.tree.k = "leaf" /\ c.tree.out = "down") => EvalTop(c).r = "down"
AllowGateNeverDeclares(c) == (c.tree.k = "reqall" /\ c.tree.gate.impl = "proof_allow") => ~c.tree.gate.decl

\* ---------------------------------------------------------------- judging what the real code did
(* observation o = [status, hreason, ctype, breason, berror, nostore, phdr, bhint, hhtml, retry, creason, cerr]
     status    HTTP status                         hreason  VGI-Auth-Reason header value ("" = absent)
     ctype     "json" | "html" | "other"           breason  `reason` of the JSON body ("" = none / not JSON)
     berror    JSON body has error = "unauthorized"     nostore  Cache-Control contains no-store
     phdr      VGI-Auth-Proxy-Required header ("" = absent)      bhint  JSON body carries a non-empty proxy_hint
     hhtml     the HTML page carries the proxy note block        retry  Retry-After present
     creason   reason of the error the real client raises for this response body ("" = none raised)
     cerr      type name of what the client raised                                                       *)
Viol(name, ok) == IF ok THEN {} ELSE {name}
NotePresent(o) == o.phdr # "" \/ o.bhint \/ o.hhtml
Conforms(c, o) ==
  LET e == EvalReq(c) IN
  IF e.r = "reject" THEN
         Viol("Is401", o.status = 401)
    \cup Viol("ReasonHeader", o.hreason # "")
    \cup Viol("ReasonClosedSet", o.hreason \in Closed)
    \cup Viol("JsonEnvelopeSameReason", (~WantsHtml(c.accept)) => (o.ctype = "json" /\ o.breason = o.hreason /\ o.berror))
    \cup Viol("NoStore", o.nostore)
    \cup Viol("ProxyNoteOnlyIfProxyConfig", NotePresent(o) => Depends(c))
    \cup Viol("ChainMissingOnlyIfAll", (o.hreason = "missing_credential" /\ HasChain(c)) => e.allmiss)
    \cup Viol("ClientAuthError", o.status = 401 => o.cerr = "AuthenticationError")
    \cup Viol("ClientClosedSet", o.status = 401 => o.creason \in Closed)
    \cup Viol("Doc_ReasonAsClassified", o.hreason = e.reason)
    \cup Viol("Doc_ProxyNotePresent", Depends(c) => (o.phdr = "true" /\ (o.ctype = "json" => o.bhint) /\ (o.ctype = "html" => o.hhtml)))
    \cup Viol("Doc_ClientReasonRoundTrip", (o.status = 401 /\ o.ctype = "json") => o.creason = o.hreason)
  ELSE IF e.r = "down" THEN
         Viol("Outage503", o.status = 503)
    \cup Viol("Doc_OutageRetryAfter", o.retry)
  ELSE   Viol("Doc_AcceptedNot401", o.status # 401 /\ o.status # 503)
    \cup Viol("Doc_NoAuthHeadersOnSuccess", o.hreason = "" /\ o.phdr = "")

\* service-level: the proxy note is identical on every 401 of one service
\* o = [notes |-> sequence of note identities (0 = no note, k = k-th distinct (header, text) seen)]
ConformsSvc(c, o) == Viol("ProxyNoteUniform", \A i, j \in 1..Len(o.notes) : o.notes[i] = o.notes[j])

\* ---------------------------------------------------------------- client side: arbitrary 401 bodies
BodyShapes == {"envelope", "envelope_extra", "envelope_bom", "envelope_utf16", "obj_no_reason", "obj_reason_int",
               "obj_reason_null", "obj_reason_list", "obj_reason_obj", "obj_reason_unknown", "obj_reason_upper",
               "obj_reason_padded", "obj_reason_nul", "obj_detail_nonstr", "obj_long_detail", "array", "string",
               "number", "null", "true", "nan", "bignum", "html_doctype", "html_tag", "html_upper", "text", "empty",
               "whitespace", "binary", "invalid_utf8", "arrow_ipc", "deep_array", "deep_object", "dup_keys"}
FaithfulShapes == {"envelope", "envelope_extra", "envelope_bom", "envelope_utf16", "obj_detail_nonstr", "obj_long_detail"}
Entry == {"parse", "unary", "stream", "stream_header", "exchange_turn", "continuation", "introspect", "upload_urls"}
ClientCases == [shape : BodyShapes, reason : Closed, entry : Entry]
ClientExpected(c) == [faithful |-> c.shape \in FaithfulShapes]
(* o = [raised: type name of what the client raised ("" if nothing), reason: its .reason ("" if none)] *)
ClientConforms(c, o) ==
       Viol("ClientAuthError", o.raised = "AuthenticationError")
  \cup Viol("ClientClosedSet", o.reason \in Closed)
  \cup Viol("Doc_ClientReasonFromEnvelope", c.shape \in FaithfulShapes => o.reason = c.reason)
ClientSane(c) == c.reason \in Closed

\* ---------------------------------------------------------------- one enumeration / one judging run for all three tables
AllCases == {[side |-> "server", c |-> x] : x \in Cases} \cup {[side |-> "client", c |-> x] : x \in ClientCases}
AllExpected(a) == IF a.side = "server" THEN Expected(a.c) ELSE ClientExpected(a.c)
A_ReasonInClosedSet(a) == a.side = "server" => ReasonInClosedSet(a.c)
A_PkceTransparent(a) == a.side = "server" => PkceTransparent(a.c)
A_MissingOnlyIfAllMissing(a) == a.side = "server" => MissingOnlyIfAllMissing(a.c)
A_GateFailureIsProxyRequired(a) == a.side = "server" => GateFailureIsProxyRequired(a.c)
A_OutageNeverRejects(a) == a.side = "server" => OutageNeverRejects(a.c)
A_AllowGateNeverDeclares(a) == a.side = "server" => AllowGateNeverDeclares(a.c)
A_ClientSane(a) == a.side = "client" => ClientSane(a.c)
AllConforms(c, o) == CASE o.side = "server" -> Conforms(c, o)
                       [] o.side = "service" -> ConformsSvc(c, o)
                       [] o.side = "client" -> ClientConforms(c, o)
=====================================================================================
