---------------------------------- MODULE HookLifeTrace ----------------------------------
(* Trace validation for HookLife.  A recorded real execution is
       [tr, hooks, script, events, strace, obsd, based, dropped]
   events = the client-observable history of running `script` over a real connection (vocabulary of HookLife!hist),
   strace = the server-side event sequence recorded by the recording hooks and the instrumented service, in the
            vocabulary of HookLife!strace (token identity as the serial of the start that handed the token out;
            -1 = an object no start of that hook handed out),
   obsd   = the detailed client history of this run (results, batch values, error types and messages, one string
            per entry), based = the same for the same script on the same transport with NO hook registered,
   dropped = the script ended with the client vanishing ("d").

   The model is deterministic for a given (tr, hooks, script): TLC runs it, prunes behaviours whose hist stops being
   a prefix of the logged events, and when the model has made every call with hist = events it compares the real
   server trace with the model's.  The verdict clauses are the monitor's (HookLife!Monitor, evaluated on the REAL
   trace, independent of the model) and Transparent; a real trace that merely differs from the model's while every
   clause holds is drift ("TraceDiffers"), as is a client history the model cannot reproduce (not accepted).
   Registers: 3*tid -> 1 if accepted; 3*tid+1 -> set of failed clause names; 3*tid+2 -> longest prefix matched. *)
EXTENDS HookLife, Json, IOUtils, TLCExt
Traces == JsonDeserialize(IOEnv.TRACE_FILE)
VARIABLE tid
tvars == <<vars, tid>>
TScript == Traces[tid].script
TraceInit == /\ tid \in 1..Len(Traces)
             /\ tr = Traces[tid].tr /\ hooks = Traces[tid].hooks
             /\ script = <<>> /\ ip = 0 /\ pc = "idle" /\ st = NoStream /\ hist = <<>> /\ strace = <<>> /\ ntok = 0
             /\ mon = MonInit(Len(Traces[tid].hooks))
\* the next call is the one the real history made (run with MaxCalls >= the script length, FullPairs = TRUE and
\* PairHooks = HookCfgs so that MayCall / MayFollow do not restrict a given script)
TraceNext == /\ \/ (pc = "idle" /\ ip < Len(TScript) /\ StartCall(TScript[ip + 1]))
                \/ Tick \/ Close \/ Cancel \/ Drop
             /\ UNCHANGED tid
TraceSpec == TraceInit /\ [][TraceNext]_tvars
TDone == pc \in {"idle", "gone"} /\ ip = Len(TScript)
Logged == Traces[tid].events
IsPrefix == Len(hist) <= Len(Logged) /\ \A i \in 1..Len(hist) : hist[i] = Logged[i]

\* clauses that need no model: the monitor on the real trace, and transparency for the client
Free(t) == MonitorLax(t.strace, Len(t.hooks), t.dropped) \cup Cl("Transparent", t.obsd = t.based)
Track == /\ IsPrefix
         /\ TLCSet(3 * tid + 2, IF TLCGet(3 * tid + 2) < Len(hist) THEN Len(hist) ELSE TLCGet(3 * tid + 2))
         /\ IF TDone /\ hist = Logged
            THEN LET bad == Free(Traces[tid]) \cup Cl("TraceDiffers", Traces[tid].strace = strace) IN
                 \* (the model admits two endings for a vanished client: the behaviour that matches the real trace counts)
                 /\ TLCSet(3 * tid + 1, IF TLCGet(3 * tid) = 1 /\ "TraceDiffers" \in bad THEN TLCGet(3 * tid + 1) ELSE bad)
                 /\ TLCSet(3 * tid, 1)
            ELSE TRUE
ASSUME \A i \in 1..Len(Traces) : TLCSet(3 * i, 0) /\ TLCSet(3 * i + 1, {}) /\ TLCSet(3 * i + 2, 0)
Verdicts == \A i \in 1..Len(Traces) :
   PrintT("@@J@@" \o ToJson([tid |-> i, accepted |-> TLCGet(3 * i) = 1,
                             bad |-> IF TLCGet(3 * i) = 1 THEN TLCGet(3 * i + 1) ELSE Free(Traces[i]),
                             matched |-> TLCGet(3 * i + 2), len |-> Len(Traces[i].events)]))
=========================================================================================
