-------------------------------- MODULE ConnIsoTrace --------------------------------
(* Trace validation for ConnIso: every recorded real execution (one scheduler step of one real thread per event) must be
   a behaviour of ConnIso!Spec.  A trace = [s, mx, sh, ev, obs]: s = scripts (sequence indexed by connection), mx, ev = the
   steps in the order they were taken, [k |-> "L" | "C" | "H" | "X", c |-> connection (0 for the loop), lab |-> the park
   label the real thread reached], obs = per connection the client-observed history <<kind, value>>.
   Registers: 2*tid -> number of events matched; 2*tid+1 -> clause names false in some state on the way, plus "obs" when
   the trace was matched to its end but the model's histories differ from the recorded ones.                          *)
EXTENDS ConnIso, Json, IOUtils, TLCExt
Traces == JsonDeserialize(IOEnv.TRACE_FILE)
VARIABLES tid, l
tvars == <<vars, tid, l>>
LoopLab(p) == CASE p = "start" -> "start" [] p = "accept" -> "accept" [] p = "done" -> "EXIT" [] OTHER -> "acq"
HLab(p) == CASE p = "fin" -> "acq" [] p = "done" -> "EXIT" [] OTHER -> p
CLab(p) == CASE p = "wait" -> "io" [] p = "done" -> "EXIT" [] OTHER -> p
TraceInit == tid \in 1..Len(Traces) /\ l = 1 /\ InitWith(Traces[tid].s, Traces[tid].mx, {Traces[tid].sh[i] : i \in 1..Len(Traces[tid].sh)})
Evs == Traces[tid].ev
Ev == Evs[l]
TraceNext == /\ l <= Len(Evs) /\ l' = l + 1 /\ UNCHANGED tid
             /\ CASE Ev.k = "L" -> L /\ LoopLab(loop') = Ev.lab
                  [] Ev.k = "C" -> C(Ev.c) /\ CLab(cl'[Ev.c]) = Ev.lab
                  [] Ev.k = "H" -> H(Ev.c) /\ HLab(h'[Ev.c]) = Ev.lab
                  [] OTHER -> CloseListener
TraceSpec == TraceInit /\ [][TraceNext]_tvars
AtEnd == l = Len(Evs) + 1
ObsOK == \A c \in Conns : obs[c] = Traces[tid].obs[c]
Track == /\ TLCSet(2 * tid, IF TLCGet(2 * tid) < l THEN l ELSE TLCGet(2 * tid))
         /\ TLCSet(2 * tid + 1, TLCGet(2 * tid + 1) \cup Clauses \cup (IF AtEnd /\ ~ObsOK THEN {"obs"} ELSE {}))
ASSUME \A i \in 1..Len(Traces) : TLCSet(2 * i, 0) /\ TLCSet(2 * i + 1, {})
Verdicts == \A i \in 1..Len(Traces) :
   PrintT("@@J@@" \o ToJson([tid |-> i, matched |-> TLCGet(2 * i) - 1, len |-> Len(Traces[i].ev), bad |-> TLCGet(2 * i + 1)]))
=====================================================================================
