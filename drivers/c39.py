"""C39 -- __describe__ faithful, protocol hash a stable identity.  Spec: spec/data/Describe.tla."""
import json
import os
import subprocess
import sys
import warnings

import pyarrow as pa

from vf import table, world
from vf.core import Ctx
from vf.tlc import MachineryError, Raw

from drivers import _data_describe as dd
from drivers._data_enum import enumerate_families

META = {
    "engine": "data",
    "text": "Describe.tla defines service definitions over every construct rpc_methods/build_describe_batch/"
            "compute_protocol_hash read (protocol name/doc/version/module, inherited and private members, a varied method: "
            "6 kinds incl. raw-StreamState and bare Stream x parameter list over 17 annotation forms x result type x 4 header "
            "kinds incl. a field-less one x state class x doc x keyword-only x Optional spelling, an optional fixed second "
            "method), the single-point edits "
            "(rename, retype, nullability flip, kind change, parameter add/remove/swap, header add/remove/change, "
            "state-class swap, docstring / default edits, method order, server id, other process, other implementation, "
            "declared version), the describe payload Payload(d), and ONE classification table Wire(edit) whose sanity "
            "invariants tie it to Payload (relevant edits change the payload, irrelevant ones do not).  TLC enumerates "
            "every (definition, applicable edit); the driver renders both definitions to Python source, builds real "
            "RpcServers, fetches __describe__ through the real serve path (and HTTP), abstracts the returned "
            "ServiceDescription back into Payload's vocabulary, computes hashes (second interpreter with a different "
            "hash seed for the cross-process clause) and TLC judges every observation with Describe!Conforms.",
    "note": "Trusted: the rendering of an abstract definition into Python source and the mapping of Arrow types back to "
            "type names (drivers/_data_describe.py).  Edits that change what a parameter carries without changing any "
            "describe field (bytes <-> dataclass, both 'binary') and edits of the declared protocol_version are "
            "classified 'either' (DESIGN 7a) and only counted.  Runtime stream output / exchange input schemas are not "
            "part of describe and not covered.",
}


def S(xs) -> Raw:
    return Raw("{" + ",".join('"' + x + '"' for x in xs) + "}")


def _describe_bytes(server, md=None):
    """__describe__ through the real serve loop on byte buffers -> (ServiceDescription | None, error)"""
    from vgi_rpc.introspect import parse_describe_batch

    out, _unread, exc = world.serve_one_bytes(server, world.raw_request(b"__describe__", pa.schema([]), {}, md=md or {}))
    streams = world.read_streams(out)
    if exc is not None or not streams or not streams[0]["batches"]:
        return None, repr(exc) if exc is not None else "no response"
    err = world.error_of(streams[0])
    if err is not None:
        return None, err
    b, m = streams[0]["batches"][0]
    return parse_describe_batch(b, pa.KeyValueMetadata(m)), None


def run(ctx: Ctx) -> None:
    warnings.filterwarnings("ignore")
    quick = ctx.quick
    if quick:
        types, types2, rets = ["int", "dc", "enum", "fset"], ["int", "dc"], ["int", "enum"]
    else:
        types = ["int", "i32", "str", "float", "bool", "bytes", "list_int", "dc", "enum", "dict", "fset", "list_dc", "list_opt",
                 "newtype", "dc0", "ann_int", "batch"]
        types2, rets = ["int", "dc", "enum"], ["int", "i32", "str", "list_int", "enum", "batch"]
    consts = {"Types": S(types), "Types2": S(types2), "RetTypes": S(rets)}
    invs = ["RelevantChangesPayload", "IrrelevantKeepsPayload", "EitherKeepsPayload", "EditChangesSomething", "EditedWellFormed"]
    cases = enumerate_families(ctx, "data", "Describe", ["\\E d \\in BaseDefs : c \\in CasesOf(d)"], constants=consts,
                               invariants=invs, name="Describe:enumerate")
    ctx.exhaustive = True
    ctx.rule = ("case = (service definition, single-point edit) enumerated by TLC; non-trivial = distinct (definition, "
                "edit, transport) executions: both definitions rendered to source, real RpcServers built, __describe__ "
                "fetched through the real serve path, hashes compared")
    ctx.assume("wire-relevant = changes a field of the describe payload (DESIGN 7a); bytes<->dataclass retypes and "
               "protocol_version edits are 'either'",
               "the cross-process leg builds the same source in a fresh interpreter with PYTHONHASHSEED=4242",
               "HTTP legs use the in-process falcon test client")

    from vgi_rpc.http import http_introspect
    from vgi_rpc.introspect import introspect
    from vgi_rpc.rpc import make_pipe_pair
    from vgi_rpc.http._testing import make_sync_client

    # ---- cross-process hashes: one child interpreter builds every definition that has a "process" edit
    proc_items = []
    for i, cj in enumerate(cases):
        if cj["case"]["ed"]["e"] == "process":
            proc_items.append([str(i), cj["case"]["d"], "srv-a"])
    child_hash: dict[str, str] = {}
    if proc_items:
        f = ctx.wd.path / "c39_defs.json"
        f.write_text(json.dumps(proc_items))
        env = dict(os.environ)
        env["PYTHONHASHSEED"] = "4242"
        p = subprocess.run([sys.executable, "-m", "drivers._data_describe", str(f)], capture_output=True, text=True,
                           env=env, cwd=str(table.__file__).rsplit("/vf/", 1)[0], timeout=900)
        if p.returncode != 0:
            raise MachineryError(f"child interpreter failed:\n{p.stderr[-3000:]}")
        child_hash = json.loads(p.stdout)

    seen: dict[str, dict] = {}

    def facts(d: dict, sid: str = "srv-a", impl: int = 0, cache: bool = True, sv: str = "") -> dict:
        """Everything observed about one definition (memoised: definitions recur across edits)."""
        key = json.dumps([d, sid, impl, sv], sort_keys=True)
        if cache and key in seen:
            return seen[key]
        try:
            srv = dd.build(d, sid, impl, cache=cache, server_version=sv)
        except Exception as e:  # noqa: BLE001 -- a well-formed definition the library refuses to serve
            r = {"error": f"{type(e).__name__}: {e}"}
            seen[key] = r
            return r
        sd, err = _describe_bytes(srv)
        r = {"hash": srv.protocol_hash, "srv": srv}
        if sd is None:
            r.update(payload={"pname": "", "methods": []}, md_hash="", version="", describe_error=str(err))
        else:
            r.update(payload=dd.abstract_payload(sd), md_hash=sd.protocol_hash, version=sd.protocol_version, sid=sd.server_id)
        # callable under a protocol-version mismatch (mismatching, malformed, absent) when a version is declared
        ok = True
        if dd.VERSION[d["version"]] is not None:
            variants = ({world.K_PROTOVER: b"9.9.9"}, {}, {world.K_PROTOVER: b"not-a-version"}, {world.K_PROTOVER: b"\xff\xfe"})
            for mdv in (variants[:2] if quick else variants):
                sd2, _e = _describe_bytes(srv, md=mdv)
                ok = ok and sd2 is not None and sd2.protocol_hash == srv.protocol_hash
        r["mismatch_ok"] = ok
        if cache:
            seen[key] = r
        return r

    obs: list[dict] = []
    either = {"equal": 0, "different": 0}
    http_every = 40 if quick else 10
    for i, cj in enumerate(cases):
        c, exp = cj["case"], cj["exp"]
        e = c["ed"]["e"]
        f1 = facts(c["d"])
        if e == "server_id":
            f2 = facts(c["d"], sid="a-completely-different-server-id")
        elif e == "impl_swap":
            f2 = facts(c["d"], impl=1)
        elif e == "server_version":
            f2 = facts(c["d"], sv="9.9.9+build.77")
        elif e == "rebuild":
            f2 = facts(c["d"], cache=False)                  # same source, fresh classes, same interpreter
        elif e == "process":
            f2 = dict(f1)
            f2["hash"] = child_hash.get(str(i), "")
        else:
            f2 = facts(exp["d2"])
        ctx.case([c["d"], c["ed"], "serve"])
        if "error" in f1 or "error" in f2:
            ctx.violation("DescribeFaithful", {"edit": e, "class": "definition-refused"},
                          {"case": c, "error": f1.get("error") or f2.get("error")})
            continue
        o = {"p1": f1["payload"], "p2": f2["payload"], "hash_equal": f1["hash"] == f2["hash"],
             "hash_format": bool(dd.HEX64.match(f1["hash"]) and dd.HEX64.match(f2["hash"])),
             "md_hash_ok": f1["md_hash"] == f1["hash"] and (e == "process" or f2["md_hash"] == f2["hash"]),
             "version_ok": f1["version"] == (dd.VERSION[c["d"]["version"]] or "")
             and f2["version"] == (dd.VERSION[exp["d2"]["version"]] or ""),
             "mismatch_ok": bool(f1["mismatch_ok"] and f2["mismatch_ok"])}
        if exp["wire"] == "either":
            either["equal" if o["hash_equal"] else "different"] += 1
        obs.append({"case": c, "obs": o, "_via": "serve"})
        # the same through HTTP (http_introspect) for a sample
        if i % http_every == 0 and e not in ("process",):
            try:
                client = make_sync_client(f2["srv"], token_key=b"k" * 32)
                try:
                    sd = http_introspect(client=client)
                    # ... and __describe__ over HTTP under a mismatching / absent client protocol version
                    http_ok = True
                    if dd.VERSION[exp["d2"]["version"]] is not None:
                        for mdv in ({world.K_PROTOVER: b"9.9.9"}, {}):
                            r = client.post("/__describe__", content=world.raw_request(b"__describe__", pa.schema([]), {}, md=mdv),
                                            headers={"Content-Type": world.ARROW_CT})
                            st = world.read_streams(r.content) if r.status_code == 200 else []
                            http_ok = http_ok and bool(st and st[0]["batches"] and world.error_of(st[0]) is None)
                finally:
                    client.close()
                oh = dict(o)
                oh["p2"] = dd.abstract_payload(sd)
                oh["hash_equal"] = f1["hash"] == sd.protocol_hash
                oh["md_hash_ok"] = sd.protocol_hash == f2["hash"]
                oh["mismatch_ok"] = bool(o["mismatch_ok"] and http_ok)
                ctx.case([c["d"], c["ed"], "http"])
                obs.append({"case": c, "obs": oh, "_via": "http"})
                # the public pipe client: introspect(transport) against serve_one on a pipe pair
                ct, st_ = make_pipe_pair()
                th = world.run_thread(f2["srv"].serve_one, st_, name="c39-pipe")
                try:
                    sdp = introspect(ct)
                finally:
                    th.join(5)
                    ct.close()
                    st_.close()
                op = dict(o)
                op["p2"] = dd.abstract_payload(sdp)
                op["hash_equal"] = f1["hash"] == sdp.protocol_hash
                op["md_hash_ok"] = sdp.protocol_hash == f2["hash"]
                ctx.case([c["d"], c["ed"], "pipe"])
                obs.append({"case": c, "obs": op, "_via": "pipe"})
            except Exception as ex:  # noqa: BLE001
                ctx.violation("DescribeFaithful", {"edit": e, "class": "http-introspect-failed"}, {"case": c, "exc": repr(ex)})
    ctx.extra["either_edits_hash_equal_vs_different"] = either
    ctx.extra["distinct_definitions_built"] = len(seen)
    for o in obs[:: max(1, len(obs) // 4)][:4]:
        ctx.sample({"definition": o["case"]["d"], "edit": o["case"]["ed"], "via": o["_via"], "observed": o["obs"]})
    bad = table.judge(ctx, "data", "Describe", [{"case": o["case"], "obs": o["obs"]} for o in obs], constants=consts, chunk=20000)
    classes: dict[str, int] = {}
    for idx, clauses in bad:
        o = obs[idx]
        for cl in clauses:
            k = f"{cl} edit={o['case']['ed']['e']}:{o['case']['ed']['arg']} via={o['_via']}"
            classes[k] = classes.get(k, 0) + 1
            ctx.violation(cl, {"edit": o["case"]["ed"]["e"], "arg": o["case"]["ed"]["arg"], "via": o["_via"],
                               "kind": o["case"]["d"]["m"]["kind"]},
                          {"case": o["case"], "observed": o["obs"]})
    ctx.extra["failed_clause_classes"] = classes
