"""Decision-table engines.

A table spec ``X.tla`` (no VARIABLES) defines

* ``Cases``            -- the complete abstract input space (records of strings / ints / booleans / sequences),
* ``Expected(c)``      -- the oracle for case c (any JSON-able value),
* ``Conforms(c, o)``   -- the set of names of property clauses that observation ``o`` of case ``c`` violates,
* optional sanity invariants over ``c`` (properties of the table itself, e.g. "no 5xx").

Two wrapper modules are generated here: ``X_Enum`` (TLC enumerates Cases as initial states, checks the
sanity invariants in every one and prints case+oracle as JSON) and ``X_Obs`` (TLC reads the observations
recorded from the real code and judges every one with ``Conforms``).  So the specification both generates
the cases and is the judge of what the implementation did.
"""
from __future__ import annotations

import json
from pathlib import Path

from .core import Ctx
from .tlc import MachineryError, render_cfg, require_ok, run_tlc, sany

ENUM = """---- MODULE {m}_Enum ----
EXTENDS {m}, Json, TLC, Sequences
VARIABLE c
EnumInit == c \\in {cases}
EnumNext == UNCHANGED c
Emit == PrintT("@@J@@" \\o ToJson([case |-> c, exp |-> {expected}(c)]))
{invs}
====
"""

OBS = """---- MODULE {m}_Obs ----
EXTENDS {m}, Json, TLC, IOUtils, Sequences
Obs == JsonDeserialize(IOEnv.OBS_FILE)
VARIABLE i
ObsInit == i \\in 1..Len(Obs)
ObsNext == UNCHANGED i
Judge == LET bad == {conforms}(Obs[i].case, Obs[i].obs) IN
           bad = {{}} \\/ PrintT("@@J@@" \\o ToJson([i |-> i, bad |-> bad]))
====
"""


def enumerate_cases(ctx: Ctx, engine: str, module: str, *, constants: dict | None = None, invariants=(),
                    cases: str = "Cases", expected: str = "Expected", timeout: int = 900, name: str | None = None,
                    emit: bool = True) -> list[dict]:
    wd = ctx.wd.stage(engine)
    invs = "\n".join(f"Inv_{x} == {x}(c)" for x in invariants)
    (wd / f"{module}_Enum.tla").write_text(ENUM.format(m=module, cases=cases, expected=expected, invs=invs))
    sany(wd, f"{module}_Enum")
    cfg = render_cfg(init_next=("EnumInit", "EnumNext"), constants=constants,
                     invariants=[f"Inv_{x}" for x in invariants] + (["Emit"] if emit else []))
    r = run_tlc(wd, f"{module}_Enum", cfg, timeout=timeout, cfg_name=f"{module}_{name or 'enum'}.cfg")
    ctx.add_tlc(name or f"{module}:enumerate", r)
    require_ok(r, f"{module} table enumeration / table invariants {list(invariants)}")
    if emit and len(r.json_lines) != r.distinct:
        raise MachineryError(f"{module}: {r.distinct} cases but {len(r.json_lines)} emitted")
    return r.json_lines


def judge(ctx: Ctx, engine: str, module: str, observations: list[dict], *, constants: dict | None = None,
          conforms: str = "Conforms", timeout: int = 900, chunk: int = 20000) -> list[tuple[int, list[str]]]:
    """TLC evaluates Conforms(case, obs) for every recorded observation.  Returns [(index, clauses)]."""
    wd = ctx.wd.stage(engine)
    (wd / f"{module}_Obs.tla").write_text(OBS.format(m=module, conforms=conforms))
    sany(wd, f"{module}_Obs")
    bad: list[tuple[int, list[str]]] = []
    for off in range(0, len(observations), chunk):
        part = observations[off:off + chunk]
        f = wd / f"obs_{module}_{off}.json"
        f.write_text(json.dumps(part))
        cfg = render_cfg(init_next=("ObsInit", "ObsNext"), constants=constants, invariants=["Judge"])
        r = run_tlc(wd, f"{module}_Obs", cfg, timeout=timeout, env={"OBS_FILE": str(f)},
                    cfg_name=f"{module}_obs.cfg")
        ctx.add_tlc(f"{module}:judge[{off}:{off + len(part)}]", r)
        require_ok(r, f"{module} observation judging")
        if r.distinct != len(part):
            raise MachineryError(f"{module}: judged {r.distinct} of {len(part)} observations")
        ctx.traces_validated += len(part) - len(r.json_lines)
        for j in r.json_lines:
            bad.append((off + j["i"] - 1, list(j["bad"])))
        f.unlink()
    return bad
