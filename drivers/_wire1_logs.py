"""C08: drivers for the three specs of spec/wire:
   LogOrder.tla   -- run a TLC-enumerated call (log emission points x client ops) on real pipe / HTTP sessions
   LogContent.tla -- one message of every (level, text, extra) class at every emission point
   LogPeer.tla    -- a scripted fake peer (raw IPC bytes) against the real client readers."""
import io
import json
import re
import threading

import pyarrow as pa
from pyarrow import ipc

from drivers import _wire1_life as L
from drivers import _wire1_world as W
from vf import world as VW
from vgi_rpc.rpc import AnnotatedBatch, RpcConnection, RpcError, make_pipe_pair

LEVELS = ["ERROR", "WARN", "INFO", "DEBUG", "TRACE"]
TEXTS = {"ascii": "plain text", "empty": "", "unicode": "ünï ✓ 日本語 🚀 ß", "multiline": "line1\nline2\ttab\r\nend",
         "jsonish": '{"a": [1, 2], "q": "\\"x\\""} \\u00e9 %s {0}', "long": "L0ng " * 1000}
EXTRAS = {"none": None, "plain": {"k": "v"}, "many": {"a": "1", "b": "two", "c": "", "d": "x y", "e_f": "{}"},
          "unicode": {"ключ": "значение ✓"}, "emptykey": {"": "e"}, "level": {"level": "lv"},
          "message": {"message": "mm"}, "self": {"self": "me"}, "both": {"level": "l", "message": "m", "k": "v"}}
RESERVED = {"server_id", "request_id"}          # added by the transport; not user extras (DESIGN §7a)
_ID = re.compile(r"^#(\d+)# ")


def via_for(extra: dict | None) -> str:
    return "attr" if extra and ({"level", "message", "self"} & set(extra)) else "kwargs"


def log_spec(n: int, level: str, text: str, extra: dict | None, api: str = "ctx") -> dict:
    return {"id": n, "level": level, "text": text, "extra": extra, "via": via_for(extra), "api": api}


def user_extras(msg) -> dict:
    return {k: v for k, v in (msg.extra or {}).items() if k not in RESERVED}


def content_status(msg, spec: dict) -> str:
    if msg.level.value != spec["level"]:
        return "level"
    if msg.message != spec["text"]:
        return "text"
    if user_extras(msg) != (spec["extra"] or {}):
        return "extra"
    return "intact"


# ------------------------------------------------------------------------------------------------ LogOrder
def order_prog(script: dict, rng) -> tuple[dict, dict]:
    """script (LogOrder!Scripts) -> (program for the real service, {log id: spec})."""
    specs: dict[int, dict] = {}
    counter = [0]
    tkeys = [k for k in TEXTS if k != "empty"]
    xkeys = ["none", "plain", "many", "unicode", "emptykey"]

    def logs(cnt: int) -> list:
        out = []
        for _ in range(cnt):
            counter[0] += 1
            n = counter[0]
            sp = log_spec(n, rng.choice(LEVELS), f"#{n}# " + TEXTS[rng.choice(tkeys)], EXTRAS[rng.choice(xkeys)],
                          api=rng.choice(["ctx", "out"]))          # "out" only takes effect inside process() steps
            specs[n] = sp
            out.append(sp)
        return out

    init_logs = logs(script["n0"])
    steps = []
    for st in script["steps"]:
        pre = logs(st["pre"])
        post = logs(st["post"])
        steps.append({"pre": pre, "act": st["act"], "post": post, "rows": rng.choice([1, 1, 2, 0]), "md": rng.random() < 0.3})
    prog = {"init_logs": init_logs, "init_raise": script["iraise"], "steps": steps,
            "past": "fin" if script["kind"] == "prod" else "emit", "in_rows": 1}
    return prog, specs


def run_order_script(world, script: dict, x: int, prog: dict, specs: dict, timeout: float = 8.0) -> dict:
    W.take(x)
    rv: list = []
    notes: list = []
    kind, http = script["kind"], world.name == "http"

    def see(e: str, n: int = 0, c: str = "") -> None:
        rv.append({"e": e, "n": n, "c": c})

    def on_log(msg) -> None:
        m = _ID.match(msg.message)
        n = int(m.group(1)) if m else 0
        see("L", n, content_status(msg, specs[n]) if n in specs else "garbled")

    def failed(e: BaseException) -> None:
        notes.append(f"{type(e).__name__}: {str(e)[:160]}")
        see("E" if isinstance(e, RpcError) else "X")

    def body():
        px, close, died = world.open(on_log)
        sess = None
        try:
            try:
                r = getattr(px, W.method_name(kind, script["hdr"]))(x=x, prog=json.dumps(prog))
            except Exception as e:  # noqa: BLE001
                failed(e)
                return
            if kind == "unary":
                see("R")
                return
            sess = r
            if sess.header is not None:
                see("H")
            st = {"ended": False, "it": None, "k": 0}
            for op in script["ops"]:
                if op in ("t", "i") and st["ended"]:
                    continue
                try:
                    if op == "t":
                        if kind == "exch":
                            st["k"] += 1
                            ab = sess.exchange(AnnotatedBatch(batch=L.input_batch(x, st["k"], "exact", {"in_rows": 1})))
                        elif not http:
                            ab = sess.tick()
                        else:
                            if st["it"] is None:
                                st["it"] = iter(sess)
                            ab = next(st["it"])
                        see("D", L._ident(ab, x))
                    elif op == "i":
                        if not http or st["it"] is None:
                            st["it"] = iter(sess)
                        for ab in st["it"]:
                            see("D", L._ident(ab, x))
                        see("S")
                        st["ended"] = True
                    elif op in ("c", "w", "x"):
                        if op == "c":
                            sess.close()
                        elif op == "w":
                            sess.__exit__(None, None, None)          # leaving the `with` block
                        else:
                            sess.cancel()
                            st["ended"] = True
                        see("Q")          # the caller has left the session
                except StopIteration:
                    see("S")
                    st["ended"] = True
                except Exception as e:  # noqa: BLE001
                    failed(e)
                    st["ended"] = True
        finally:
            try:
                if sess is not None:
                    sess.close()
            except Exception as e:  # noqa: BLE001
                notes.append(f"close: {type(e).__name__}: {e}")
            close()

    finished, res = W.run_in_thread(body, timeout, inline=http)
    if finished and res[0] == "exc":
        notes.append(f"harness: {res[1]!r}")
    if not finished:
        see("X")
    em = [{"e": e[0], "n": e[1] if len(e) > 1 else 0} for e in W.take(x) if e[0] in ("l", "d", "r", "s", "e", "h")]
    return {"em": em, "rv": rv, "notes": notes, "hung": not finished}


# ------------------------------------------------------------------------------------------------ LogContent
def content_case_script(case: dict) -> tuple[dict, dict]:
    """-> (LogOrder-style script, placement) for one content case."""
    at = case["at"]
    kind = "unary" if at == "unary" else ("exch" if at.endswith("_exch") else "prod")
    script = {"tr": case["tr"], "kind": kind, "hdr": at == "init_hdr", "iraise": False,
              "ops": [] if kind == "unary" else (["i"] if kind == "prod" else ["t", "t", "c"])}
    return script, {"slot": "init" if at in ("unary", "init", "init_hdr") else at.split("_")[0]}      # pre|post|tail|prefail|postfail


def run_content_case(world, case: dict, x: int) -> dict:
    script, place = content_case_script(case)
    text = TEXTS[case["txt"]]
    spec = log_spec(1, case["lvl"], text, EXTRAS[case["extra"]], api=case.get("via", "ctx"))
    tail = place["slot"] == "tail"
    step1 = {"pre": [spec] if place["slot"] == "pre" else [], "act": "emit",
             "post": [spec] if place["slot"] in ("post", "tail") else [], "md": False,
             "rows": 20000 if case.get("route") == "shm" else 1}          # 160 kB >= SHM_MIN_BATCH_BYTES: through the segment
    plain = {"pre": [], "act": "emit", "post": [], "rows": 1, "md": False}
    fail = place["slot"] in ("prefail", "postfail")
    if fail:          # one good turn, then the failing one: [messages] raise  |  emit [messages] raise
        bad = ({"pre": [spec], "act": "raise", "post": []} if place["slot"] == "prefail"
               else {"pre": [], "act": "emitraise", "post": [spec], "rows": step1["rows"], "md": False})
        steps = [plain, bad]
    elif tail and script["kind"] == "prod":
        steps = [plain, step1, plain]                 # the message follows batch 2, the last one the caller takes
    elif script["kind"] == "unary":
        steps = []
    else:
        steps = [step1, {"pre": [], "act": "emit" if script["kind"] == "exch" else "fin", "post": []}]
    prog = {"init_logs": [spec] if place["slot"] == "init" else [], "init_raise": False, "steps": steps,
            "past": "fin" if script["kind"] == "prod" else "emit", "in_rows": 1}
    W.take(x)
    events: list = []

    def on_log(msg) -> None:
        events.append(("L", msg))

    notes: list = []

    def body():
        px, close, _ = world.open(on_log)
        sess = None
        try:
            r = getattr(px, W.method_name(script["kind"], script["hdr"]))(x=x, prog=json.dumps(prog))
            if script["kind"] == "unary":
                events.append(("P", r == x))
                return
            sess = r
            if fail:
                try:
                    if script["kind"] == "exch":
                        for k in (1, 2):
                            ab = sess.exchange(AnnotatedBatch(batch=L.input_batch(x, k, "exact", {"in_rows": 1})))
                            events.append(("P0", L._ident(ab, x) == k))
                    else:
                        for ab in sess:
                            events.append(("P0", L._ident(ab, x) == 1))
                except RpcError:
                    events.append(("P", True))          # the error is what the message precedes
                    events.append(("ERR", True))
            elif tail:
                # one turn, then leave: the message sits behind the batch and is met only by the exit
                if script["kind"] == "exch":
                    ab = sess.exchange(AnnotatedBatch(batch=L.input_batch(x, 1, "exact", {"in_rows": 1})))
                    events.append(("P", L._ident(ab, x) == 1))
                else:
                    # two turns: over HTTP the first one is folded into /init, the second is a continuation response
                    it = iter(sess)
                    for k in (1, 2):
                        ab = next(it) if world.name == "http" else sess.tick()
                        events.append(("P", L._ident(ab, x) == k))
                if case["exit"] == "close":
                    sess.close()
                elif case["exit"] == "with":
                    sess.__exit__(None, None, None)
                else:
                    sess.cancel()
            elif script["kind"] == "prod":
                for ab in sess:
                    events.append(("P", L._ident(ab, x) >= 1))
            else:
                for k in (1, 2):
                    ab = sess.exchange(AnnotatedBatch(batch=L.input_batch(x, k, "exact", {"in_rows": 1})))
                    events.append(("P", L._ident(ab, x) == k))
                sess.close()
        finally:
            try:
                if sess is not None:
                    sess.close()
            except Exception:  # noqa: BLE001
                pass
            close()

    finished, res = W.run_in_thread(body, 8.0, inline=world.name == "http")
    failed = (not finished) or res[0] == "exc"
    if finished and res[0] == "exc":
        notes.append(f"{type(res[1]).__name__}: {str(res[1])[:200]}")
    W.take(x)
    msgs = [m for t, m in events if t == "L"]
    first_payload = next((i for i, (t, _) in enumerate(events) if t == "P"), len(events))
    first_log = next((i for i, (t, _) in enumerate(events) if t == "L"), -1)
    payload_bad = any(t in ("P", "P0") and not ok for t, ok in events) or sum(1 for t, _ in events if t == "P0") > 1
    m = msgs[0] if msgs else None
    return {"failed": bool(failed or payload_bad), "errored": any(t == "ERR" for t, _ in events), "delivered": len(msgs),
            "level_ok": bool(m and m.level.value == spec["level"]), "text_ok": bool(m and m.message == spec["text"]),
            "extra_ok": bool(m and user_extras(m) == (spec["extra"] or {})),
            "before_payload": bool(m and 0 <= first_log < first_payload), "_notes": notes}


# ------------------------------------------------------------------------------------------------ LogPeer
K_LEVEL, K_MSG, K_EXTRA = VW.K_LEVEL, VW.K_MSG, VW.K_EXTRA
STATE_KEY = b"vgi_rpc.stream_state#b64"
UNKNOWN_LEVELS = [b"NOTICE", b"\xff\xfe", b"", b"info", b" INFO", b"WARNING", b"FATAL", b"Info"]
PEER_EXTRAS = {
    "absent": [None],
    "obj_plain": [b'{"k": "v", "n": "1"}', '{"ключ": "значение", "": "empty key"}'.encode()],
    "obj_level": [b'{"level": "x"}'], "obj_message": [b'{"message": "m"}'], "obj_self": [b'{"self": "s"}'],
    "obj_both": [b'{"level": "l", "message": "m", "k": "v"}', b'{"level": "l", "message": "m", "self": "s", "extra": "e"}',
                 b'{"level": 3, "message": null}'],
    "obj_empty": [b"{}"],
    "obj_nonstr": [b'{"n": 5, "f": 1.5, "b": true, "z": null, "o": {"a": [1]}, "l": [1, 2]}', b'{"big": 123456789012345678901234567890, "e": 1e400}'],
    "array": [b'[1, "a"]', b"[]", b'[["k", "v"]]'], "string": [b'"just a string"', b'""'], "number": [b"42", b"1.5e3", b"-0"],
    "null": [b"null", b"true", b"false"], "invalid": [b"{not json", b'{"a": }', b"{'a': 1}", b"NaN,", b'{"a": 1} trailing'],
    "empty": [b""], "nonutf8": [b'{"k": "\xff\xfe"}', b"\xff", b"\xc3("],
    "deep": [b"[" * 100000 + b"]" * 100000, b'{"a":' * 50000 + b"1" + b"}" * 50000, b"[" * 2000 + b"]" * 2000,
             b'{"a":' * 900 + b'"x"' + b"}" * 900],
}


def peer_variants(case: dict, full: bool) -> list[dict]:
    """Concrete metadata for one abstract case: the lists are zipped round-robin (all of them when `full`)."""
    lv = {"known": [lv.encode() for lv in LEVELS], "unknown": UNKNOWN_LEVELS, "missing": [None]}[case["lvl"]]
    ms = {"present": [b"peer says hi", "péér ✓".encode()], "empty": [b""], "nonutf8": [b"\xff\xfeabc", b"ok\xc3"],
          "missing": [None]}[case["msg"]]
    xs = PEER_EXTRAS[case["extra"]]
    n = max(len(lv), len(ms), len(xs)) if full else max(1, min(2, max(len(ms), len(xs))))
    out = []
    for i in range(n):
        out.append({"level": lv[i % len(lv)], "msg": ms[i % len(ms)], "extra": xs[i % len(xs)]})
    return out


def _md(v: dict) -> dict:
    md = {}
    if v["level"] is not None:
        md[K_LEVEL] = v["level"]
    if v["msg"] is not None:
        md[K_MSG] = v["msg"]
    if v["extra"] is not None:
        md[K_EXTRA] = v["extra"]
    return md


RESULT = pa.schema([pa.field("result", pa.int64())])
HDR = W.Hdr(n=0)._serialize().schema


def _empty(schema: pa.Schema) -> pa.RecordBatch:
    return pa.RecordBatch.from_arrays([pa.array([], type=f.type) for f in schema], schema=schema)


def peer_response(case: dict, v: dict, x: int) -> bytes:
    """The bytes a foreign server writes in answer to the call: the log batch sits in front of the payload."""
    md = _md(v)
    where = case["where"]
    if where == "unary":
        return VW.ipc_stream(RESULT, [(_empty(RESULT), md), (pa.RecordBatch.from_pydict({"result": [x]}, schema=RESULT), None)])
    data = (pa.RecordBatch.from_pydict({"v": [x * 1000 + 1]}, schema=W.OUT), None)
    if where == "stream":
        if case.get("pos") == "after":      # the log batch follows the data batch: met only when the caller leaves
            return VW.ipc_stream(W.OUT, [data, (_empty(W.OUT), md)])
        return VW.ipc_stream(W.OUT, [(_empty(W.OUT), md), data])
    if where == "header":
        hb = W.Hdr(n=x)._serialize()
        return VW.ipc_stream(hb.schema, [(_empty(hb.schema), md), (hb, None)]) + VW.ipc_stream(W.OUT, [data])
    tok = (_empty(W.OUT), {STATE_KEY: b"opaque-token"})
    return VW.ipc_stream(W.OUT, [(_empty(W.OUT), md), tok])


class _Scripted:
    """RpcTransport whose peer has already written its answer (the client's readers are fed the raw bytes)."""

    def __init__(self, data: bytes) -> None:
        self.reader = io.BytesIO(data)
        self.writer = io.BytesIO()

    def close(self) -> None:
        pass


def _falcon_client(body_of):
    import falcon

    from vgi_rpc.http._testing import _SyncTestClient

    app = falcon.App()

    def sink(req, resp, **kw):
        resp.content_type = VW.ARROW_CT
        resp.data = body_of(req.path)
        resp.status = falcon.HTTP_200

    app.add_sink(sink, "/")
    return _SyncTestClient(app)


def run_peer_case(case: dict, v: dict, x: int, real_pipe: bool = False) -> dict:
    body = peer_response(case, v, x)
    got: list = []
    notes: list = []

    def on_log(msg) -> None:
        got.append(msg)

    method = {"unary": "u", "stream": "prod", "header": "prod_h", "init": "exch"}[case["where"]]
    payload = {"ok": False}

    def use(px) -> None:
        r = getattr(px, method)(x=x, prog="{}")
        if case["where"] == "unary":
            payload["ok"] = r == x
        elif case["where"] == "init":
            payload["ok"] = r is not None
        else:
            if case["where"] == "header":
                if r.header != W.Hdr(n=x):
                    return
            abs_ = list(r) if case["tr"] == "http" else [r.tick()]
            how = case.get("exit", "close")
            if how == "close":
                r.close()
            elif how == "with":
                r.__exit__(None, None, None)
            else:
                r.cancel()
            payload["ok"] = len(abs_) == 1 and abs_[0].batch.column("v").to_pylist() == [x * 1000 + 1]

    def body_fn():
        if case["tr"] == "http":
            from vgi_rpc.http import http_connect

            with http_connect(W.LifeSvc, client=_falcon_client(lambda path: body), on_log=on_log, compression_level=None) as px:
                use(px)
        elif not real_pipe:
            with RpcConnection(W.LifeSvc, _Scripted(body), on_log=on_log) as px:
                use(px)
        else:
            ct, st = make_pipe_pair()

            def peer():
                try:
                    rd = ipc.open_stream(st.reader)
                    for _ in rd:
                        pass
                    st.writer.write(body)
                    st.writer.flush()
                except Exception as e:  # noqa: BLE001
                    notes.append(f"peer: {e!r}")

            th = threading.Thread(target=peer, daemon=True)
            th.start()
            try:
                with RpcConnection(W.LifeSvc, ct, on_log=on_log) as px:
                    use(px)
            finally:
                th.join(1.0)
                try:
                    st.close()
                except Exception:  # noqa: BLE001
                    pass

    finished, res = W.run_in_thread(body_fn, 10.0, inline=not real_pipe)
    failed = (not finished) or res[0] == "exc"
    exc = res[1] if (finished and res[0] == "exc") else None
    if exc is not None:
        notes.append(f"{type(exc).__name__}: {str(exc)[:160]}")
    m = got[0] if got else None
    sent_extra = None
    if v["extra"] is not None:
        try:
            sent_extra = json.loads(v["extra"].decode())
        except Exception:  # noqa: BLE001
            sent_extra = None
    keys = set(sent_extra) if isinstance(sent_extra, dict) else set()
    ux = user_extras(m) if m else {}

    def dec(b):
        try:
            return b.decode()
        except Exception:  # noqa: BLE001
            return None

    return {"failed": bool(failed), "payload_ok": bool(payload["ok"]), "delivered": len(got),
            "level_ok": bool(m and v["level"] is not None and m.level.value == dec(v["level"])),
            "text_ok": bool(m and v["msg"] is not None and m.message == dec(v["msg"])),
            "keys_ok": bool(m and set(ux) == keys),
            "vals_ok": bool(m and isinstance(sent_extra, dict) and all(ux.get(k) == val for k, val in sent_extra.items() if isinstance(val, str))),
            "_exc": type(exc).__name__ if exc is not None else ("hang" if not finished else None), "_notes": notes}
