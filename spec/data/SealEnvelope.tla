------------------------------- MODULE SealEnvelope -------------------------------
(* X04 (extended coverage) -- the AEAD envelope of vgi_rpc/crypto.py (seal_bytes / open_bytes / normalize_key) as a
   decision table transcribed from the module's documentation:

     wire format     version (1 byte) || nonce (24 bytes) || ciphertext + tag (16 bytes); no compression
     open succeeds   iff the token is exactly what seal produced, the key normalises to the same 32 bytes
                     (a 32-byte key is used as is, any other length goes through SHA-256), the aad is identical
                     and the expected version equals the sealed one
     every failure   is a SealError, and failures are indistinguishable (type and message)
     nonce           fresh per seal

   Dev_VersionByteNotAuthenticated names a place where the code knowingly (?) differs from "any tampered token fails":
   the version byte is outside the AEAD, so a token whose first byte was rewritten opens when the opener expects the
   rewritten value.  (Context that must not be swappable belongs into the aad, says the documentation; the callers in
   the repository separate their token kinds by aad.)                                                              *)
EXTENDS Naturals, Sequences, FiniteSets, TLC

CONSTANTS Deep, Dev_VersionByteNotAuthenticated

Viol(name, ok) == IF ok THEN {} ELSE {name}

KeyClasses == {"k0", "k1", "k16", "k31", "k32", "k33", "k64", "k1000"}          \* length of the sealing key
(* key used to open:  same;  other = a different key of the same length;  sha_equiv = SHA-256 of the sealing key (32 bytes);
   truncated / extended = the sealing key without its last byte / with one more byte;  empty = b"" *)
KeyRels == {"same", "other", "sha_equiv", "truncated", "extended", "empty"}
KeyRelDefined(k, r) == ~(k = "k0" /\ r \in {"truncated", "empty"})
SameNormalised(k, r) == r = "same" \/ (r = "sha_equiv" /\ k # "k32")
(* aad at open relative to the aad at seal *)
AadRels == {"same", "both_empty", "different", "prefix", "extension", "empty_vs_nonempty", "nonempty_vs_empty", "same_long"}
AadSame(a) == a \in {"same", "both_empty", "same_long"}
VSeal == {0, 1, 7, 255}
VOpen == {"same", "other", "out_of_range"}
Mutations == {"none", "flip_version_only", "relabel_version", "flip_nonce", "flip_ct", "flip_tag", "truncate_1", "truncate_tag",
              "below_min", "empty", "extend_1", "extend_16", "swap_nonce", "swap_body", "double", "zero_nonce", "zero_tag"}
Payloads == {"empty", "short", "compressible", "text", "random_big"}

OpenCases ==
  \* every mutation x every payload class
       [fam : {"open"}, key : {"k32", "k16"}, keyrel : {"same"}, aad : {"same", "both_empty"}, vseal : {1, 255}, vopen : {"same"},
        mut : Mutations, payload : Payloads]
  \* every key relation x aad relation x version relation on an untouched token
  \cup {c \in [fam : {"open"}, key : KeyClasses, keyrel : KeyRels, aad : AadRels, vseal : (IF Deep THEN VSeal ELSE {0, 1}), vopen : VOpen,
               mut : {"none"}, payload : {"short"}] : KeyRelDefined(c.key, c.keyrel)}
  \* two faults at once
  \cup (IF Deep THEN {c \in [fam : {"open"}, key : {"k32", "k33"}, keyrel : KeyRels, aad : AadRels, vseal : {1},
                             vopen : {"same", "other"}, mut : Mutations, payload : {"short", "empty"}] : KeyRelDefined(c.key, c.keyrel)}
        ELSE {})
Opens(c) == /\ (c.mut = "none" \/ (c.mut = "relabel_version" /\ Dev_VersionByteNotAuthenticated))
            /\ SameNormalised(c.key, c.keyrel) /\ AadSame(c.aad) /\ c.vopen = "same"
(* o = [opened, plain_ok, exc]: opened = open_bytes returned; plain_ok = what it returned is the sealed payload;
   exc = type name of what it raised ("" when it returned) *)
OpenConforms(c, o) ==
       Viol("OpenIffUntouchedSameKeySameAadSameVersion", o.opened <=> Opens(c))
  \cup Viol("OpenedPlaintextIsTheSealedOne", o.opened => o.plain_ok)
  \cup Viol("FailureIsSealErrorOnly", (~o.opened) => o.exc = "SealError")

(* sealing: o = [k, len_ok, ver_ok, leak, nseals, nonces, tokens]: k = "token" / "raise"; len_ok = the token is exactly
   1 + 24 + len(payload) + 16 bytes; ver_ok = first byte = version; leak = an 8-byte window of the payload (4 for tiny
   ones) or of the key occurs in the token; nseals seals of the same input gave `nonces` distinct nonces and `tokens` distinct tokens *)
SealVersions == {0, 1, 7, 255, 256, 1000}          \* (negative versions are driven as a concrete variant of 256)
SealCases == [fam : {"seal"}, key : (IF Deep THEN KeyClasses ELSE {"k0", "k16", "k32", "k1000"}), payload : Payloads,
              aadk : {"empty", "short", "long"}, vseal : SealVersions]
SealConforms(c, o) ==
  IF c.vseal > 255 THEN Viol("VersionRangeEnforced", o.k = "raise")
  ELSE Viol("WireFormatAsDocumented", o.k = "token" /\ o.len_ok /\ o.ver_ok)
       \cup Viol("PlaintextNeverInToken", ~o.leak)
       \cup Viol("NonceFreshPerSeal", o.nonces = o.nseals /\ o.tokens = o.nseals)

(* the whole run: the distinct (type, message) pairs of all failed opens *)
AggCases == {[fam |-> "agg"]}
AggConforms(c, o) == Viol("FailuresIndistinguishable", Len(o.messages) <= 1)

Cases == OpenCases \cup SealCases \cup AggCases
Expected(c) == CASE c.fam = "open" -> [opens |-> Opens(c)]
                 [] c.fam = "seal" -> [opens |-> c.vseal <= 255]
                 [] OTHER -> [opens |-> FALSE]
Conforms(c, o) == CASE c.fam = "open" -> OpenConforms(c, o) [] c.fam = "seal" -> SealConforms(c, o) [] OTHER -> AggConforms(c, o)

\* table sanity
T_AnyFaultFails(c) == (c.fam = "open" /\ Opens(c)) =>
                         (c.mut \in {"none", "relabel_version"} /\ c.keyrel \in {"same", "sha_equiv"} /\ AadSame(c.aad) /\ c.vopen = "same")
T_CleanOpens(c) == (c.fam = "open" /\ c.mut = "none" /\ c.keyrel = "same" /\ AadSame(c.aad) /\ c.vopen = "same") => Opens(c)
T_ShaEquivOnlyForStretchedKeys(c) == (c.fam = "open" /\ c.keyrel = "sha_equiv" /\ Opens(c)) => c.key # "k32"
=====================================================================================
