"""Check context: evidence accumulation, violations, known findings, exit protocol."""
from __future__ import annotations

import hashlib
import json
import os
import random
import sys
import time
import traceback
from pathlib import Path

from .tlc import MachineryError, TlcResult, Workdir

ROOT = Path(__file__).resolve().parent.parent
EVID = ROOT / "evidence"
REPLAY = ROOT / "replay"
FINDINGS = ROOT / "known_findings.json"
FINDINGS_D = ROOT / "known_findings.d"  # per-property drafts, merged into known_findings.json by tools/merge_findings.py


def jhash(x) -> str:
    return hashlib.sha256(json.dumps(x, sort_keys=True, default=str).encode()).hexdigest()[:16]


class Ctx:
    def __init__(self, pid: str, tier: str, seed: int, level: str = "model_checking") -> None:
        self.pid = pid
        self.tier = tier
        self.seed = seed
        self.level = level
        self.rng = random.Random(seed)
        self.t0 = time.time()
        self.states = 0
        self.transitions = 0
        self.traces_validated = 0
        self.evaluations = 0
        self._distinct: set[str] = set()
        self.samples: list = []
        self.assumptions: list[str] = []
        self.rule = ""
        self.exhaustive = False
        self.extra: dict = {}
        self.violations: list[dict] = []
        self.tlc_runs: list[dict] = []
        self.actions_covered: dict = {}
        self.drift: list = []
        self.wd = Workdir(pid)

    @property
    def quick(self) -> bool:
        return self.tier == "quick"

    # ---- evidence accumulation -------------------------------------------------
    def add_tlc(self, name: str, r: TlcResult, exhaustive: bool = True) -> TlcResult:
        self.states += r.distinct
        self.transitions += r.transitions
        self.tlc_runs.append({"run": name, "distinct_states": r.distinct, "states_generated": r.generated,
                              "depth": r.depth, "wall_s": round(r.wall_s, 2), "ok": r.ok,
                              "violated": r.violated})
        for a, (d, t) in r.coverage.items():
            o = self.actions_covered.get(a, 0)
            self.actions_covered[a] = o + t
        return r

    def case(self, key, nontrivial: bool = True, sample=None) -> None:
        """Count one evaluated case (an execution of real code)."""
        self.evaluations += 1
        if nontrivial:
            self._distinct.add(jhash(key))
        if sample is not None and len(self.samples) < 6:
            self.samples.append(sample)

    def sample(self, s) -> None:
        if len(self.samples) < 6:
            self.samples.append(s)

    def assume(self, *a: str) -> None:
        for x in a:
            if x not in self.assumptions:
                self.assumptions.append(x)

    # ---- violations -------------------------------------------------------------
    def violation(self, clause: str, sig: dict, detail: dict | None = None) -> None:
        """A concrete execution of the real code on which a property clause is false."""
        self.violations.append({"clause": clause, "sig": sig, "detail": detail or {}})

    # ---- finish -------------------------------------------------------------------
    def finish(self) -> int:
        findings = []
        if FINDINGS.exists():
            findings = [f for f in json.loads(FINDINGS.read_text()) if f.get("property") == self.pid]
        extra = FINDINGS_D / f"{self.pid}.json"
        if extra.exists():
            have = {f["id"] for f in findings}
            findings += [f for f in json.loads(extra.read_text()) if f.get("property") == self.pid and f["id"] not in have]
        known_hits: dict[str, dict] = {}
        fresh: list[dict] = []
        for v in self.violations:
            hit = None
            for f in findings:
                if f.get("status") != "open":
                    continue
                if f.get("clause") not in (None, v["clause"]):
                    continue
                if all(_m(v["sig"].get(k), want) for k, want in (f.get("match") or {}).items()):
                    hit = f
                    break
            if hit:
                known_hits.setdefault(hit["id"], {"finding": hit, "n": 0})["n"] += 1
            else:
                fresh.append(v)
        for h in known_hits.values():
            print(f"KNOWN-FINDING: property={self.pid} {h['finding']['id']}: {h['finding']['what']} "
                  f"[{h['n']} occurrence(s) this run]")
        rc = 0
        seen_sig = set()
        if fresh:
            REPLAY.mkdir(exist_ok=True)
            for v in fresh:
                key = jhash([v["clause"], v["sig"]])
                if key in seen_sig:
                    continue
                seen_sig.add(key)
                if len(seen_sig) > 20:
                    break
                path = REPLAY / f"{self.pid}-{key}.json"
                path.write_text(json.dumps({"property": self.pid, "seed": self.seed, "tier": self.tier, **v},
                                           indent=1, default=str))
                print(f"VIOLATION property={self.pid} replay={path} clause={v['clause']} "
                      f"sig={json.dumps(v['sig'], sort_keys=True, default=str)[:300]}")
            rc = 1
        self._write_evidence(len(fresh), sorted(known_hits))
        self.wd.__exit__()
        return rc

    def _write_evidence(self, nviol: int, known: list[str]) -> None:
        EVID.mkdir(exist_ok=True)
        cov = {
            "states": self.states,
            "transitions": self.transitions,
            "traces_validated_against_impl": self.traces_validated,
            "evaluations": self.evaluations,
            "distinct_nontrivial": len(self._distinct),
            "rule": self.rule,
            "samples": self.samples if self.samples else ["(no sample recorded)"],
            "exhaustive": self.exhaustive,
            "tlc_runs": self.tlc_runs,
            "spec_actions_covered": self.actions_covered,
            "drift": self.drift[:5],
            "known_findings_seen": known,
        }
        cov.update(self.extra)
        ev = {
            "property_id": self.pid,
            "tier": self.tier,
            "seed": self.seed,
            "level": self.level,
            "coverage": cov,
            "assumptions": self.assumptions,
            "wall_s": round(time.time() - self.t0, 2),
            "violations": nviol,
        }
        evid = EVID if not self.pid.startswith("X") else ROOT / "evidence_extra"   # extras stay out of evidence/
        evid.mkdir(exist_ok=True)
        (evid / f"{self.pid}.json").write_text(json.dumps(ev, indent=1, default=str) + "\n")


def _m(have, want) -> bool:
    if isinstance(want, list):
        return have in want
    if isinstance(want, dict) and "prefix" in want:
        return isinstance(have, str) and have.startswith(want["prefix"])
    return have == want


def main_for(pid: str, run, argv=None, level: str = "model_checking") -> int:
    """Entry used by ./check: run(ctx) explores; replay(ctx, record) optional."""
    import argparse

    ap = argparse.ArgumentParser()
    ap.add_argument("--tier", default=os.environ.get("VERIF_TIER", "quick"), choices=["quick", "thorough"])
    ap.add_argument("--replay", default=None)
    a = ap.parse_args(argv)
    seed = int(os.environ.get("VERIF_SEED", "0") or 0)
    ctx = Ctx(pid, a.tier, seed, level)
    try:
        if a.replay:
            rec = json.loads(Path(a.replay).read_text())
            ctx.extra["replay_of"] = a.replay
            ctx.replay_record = rec
        else:
            ctx.replay_record = None
        run(ctx)
        return ctx.finish()
    except MachineryError as e:
        print(f"MACHINERY-FAILURE property={pid}: {e}", file=sys.stderr)
        ctx.wd.__exit__()
        return 2
    except Exception:  # noqa: BLE001
        traceback.print_exc()
        print(f"MACHINERY-FAILURE property={pid}: harness crashed", file=sys.stderr)
        ctx.wd.__exit__()
        return 2
