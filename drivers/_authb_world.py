"""Shared harness for the HTTP authentication family (C20, C21, C24).

Builds real services (RpcServer + make_wsgi_app via make_sync_client) whose every piece of *service code*
(implementation methods, stream state callbacks, upload-URL provider, token resolver) appends to one
invocation log, plus header-driven stub authenticators / gates that log every consultation.  Nothing here
decides a property clause: it only drives the real code and records what happened.

Not using `from __future__ import annotations` on purpose (type hints of the generated Protocols are
resolved against this module's globals).
"""
import logging
import warnings
from dataclasses import dataclass
from datetime import datetime, timezone
from typing import Protocol  # noqa: F401  (used by generated source)

import pyarrow as pa

from vgi_rpc.external import UploadUrl
from vgi_rpc.http import http_connect
from vgi_rpc.http._testing import make_sync_client
from vgi_rpc.rpc import (  # noqa: F401
    AnnotatedBatch,
    AuthContext,
    CallContext,
    ExchangeState,
    OutputCollector,
    ProducerState,
    RpcServer,
    Stream,
)

from vf import world

KEY = b"k" * 32
SCH = pa.schema([pa.field("v", pa.int64())])
EMPTY = pa.schema([])
LOG: list = []          # service-code / authenticator invocation log (strings)
SEEN: list = []         # AuthContext snapshots taken inside service code


def quiet() -> None:
    warnings.filterwarnings("ignore")
    logging.disable(logging.CRITICAL)


def reset() -> None:
    del LOG[:]
    del SEEN[:]


def snap(ctx, where: str) -> None:
    a = ctx.auth
    gate = None
    try:
        g = a.claims.get("vgi_proxy_proof") if a.claims is not None else None
        if g is not None:
            gate = dict(g)
    except Exception:  # noqa: BLE001
        gate = {"unreadable": True}
    SEEN.append({"where": where, "authenticated": a.authenticated, "domain": a.domain, "principal": a.principal,
                 "claim_keys": sorted(str(k) for k in (a.claims or {})), "gate": gate})


@dataclass
class PS(ProducerState):
    n: int = 0

    def produce(self, out: OutputCollector, ctx: CallContext) -> None:
        LOG.append("svc:produce")
        snap(ctx, "produce")
        if self.n >= 2:
            out.finish()
            return
        self.n += 1
        out.emit_pydict({"v": [self.n]})


@dataclass
class ES(ExchangeState):
    n: int = 0

    def exchange(self, input: AnnotatedBatch, out: OutputCollector, ctx: CallContext) -> None:
        LOG.append("svc:exchange")
        snap(ctx, "exchange")
        out.emit_pydict({"v": [1]})


_TEMPLATES = {
    "unary": ("    def {n}(self, x: int) -> int: ...\n",
              "    def {n}(self, x: int, ctx: CallContext) -> int:\n        LOG.append('svc:{n}'); snap(ctx, '{n}'); return x + 1\n"),
    "producer": ("    def {n}(self) -> Stream[ProducerState]: ...\n",
                 "    def {n}(self, ctx: CallContext) -> Stream[PS]:\n        LOG.append('svc:{n}'); snap(ctx, '{n}')\n"
                 "        return Stream(output_schema=SCH, state=PS())\n"),
    "exchange": ("    def {n}(self) -> Stream[ExchangeState]: ...\n",
                 "    def {n}(self, ctx: CallContext) -> Stream[ES]:\n        LOG.append('svc:{n}'); snap(ctx, '{n}')\n"
                 "        return Stream(output_schema=SCH, state=ES(), input_schema=SCH)\n"),
}
_counter = [0]


def build_service(kinds: dict):
    """kinds: {method name: 'unary'|'producer'|'exchange'} -> (RpcServer, Protocol class)."""
    _counter[0] += 1
    tag = _counter[0]
    src_p = f"class Svc{tag}(Protocol):\n"
    src_i = f"class Impl{tag}:\n"
    for n, k in sorted(kinds.items()):
        p, i = _TEMPLATES[k]
        src_p += p.format(n=n)
        src_i += i.format(n=n)
    ns = globals()
    exec(src_p + "\n" + src_i, ns)  # noqa: S102 - generated from a fixed template and identifier names
    proto, impl = ns[f"Svc{tag}"], ns[f"Impl{tag}"]
    return RpcServer(proto, impl(), enable_describe=True), proto


class UploadProvider:
    def generate_upload_url(self, schema):
        LOG.append("svc:upload_url")
        return UploadUrl("http://127.0.0.1:1/up", "http://127.0.0.1:1/down", datetime.now(timezone.utc))


def token_resolver(token: str):
    from vgi_rpc.http.server._introspect import TokenIdentity

    LOG.append("svc:introspect_resolver")
    return TokenIdentity(principal="bob")


class Recorder:
    """Wraps a _SyncTestClient and records every POST (path, body, headers) the real client makes."""

    def __init__(self, client) -> None:
        self._c = client
        self.prefix = client.prefix
        self.posts: list = []

    def post(self, url, *, content, headers):
        r = self._c.post(url, content=content, headers=headers)
        self.posts.append((url, bytes(content), dict(headers), r.status_code))
        return r

    def __getattr__(self, k):
        return getattr(self._c, k)


def record_exchange(proto, client, name: str, kind: str):
    """Use the real client against `client` to open stream `name` and make one continuation request;
    returns (body, headers) of the recorded POST .../exchange (carries a real state token)."""
    rec = Recorder(client)
    with http_connect(proto, client=rec) as proxy:
        s = getattr(proxy, name)()
        if kind == "exchange":
            s.exchange(AnnotatedBatch.from_pydict({"v": [1]}, schema=SCH))
            s.close()
        else:
            for _ in s:
                pass
    for url, body, hdrs, _st in rec.posts:
        if url.endswith("/exchange"):
            return body, hdrs
    return None


def unary_body(server, name: str) -> bytes:
    return world.raw_request(name.encode(), server.methods[name].params_schema, {"x": 1})


def init_body(name: str) -> bytes:
    return world.raw_request(name.encode(), EMPTY, {})


def upload_body() -> bytes:
    return world.raw_request(b"__upload_url__", pa.schema([pa.field("count", pa.int64())]), {"count": 1})


def request(client, verb: str, path: str, body: bytes | None, headers: dict):
    """Any verb through the falcon test client; returns (status, headers(lowercased), content)."""
    import io

    tc = client._client
    kw = {"headers": headers, "wsgierrors": io.StringIO()}     # (falcon writes unexpected-exception tracebacks there)
    if body is not None:
        kw["body"] = body
    r = tc.simulate_request(verb, path, **kw)
    return r.status_code, {k.lower(): v for k, v in r.headers.items()}, r.content


def ran_service(log=None) -> bool:
    return any(x.startswith("svc:") for x in (LOG if log is None else log))


def describe_served(status: int, hdrs: dict, content: bytes) -> bool:
    """__describe__ answered with a real (non-error) describe stream."""
    if status != 200 or not hdrs.get("content-type", "").startswith(world.ARROW_CT):
        return False
    ss = world.read_streams(content)
    return bool(ss and ss[0]["batches"] and world.error_of(ss[0]) is None)


# ---------------------------------------------------------------------------------------------------------
# authenticator compositions (C21 / C24): abstract tree (as emitted by TLC) -> real callables + request headers
# ---------------------------------------------------------------------------------------------------------
PROOF_SECRET = b"s" * 32
PROOF_KID = "k1"
PROOF_ORIGIN = "worker-1"
PROOF_LABEL = "edge-proxy"
STUB_DECL_HEADER = "X-Edge-Client-Cert"
STUBGATE_DECL_HEADER = "X-Edge-Proof"
PEM_HEADER = "X-SSL-Client-Cert"
_PEMS: dict = {}


def pem_cert(expired: bool) -> str:
    """A self-signed client certificate (valid now / expired last year), PEM text."""
    if expired not in _PEMS:
        import datetime

        from cryptography import x509
        from cryptography.hazmat.primitives import hashes, serialization
        from cryptography.hazmat.primitives.asymmetric import ec
        from cryptography.x509.oid import NameOID

        key = ec.generate_private_key(ec.SECP256R1())
        name = x509.Name([x509.NameAttribute(NameOID.COMMON_NAME, "alice")])
        now = datetime.datetime.now(datetime.UTC)
        start, end = (now - datetime.timedelta(days=800), now - datetime.timedelta(days=400)) if expired else \
                     (now - datetime.timedelta(days=1), now + datetime.timedelta(days=30))
        cert = (x509.CertificateBuilder().subject_name(name).issuer_name(name).public_key(key.public_key())
                .serial_number(x509.random_serial_number()).not_valid_before(start).not_valid_after(end)
                .sign(key, hashes.SHA256()))
        _PEMS[expired] = cert.public_bytes(serialization.Encoding.PEM).decode()
    return _PEMS[expired]
ALICE = None  # set lazily (AuthContext import is at module top, but keep construction in one place)


def alice(domain: str = "stub") -> AuthContext:
    return AuthContext(domain=domain, authenticated=True, principal="alice", claims={"role": "user"})


SPECIAL_DETAIL = '<script>alert("x")</script> & \'q\' \\ back\\slash é 漢字 \t tab \n newline \x7f end'
DETAILS = {"shared": "access denied", "empty": "", "special": SPECIAL_DETAIL}


def detail_of(req, default: str) -> str:
    """The rejection text a stub uses: X-Detail names a class (or 'u:<n>' for a text nobody else used)."""
    d = req.get_header("X-Detail")
    if not d:
        return default
    if d.startswith("u:"):
        return f"unique rejection text number {d[2:]}"
    return DETAILS.get(d, default)


def _raise_for(out: str, detail: str | None = None):
    from vgi_rpc.http import AuthFailure, AuthReason, AuthUnavailableError, ProofError
    from vgi_rpc.http._unauthorized import REASON_ATTR

    def txt(default: str) -> str:
        return default if detail is None else detail

    table = {"miss": AuthReason.MISSING_CREDENTIAL, "inv": AuthReason.INVALID_CREDENTIAL,
             "exp": AuthReason.EXPIRED_CREDENTIAL, "scope": AuthReason.INSUFFICIENT_SCOPE,
             "proxy": AuthReason.PROXY_REQUIRED, "unauth": AuthReason.UNAUTHORIZED}
    if out in table:
        raise AuthFailure(table[out], txt(f"stub says {out}"))
    if out == "ve":
        raise ValueError(txt("stub: bad credentials"))
    if out == "pe":
        raise PermissionError(txt("stub: forbidden"))
    if out == "proof":
        raise ProofError("bad_mac", txt("stub proof error"))
    if out == "down":
        raise AuthUnavailableError(txt("identity provider timed out"), retry_after=7)
    if out == "bogus":
        raise AuthFailure("made_up_reason", txt("stub with a reason outside the closed set"))  # type: ignore[arg-type]
    if out == "ve_sub":
        raise UnicodeDecodeError("utf-8", b"\xff", 0, 1, txt("stub: credential is not text"))
    if out == "pe_attr":
        exc = PermissionError(txt("stub: certificate revoked"))
        setattr(exc, REASON_ATTR, AuthReason.INVALID_CREDENTIAL)
        raise exc
    raise RuntimeError(f"unknown stub outcome {out!r}")


def build_tree(node: dict, ids: list | None = None, *, proof_now=None, replay_cache: bool = True):
    """abstract node -> real authenticate callable.  Stub leaves / stub gates are driven by request headers
    X-Out-<id> / X-Gate-<id>; ids are assigned in depth-first order (the same order `tree_headers` uses).
    Every consultation is appended to LOG as 'auth:<id>:<impl>'."""
    from vgi_rpc.http import (PreconditionGate, ProofError, ProxyProofConfig, bearer_authenticate_static,
                              chain_authenticate, declare_proxy_headers, mtls_authenticate_xfcc, proxy_proof_gate,
                              require_all)

    ids = ids if ids is not None else [0]

    def nid() -> str:
        ids[0] += 1
        return f"N{ids[0]}"

    k = node["k"]
    if k == "leaf":
        me = nid()
        impl = node["impl"]
        if impl == "stub":
            def stub(req, _me=me):
                out = req.get_header(f"X-Out-{_me}") or "ve"
                LOG.append(f"auth:{_me}:stub:{out}")
                if out == "ok":
                    return alice()
                _raise_for(out, detail_of(req, None))  # type: ignore[arg-type]

            if node["decl"]:
                declare_proxy_headers(stub, STUB_DECL_HEADER)
            return stub
        if impl == "bearer":
            inner = bearer_authenticate_static(tokens={f"good-{me}": alice("bearer")})
        elif impl == "xfcc":
            inner = mtls_authenticate_xfcc()
        elif impl == "pem":
            from vgi_rpc.http import mtls_authenticate

            inner = mtls_authenticate(validate=lambda cert: alice("mtls"), header=PEM_HEADER, check_expiry=True)
        else:
            raise RuntimeError(impl)

        def logged(req, _me=me, _inner=inner, _impl=impl):
            LOG.append(f"auth:{_me}:{_impl}")
            return _inner(req)

        from vgi_rpc.http._unauthorized import proxy_headers_of

        declared = proxy_headers_of(inner)      # the wrapper must not hide the real authenticator's own declaration
        if declared:
            declare_proxy_headers(logged, *declared)
        return logged
    if k == "chain":
        return chain_authenticate(*[build_tree(m, ids, proof_now=proof_now, replay_cache=replay_cache) for m in node["ms"]])
    if k == "reqall":
        g = node["gate"]
        me = nid()
        if g["impl"] == "stubgate":
            def gate_fn(req, _me=me):
                out = req.get_header(f"X-Gate-{_me}") or "fail"
                LOG.append(f"gate:{_me}:stubgate:{out}")
                if out == "pass":
                    return {"verified": "true", "proxy": "stub-edge"}
                if out == "pe":
                    raise PermissionError("stub gate says no")
                raise ProofError("no_proof", "stub gate: proof required")

            gate = PreconditionGate(gate_fn, name="stubgate", claims_key="stubgate",
                                    proxy_headers=(STUBGATE_DECL_HEADER,) if g["decl"] else ())
        else:
            mode = "require" if g["impl"] == "proof_require" else "allow"
            cfg = ProxyProofConfig(mode=mode, origin_id=PROOF_ORIGIN, secrets={PROOF_KID: (PROOF_SECRET, PROOF_LABEL)},
                                   skew_seconds=30, enable_replay_cache=replay_cache)
            real = proxy_proof_gate(cfg, now=proof_now)

            def gate_fn(req, _me=me, _real=real, _mode=mode):
                LOG.append(f"gate:{_me}:proof_{_mode}")
                return _real(req)

            gate = PreconditionGate(gate_fn, name=real.name, claims_key=real.claims_key,
                                    proxy_headers=real.vgi_proxy_headers)
        inner = None if node["inner"]["k"] == "none" else build_tree(node["inner"], ids, proof_now=proof_now,
                                                                     replay_cache=replay_cache)
        return require_all(gate, inner)
    raise RuntimeError(k)


def tree_headers(node: dict, rng, ids: list | None = None, *, now: int | None = None) -> dict:
    """Request headers that make every node of the composition behave as its `out` says."""
    from vgi_rpc.http import mint_proof

    ids = ids if ids is not None else [0]
    h: dict = {}

    def nid() -> str:
        ids[0] += 1
        return f"N{ids[0]}"

    k = node["k"]
    if k == "leaf":
        me = nid()
        impl, out = node["impl"], node["out"]
        if impl == "stub":
            h[f"X-Out-{me}"] = out
        elif impl == "bearer":
            if out == "ok":
                h["Authorization"] = f"Bearer good-{me}"
            elif out == "inv":
                h["Authorization"] = rng.choice(["Bearer wrong", "Basic Z29vZA==", f"bearer good-{me}", f"Bearer good-{me}x", f"Bearer  good-{me}"])
        elif impl == "xfcc":
            if out == "ok":
                h["x-forwarded-client-cert"] = 'Hash=abc;Subject="CN=alice,O=org"'
            elif out == "inv":
                h["x-forwarded-client-cert"] = ","
        elif impl == "pem":
            from urllib.parse import quote

            if out == "ok":
                h[PEM_HEADER] = quote(pem_cert(expired=False))
            elif out == "exp":
                h[PEM_HEADER] = quote(pem_cert(expired=True))
            elif out == "inv":
                h[PEM_HEADER] = rng.choice(["not-a-certificate", quote("-----BEGIN CERTIFICATE-----\nAAAA\n-----END CERTIFICATE-----\n")])
    elif k == "chain":
        for m in node["ms"]:
            h.update(tree_headers(m, rng, ids, now=now))
    elif k == "reqall":
        g = node["gate"]
        me = nid()
        if g["impl"] == "stubgate":
            h[f"X-Gate-{me}"] = g["out"]
        else:
            good = mint_proof(PROOF_SECRET, PROOF_KID, PROOF_ORIGIN, now=now)
            if g["out"] == "pass":
                h["VGI-Proxy-Proof"] = good
            elif g["out"] in ("fail", "unproven"):
                flavour = rng.choice(["absent", "malformed", "badmac", "unknown_kid", "expired"])
                if flavour == "malformed":
                    h["VGI-Proxy-Proof"] = good.rsplit(".", 1)[0]
                elif flavour == "badmac":
                    h["VGI-Proxy-Proof"] = mint_proof(b"x" * 32, PROOF_KID, PROOF_ORIGIN, now=now)
                elif flavour == "unknown_kid":
                    h["VGI-Proxy-Proof"] = mint_proof(PROOF_SECRET, "other", PROOF_ORIGIN, now=now)
                elif flavour == "expired":
                    import time as _t

                    h["VGI-Proxy-Proof"] = mint_proof(PROOF_SECRET, PROOF_KID, PROOF_ORIGIN,
                                                      now=(int(_t.time()) if now is None else now) - 3600)
        if node["inner"]["k"] != "none":
            h.update(tree_headers(node["inner"], rng, ids, now=now))
    return h


def strip_outs(node):
    """service identity of a composition = the tree without the per-request outcomes"""
    if isinstance(node, dict):
        return {k: strip_outs(v) for k, v in node.items() if k != "out"}
    if isinstance(node, list):
        return [strip_outs(x) for x in node]
    return node
