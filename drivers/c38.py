"""C38 -- HTTP retries are bounded and never duplicate non-idempotent calls.

Spec: spec/fault/Retry.tla (the `_request_with_retry` loop and the unretried exchange / cancel posts as state
machines over one fault alphabet) + spec/fault/RetryTrace.tla (batch trace validation).

Pipeline: (1) TLC model-checks Retry with the five property clauses as invariants; (2) TLC emits every complete
behaviour (= every fault sequence the machine can consume, per configuration of the grid); every one is
concretised (status codes, Retry-After strings, exception classes, jitter fraction, binding level) with a tail
that pads the script to max_retries+2 faults, and executed on the real `_request_with_retry` /
`_post_with_retry` / `_options_with_retry` / `HttpStreamSession.exchange` / `.cancel` with a scripted client, an
injected sleep and a scripted `random.uniform`; (3) the recorded real logs are validated by TLC against
RetryTrace (conformance) and judged clause by clause with Retry!Violated.
"""
import datetime as _dt
import email.utils
import json
import math
import warnings
from io import BytesIO

from typing import Protocol

import httpx2
import pyarrow as pa
from vgi_rpc.rpc import ProducerState, Stream

from drivers._fault_util import model_check, strset, validate_traces
from vf.core import Ctx
from vf.tlc import MachineryError

META = {
    "engine": "fault",
    "text": "Retry.tla models the _request_with_retry loop and the unretried exchange/cancel posts over the fault "
            "alphabet {connect error, timeout, disconnect-before-response, other protocol error, status class x "
            "Retry-After shape} for a grid of retry configurations; TLC checks the clauses as invariants and "
            "enumerates all fault sequences; every sequence is replayed on the real functions with a scripted "
            "client, injected sleep and scripted jitter; TLC validates every recorded real log against "
            "RetryTrace and evaluates the clauses on it.",
    "note": "Trusted: the scripted httpx2.MockTransport / fake clients, the shim replacing the `random` name seen "
            "by vgi_rpc.http._retry, the mapping of delays to 1/8 s units (floor/ceil), the concretisation of "
            "status classes and Retry-After shapes. Sequences are complete up to the unconsumed script suffix "
            "(padded with random faults). The externalisation sub-flow of exchange() is one abstract step.",
}

U = 8  # delay units per second
BIG = 1000000
PREFIX = "http://rpc.test/vgi"

CLASS_CODES = {
    "ok2xx": list(range(200, 300)),
    "o3xx": list(range(300, 400)),
    "s413": [413], "s429": [429], "s500": [500], "s502": [502], "s503": [503], "s504": [504],
    "o4xx": [c for c in range(400, 500) if c not in (413, 429)],
    "o5xx": [c for c in range(500, 600) if c not in (500, 502, 503, 504)],
}
CODE_CLASS = {c: k for k, v in CLASS_CODES.items() for c in v}
RSETS = {"default": ["s429", "s502", "s503", "s504"], "none": [], "off": [], "custom": ["s500", "s429"],
         "wide": ["s413", "s429", "s500", "s502", "s503", "s504", "o4xx", "o5xx", "o3xx"]}
BACKOFF = {"b2m4": (2, 4), "b0m4": (0, 4), "b2m32": (2, 32), "b2m0": (2, 0), "b8m4": (8, 4)}

RA_TEXT = {
    ("absent", 0): [None],
    ("secs", 2): ["0.25", " 0.25", "+0.25", "2.5e-1", "0.250"],
    ("secs", 8): ["1", "1.0", "01", "1e0"],
    ("secs", 960): ["120", "120.0", "1.2e2"],
    ("neg", 40): ["-5", "-5.0", " -5"],
    ("nan", 0): ["nan", "NaN", "-nan", "+NAN"],
    ("inf", 0): ["inf", "Infinity", "1e999", "+inf"],
    ("neginf", 0): ["-inf", "-Infinity", "-1e999"],
    ("date_naive", 0): ["Wed, 21 Oct 2037 07:28:00", "Wed, 21 Oct 2037 07:28:00 -0000"],
    ("garbage", 0): ["soon", "", " ", "12abc", "1,5", "0x10", "1 2", "--5", "Wed, 99 Foo 2037 07:28:00 GMT",
                     "Thu, 01 Jan 2037 25:00:00 GMT", "\x7f"],
}


def _ra_text(ra: dict, n: int) -> str | None:
    k, v = ra["k"], ra["v"]
    if k == "date_past":
        return email.utils.format_datetime(_dt.datetime.now(_dt.UTC) - _dt.timedelta(seconds=3600 + n), usegmt=True)
    if k == "date_future":
        return email.utils.format_datetime(_dt.datetime.now(_dt.UTC) + _dt.timedelta(seconds=v / U), usegmt=True)
    opts = RA_TEXT[(k, v)]
    return opts[n % len(opts)]


EXC = {
    "connect": [lambda: httpx2.ConnectError("[Errno 111] Connection refused"),
                lambda: httpx2.ConnectError("All connection attempts failed")],
    "timeout": [lambda: httpx2.ReadTimeout("The read operation timed out"),
                lambda: httpx2.ConnectTimeout("timed out"), lambda: httpx2.WriteTimeout("timed out"),
                lambda: httpx2.PoolTimeout("pool")],
    "disconnect": [lambda: httpx2.RemoteProtocolError("Server disconnected without sending a response.")],
    "proto": [lambda: httpx2.RemoteProtocolError("peer closed connection without sending complete message body "
                                                 "(received 3 bytes, expected 10)"),
              lambda: httpx2.RemoteProtocolError("illegal status line: bytearray(b'garbage')"),
              lambda: httpx2.RemoteProtocolError("Server disconnected"),  # httpcore HTTP/2: mid-stream disconnect
              lambda: httpx2.RemoteProtocolError("<ConnectionTerminated error_code:0, last_stream_id:1, "
                                                 "additional_data:None>"),
              lambda: httpx2.LocalProtocolError("Too much data for declared Content-Length")],
    # errors on an established connection: neither connect error, timeout nor disconnect-before-response
    "neterr": [lambda: httpx2.ReadError("[Errno 104] Connection reset by peer"),
               lambda: httpx2.WriteError("[Errno 32] Broken pipe"), lambda: httpx2.CloseError("close failed")],
}


class CallSvc(Protocol):
    """Protocol behind the "call" level: a unary method and a producer stream."""

    def add(self, x: int) -> int: ...
    def feed(self, n: int) -> Stream[ProducerState]: ...


def _classify_exc(e: BaseException) -> str:
    if isinstance(e, httpx2.RemoteProtocolError):
        return "disconnect" if "without sending a response" in str(e) else "proto"
    if isinstance(e, httpx2.TimeoutException):
        return "timeout"
    if isinstance(e, httpx2.ConnectError):
        return "connect"
    if isinstance(e, httpx2.ProtocolError):
        return "proto"
    if isinstance(e, (httpx2.ReadError, httpx2.WriteError, httpx2.CloseError)):
        return "neterr"
    return "other:" + type(e).__name__


def _units(d: float) -> dict:
    if isinstance(d, float) and math.isnan(d):
        return {"e": "sleep", "dlo": 0, "dhi": 0, "nan": True}
    if d == math.inf or d > BIG:
        return {"e": "sleep", "dlo": BIG + 1, "dhi": BIG + 1, "nan": False}
    if d == -math.inf or d < -BIG:
        return {"e": "sleep", "dlo": -BIG - 1, "dhi": -BIG - 1, "nan": False}
    x = d * U
    return {"e": "sleep", "dlo": math.floor(x), "dhi": math.ceil(x), "nan": False}


class _Uniform:
    """Stands in for the name `random` inside vgi_rpc.http._retry: uniform(a, b) = a + frac*(b-a)."""

    def __init__(self) -> None:
        self.frac = 0.5

    def uniform(self, a: float, b: float) -> float:
        return a + self.frac * (b - a)


class _FakeResp:
    def __init__(self, status: int, headers: dict, content: bytes = b"x") -> None:
        self.status_code = status
        self.headers = headers
        self.content = content


class _Script:
    """The environment: a list of concrete faults; every request pops one and is logged."""

    def __init__(self) -> None:
        self.items: list[dict] = []
        self.log: list[dict] = []
        self.pos = 0
        self.overrun = 0
        self.hdr_style = 0
        self.op = "send"

    def load(self, items: list[dict], hdr_style: int = 0) -> None:
        self.items, self.log, self.pos, self.overrun, self.hdr_style = items, [], 0, 0, hdr_style
        self.op = "send"

    def next(self) -> dict:
        if self.pos >= len(self.items):
            self.overrun += 1
            it = {"o": {"k": "status", "s": "ok2xx", "ra": {"k": "absent", "v": 0}}, "code": 200, "ra_text": None,
                  "exc": 0}
        else:
            it = self.items[self.pos]
        self.pos += 1
        self.log.append({"e": self.op, "o": it["o"]})
        return it

    def headers(self, it: dict) -> dict:
        if it["ra_text"] is None:
            return {}
        return {["Retry-After", "retry-after", "RETRY-AFTER"][self.hdr_style % 3]: it["ra_text"]}


def _mk_items(outs: list[dict], ctr: dict, n: int) -> list[dict]:
    items = []
    for j, o in enumerate(outs):
        if o["k"] == "status":
            codes = CLASS_CODES[o["s"]]
            c = ctr.get(o["s"], 0)
            ctr[o["s"]] = c + 1
            items.append({"o": o, "code": codes[c % len(codes)], "ra_text": _ra_text(o["ra"], n + j), "exc": 0})
        else:
            items.append({"o": o, "code": 0, "ra_text": None, "exc": n + j})
    return items


def _retry_config(cfg: dict):
    from vgi_rpc.http._retry import HttpRetryConfig

    if cfg["rset"] == "off":
        return None
    base, bmax = BACKOFF[cfg["bo"]]
    codes = frozenset(c for cl in RSETS[cfg["rset"]] for c in CLASS_CODES[cl])
    return HttpRetryConfig(max_retries=cfg["mr"], backoff_base=base / U, backoff_max=bmax / U,
                           retryable_status_codes=codes, retry_on_connection_error=cfg["conn"],
                           respect_retry_after=cfg["ra"])


class _World:
    """Scripted httpx2 client (MockTransport), fake dict-header client, IPC bodies for the stream flows."""

    def __init__(self) -> None:
        from vgi_rpc.http._common import _UPLOAD_URL_SCHEMA
        from vgi_rpc.metadata import STATE_KEY

        self.script = _Script()
        self.ext_plan = "ok"
        self.ext_plans: list[str] = []
        self.ext_logged = False
        self.ep = "-"
        self.other: list[str] = []
        self.client = httpx2.Client(transport=httpx2.MockTransport(self._handle))
        self.schema = pa.schema([pa.field("v", pa.int64())])
        buf = BytesIO()
        b = pa.RecordBatch.from_pydict({"v": [1]}, schema=self.schema)
        with pa.ipc.new_stream(buf, self.schema) as w:
            w.write_batch(b, custom_metadata=pa.KeyValueMetadata({STATE_KEY: b"tok2"}))
        self.ok_body = buf.getvalue()
        self.batch = b
        buf = BytesIO()
        ub = pa.RecordBatch.from_pydict(
            {"upload_url": ["http://store.test/up/1"], "download_url": ["http://store.test/dl/1"],
             "expires_at": [_dt.datetime(2037, 1, 1, tzinfo=_dt.UTC)]}, schema=_UPLOAD_URL_SCHEMA)
        with pa.ipc.new_stream(buf, _UPLOAD_URL_SCHEMA) as w:
            w.write_batch(ub)
        self.vend_body = buf.getvalue()
        rs = pa.schema([pa.field("result", pa.int64())])
        buf = BytesIO()
        with pa.ipc.new_stream(buf, rs) as w:
            w.write_batch(pa.RecordBatch.from_pydict({"result": [3]}, schema=rs))
        self.unary_body = buf.getvalue()
        buf = BytesIO()
        with pa.ipc.new_stream(buf, self.schema) as w:
            w.write_batch(b)
        self.data_body = buf.getvalue()

    def _ok_body(self) -> bytes:
        return {"unary": self.unary_body, "continuation": self.data_body, "upload_urls": self.vend_body}.get(
            self.ep, self.ok_body)

    # -- transport-level handler (level "httpx" and the stream flows)
    def _ext(self, x: str) -> None:
        if not self.ext_logged:
            self.ext_logged = True
            self.script.log.append({"e": "ext", "x": x})
            if self.ext_plans:      # the next externalisation phase of this session follows the next plan
                self.ext_plan = self.ext_plans.pop(0)

    def _handle(self, req: httpx2.Request) -> httpx2.Response:
        path = req.url.path
        if self.ext_plan == "-":
            pass            # no externalisation flow in this run: every request is answered from the script
        elif req.method == "OPTIONS" and path.endswith("/health"):
            if self.ext_plan == "caps_err":
                self._ext("caps_err")
                raise httpx2.ReadError("probe failed")
            if self.ext_plan == "no_support":
                self._ext("no_support")
                return httpx2.Response(200, headers={"VGI-Max-Request-Bytes": "10"})
            return httpx2.Response(200, headers={"VGI-Upload-URL-Support": "true", "VGI-Max-Request-Bytes": "10"})
        elif req.method == "POST" and path.endswith("/__upload_url__/init"):
            if self.ext_plan == "vend_err":  # 200 with a non-IPC body: never retried whatever the retryable set
                self._ext("vend_err")
                return httpx2.Response(200, content=b"nope")
            return httpx2.Response(200, content=self.vend_body)
        elif req.method == "PUT":
            if self.ext_plan == "put_err":
                self._ext("put_err")
                return httpx2.Response(500, content=b"nope")
            self._ext("ok")
            return httpx2.Response(200)
        if req.method in ("POST", "OPTIONS"):
            self.ext_logged = False     # a request of the operation itself: a later externalisation is a new phase
            it = self.script.next()
            if it["o"]["k"] != "status":
                opts = EXC[it["o"]["k"]]
                raise opts[it["exc"] % len(opts)]()
            body = self._ok_body() if it["o"]["s"] == "ok2xx" else b"not arrow"
            return httpx2.Response(it["code"], headers=self.script.headers(it), content=body)
        self.other.append(f"{req.method} {req.url}")
        return httpx2.Response(599)

    # -- callable / fake-client level
    def call(self) -> _FakeResp:
        it = self.script.next()
        if it["o"]["k"] != "status":
            opts = EXC[it["o"]["k"]]
            raise opts[it["exc"] % len(opts)]()
        return _FakeResp(it["code"], self.script.headers(it))

    def post(self, url: str, *, content: bytes, headers: dict) -> _FakeResp:
        return self.call()

    def options(self, url: str) -> _FakeResp:
        return self.call()


LEVELS = ("callable", "post_httpx", "options_fake", "post_fake", "options_httpx")


def _run_retry(world: _World, cfg: dict, items: list[dict], level: str, fracs: list[float], uni: _Uniform,
               hdr_style: int) -> tuple[list[dict], dict]:
    """Execute one fault script on the real retry loop.  Returns (log, info)."""
    from vgi_rpc.http import _retry

    rc = _retry_config(cfg)
    world.ext_plan = "-"
    world.script.load(items, hdr_style)
    log = world.script.log
    nsleep = [0]

    def sleep(d: float) -> None:
        log.append(_units(d))
        nsleep[0] += 1
        uni.frac = fracs[nsleep[0] % len(fracs)]

    uni.frac = fracs[0]
    try:
        if level == "callable":
            resp = _retry._request_with_retry(world.call, config=rc, method_label="POST", url="http://x/y",
                                              _sleep=sleep)
        elif level == "post_httpx":
            resp = _retry._post_with_retry(world.client, f"{PREFIX}/m", content=b"body", headers={"A": "b"},
                                           config=rc, _sleep=sleep)
        elif level == "options_httpx":
            world.ext_plan = "-"
            resp = _retry._options_with_retry(world.client, f"{PREFIX}/other", config=rc, _sleep=sleep)
        elif level == "post_fake":
            resp = _retry._post_with_retry(world, f"{PREFIX}/m", content=b"body", headers={}, config=rc, _sleep=sleep)
        else:
            resp = _retry._options_with_retry(world, f"{PREFIX}/health", config=rc, _sleep=sleep)
        end = {"k": "resp", "v": CODE_CLASS.get(resp.status_code, f"code{resp.status_code}")}
    except _retry.HttpTransientError as e:
        end = {"k": "transient", "v": CODE_CLASS.get(e.status_code, f"code{e.status_code}")}
    except httpx2.HTTPError as e:
        end = {"k": "raise", "v": _classify_exc(e)}
    except Exception as e:  # noqa: BLE001 -- anything else is recorded, TLC rejects the trace
        end = {"k": "raise", "v": "other:" + type(e).__name__}
    log.append({"e": "end", "r": end})
    return list(log), {"overrun": world.script.overrun, "consumed": world.script.pos}


def _run_stream(world: _World, cfg: dict, items: list[dict], ext_plans: list[str], with_retry_cfg: bool) -> tuple[list[dict], dict]:
    """exchange() / cancel() and their sequences on one real HttpStreamSession."""
    from vgi_rpc.http._client import HttpServerCapabilities, HttpStreamSession
    from vgi_rpc.rpc import AnnotatedBatch, RpcError

    plans = list(ext_plans) or ["ok"]
    world.ext_plan, world.ext_plans = plans[0], plans[1:]
    world.ext_logged = False
    world.other = []
    world.ep = "-"
    world.script.load(items, 0)
    log = world.script.log
    mode = cfg["mode"]
    sess = HttpStreamSession(world.client, PREFIX, "m", b"tok1", world.schema, call_state_bytes=b"call",
                             retry_config=_retry_config(cfg) if with_retry_cfg else None)
    if mode == "warm":      # capabilities learnt earlier: this body is known to be too large for an inline POST
        sess._capabilities = HttpServerCapabilities(max_request_bytes=10, upload_url_support=True)

    def classify(exc: BaseException) -> dict:
        after_ext = bool(log) and log[-1].get("e") == "ext" and log[-1]["x"] != "ok"
        if isinstance(exc, httpx2.HTTPError):
            return {"k": "raise", "v": "ext" if after_ext else _classify_exc(exc)}
        if isinstance(exc, RpcError):
            return {"k": "raise", "v": "ext" if after_ext else "rpc"}
        return {"k": "raise", "v": "other:" + type(exc).__name__}

    if mode in ("cancel", "cancel2"):
        try:
            sess.cancel()
            if mode == "cancel2":
                sess.cancel()
            end = {"k": "resp", "v": "swallowed"}
        except Exception as e:  # noqa: BLE001
            end = classify(e)
    else:
        try:
            out = sess.exchange(AnnotatedBatch(batch=world.batch))
            end = {"k": "resp", "v": "ok2xx"} if out.batch.num_rows == 1 else {"k": "resp", "v": "odd"}
        except Exception as e:  # noqa: BLE001 -- classified; TLC rejects what the model cannot explain
            end = classify(e)
        if mode == "xcancel":
            world.script.op = "csend"
            try:
                sess.cancel()
            except Exception as e:  # noqa: BLE001
                end = {"k": "raise", "v": "cancel-raised:" + type(e).__name__}
    log.append({"e": "end", "r": end})
    return list(log), {"overrun": world.script.overrun, "consumed": world.script.pos, "other": list(world.other)}


CALL_SLEEPERS = ("_post_with_retry", "_options_with_retry")


def _run_call(world: _World, cfg: dict, items: list[dict], fracs: list[float], uni: _Uniform, hdr_style: int) -> tuple[list[dict], dict]:
    """The retry loop as reached through a public entry point (cfg.ep), sleeps observed through the wrappers'
    keyword default (the entry points do not expose `_sleep`)."""
    from vgi_rpc.http import _client as hc
    from vgi_rpc.http import _retry
    from vgi_rpc.rpc import RpcError

    rc = _retry_config(cfg)
    world.ext_plan, world.ext_plans, world.ep = "-", [], cfg["ep"]
    world.script.load(items, hdr_style)
    log = world.script.log
    nsleep = [0]

    def sleep(d: float) -> None:
        log.append(_units(d))
        nsleep[0] += 1
        uni.frac = fracs[nsleep[0] % len(fracs)]

    uni.frac = fracs[0]
    saved = {n: dict(getattr(_retry, n).__kwdefaults__) for n in CALL_SLEEPERS}
    for n in CALL_SLEEPERS:
        getattr(_retry, n).__kwdefaults__["_sleep"] = sleep
    try:
        ep = cfg["ep"]
        if ep == "capabilities":
            hc.http_capabilities(client=world.client, prefix=PREFIX, retry=rc)
        elif ep == "upload_urls":
            hc.request_upload_urls(client=world.client, prefix=PREFIX, retry=rc)
        elif ep == "continuation":
            sess = hc.HttpStreamSession(world.client, PREFIX, "feed", b"tok1", world.schema, call_state_bytes=b"call",
                                        retry_config=rc)
            list(sess)
        else:
            with hc.http_connect(CallSvc, client=world.client, prefix=PREFIX, retry=rc, compression_level=None) as p:
                if ep == "unary":
                    p.add(x=1)
                else:
                    p.feed(n=1)
        last = next((e["o"] for e in reversed(log) if e["e"] == "send"), None)
        end = {"k": "resp", "v": last["s"] if last else "-"}
    except _retry.HttpTransientError as e:
        end = {"k": "transient", "v": CODE_CLASS.get(e.status_code, f"code{e.status_code}")}
    except httpx2.HTTPError as e:
        end = {"k": "raise", "v": _classify_exc(e)}
    except RpcError:
        end = {"k": "raise", "v": "rpc"}
    except Exception as e:  # noqa: BLE001
        end = {"k": "raise", "v": "other:" + type(e).__name__}
    finally:
        for n in CALL_SLEEPERS:
            getattr(_retry, n).__kwdefaults__.clear()
            getattr(_retry, n).__kwdefaults__.update(saved[n])
    log.append({"e": "end", "r": end})
    return list(log), {"overrun": world.script.overrun, "consumed": world.script.pos}


# ------------------------------------------------------------------------------------------------ TLC side
INVS = ["InvSendsBounded", "InvResendOnlyAfterRetryable", "InvSleepWithinBackoffMax", "InvExchangeSentOnce",
        "InvCancelSentOnce", "InvSane"]
QUICK_SLICES = ("main", "statuses", "stream", "deep", "calls", "streamops")
THOROUGH_SLICES = ("ra_depth", "status_breadth", "backoff_breadth", "statuses", "stream_full", "deep", "calls",
                   "streamops")


def _consts(slices=("main",), pts: str = "hi") -> dict:
    return {"Slices": strset(*slices), "Slack": U, "SleepPts": pts}


def _o(s: str, rk: str = "absent", rv: int = 0) -> dict:
    return {"k": "status", "s": s, "ra": {"k": rk, "v": rv}}


def _x(k: str) -> dict:
    return {"k": k, "s": "-", "ra": {"k": "absent", "v": 0}}


# faults appended after the sequence the model consumes (any extra send would pop one of these)
TAIL_POOL = [_o("s503"), _o("s429", "secs", 2), _o("s502"), _o("s504", "inf"), _o("s500"), _o("s413"), _x("connect"),
             _x("timeout"), _x("disconnect"), _o("ok2xx"), _o("o4xx"), _x("proto")]


def _tail(cfg: dict, outs: list[dict], rng) -> list[dict]:
    """Pad the consumed fault sequence to max_retries+2 (retry) / 3 (stream) faults."""
    want = (cfg["mr"] + 2) if cfg["mode"] in ("retry", "call") else 4
    transient = [o for o in TAIL_POOL if (o["k"] == "status" and o["s"] in RSETS[cfg["rset"]])
                 or o["k"] in ("connect", "timeout", "disconnect")]
    tail = []
    while len(outs) + len(tail) < want:
        tail.append(rng.choice(transient if rng.random() < 0.7 else TAIL_POOL))
    return tail


def _sig(cfg: dict, log: list[dict], level: str) -> dict:
    sends = [e["o"] for e in log if e["e"] in ("send", "csend")]
    last = sends[-1] if sends else {"k": "-", "s": "-", "ra": {"k": "-"}}
    return {"mode": cfg["mode"], "ep": cfg.get("ep", "-"), "level": level, "nsends": len(sends), "mr": cfg["mr"],
            "last_kind": last["k"], "last_status": last["s"],
            "ra_kinds": sorted({o["ra"]["k"] for o in sends if o["k"] == "status"})}


def run(ctx: Ctx) -> None:
    warnings.filterwarnings("ignore")
    from vgi_rpc.http import _retry

    wd = ctx.wd.stage("fault")
    quick = ctx.quick
    ctx.rule = ("one evaluation = one complete fault script (configuration, fault sequence padded to max_retries+2 "
                "faults, binding level, jitter fractions) executed on the real retry loop / exchange / cancel; "
                "non-trivial = distinct (configuration, abstract fault sequence, level); scripts with a single "
                "successful send are counted too (they are the 'no resend after success' cases)")
    ctx.assume("scripted httpx2.MockTransport and fake clients stand for the network",
               "the name `random` seen by vgi_rpc.http._retry is replaced by a scripted uniform(); sleep is injected",
               "delays are compared in 1/8 s units after floor/ceil; HTTP-date Retry-After may decay by <= 1 s",
               "status classes o3xx/o4xx/o5xx/ok2xx are concretised by cycling through all their codes")

    if ctx.replay_record:
        _replay(ctx, wd)
        return

    # (1) the intended model satisfies the clauses.  The generation runs below are exhaustive model-checking
    #     runs themselves (upper endpoint of every delay window; InvSane bounds the whole window); thorough
    #     additionally explores both endpoints of every window over all slices.
    slices = QUICK_SLICES if quick else THOROUGH_SLICES
    if not quick:
        model_check(ctx, wd, "Retry", "mc-ends", _consts(QUICK_SLICES + THOROUGH_SLICES, "ends"), INVS)

    # (2) enumerate behaviours, replay
    uni = _Uniform()
    saved_random = _retry.random
    _retry.random = uni
    world = _World()
    traces: list[dict] = []
    meta: list[dict] = []
    index: dict[str, int] = {}
    ctr: dict = {}
    codes_seen: set[int] = set()
    n_beh = 0
    try:
        for group in ([slices] if quick else [[x] for x in slices]):
            r = model_check(ctx, wd, "Retry", "gen-" + "+".join(group), _consts(group), INVS + ["Emit"])
            behs = r.json_lines
            if not behs:
                raise MachineryError(f"Retry gen-{group}: no behaviours emitted")
            for bi, beh in enumerate(behs):
                cfg, mlog = beh["cfg"], beh["log"]
                outs = [e["o"] for e in mlog if e["e"] == "send"]
                n_beh += 1
                if cfg["mode"] == "retry":
                    nvar = 1 if (quick or len(outs) >= 2) else 2
                    if quick and len(outs) <= 1:
                        nvar = 2
                    for v in range(nvar):
                        level = LEVELS[(bi + v * 2) % len(LEVELS)]
                        fr = [(0.0,), (1.0,), (ctx.rng.random(), ctx.rng.random(), ctx.rng.random())][(bi + v) % 3]
                        items = _mk_items(outs + _tail(cfg, outs, ctx.rng), ctr, bi + v)
                        log, info = _run_retry(world, cfg, items, level, list(fr), uni, bi + v)
                        _record(ctx, traces, meta, index, cfg, log, level, items, list(fr), info, outs, codes_seen)
                elif cfg["mode"] == "call":
                    fr = [(0.0,), (1.0,), (ctx.rng.random(), ctx.rng.random())][bi % 3]
                    items = _mk_items(outs + _tail(cfg, outs, ctx.rng), ctr, bi)
                    log, info = _run_call(world, cfg, items, list(fr), uni, bi)
                    _record(ctx, traces, meta, index, cfg, log, "entry:" + cfg["ep"], items, list(fr), info, outs,
                            codes_seen)
                else:
                    outs = [e["o"] for e in mlog if e["e"] in ("send", "csend")]
                    ext = [e["x"] for e in mlog if e["e"] == "ext"]
                    for with_rc in ((True, False) if (bi % 4 == 0 or not quick) else (True,)):
                        items = _mk_items(outs + _tail(cfg, outs, ctx.rng), ctr, bi)
                        log, info = _run_stream(world, cfg, items, ext, with_rc)
                        _record(ctx, traces, meta, index, cfg, log, "session" if with_rc else "session-noretrycfg",
                                items, [], info, outs, codes_seen)
    finally:
        _retry.random = saved_random
        world.client.close()
    ctx.exhaustive = True
    ctx.extra["behaviours_enumerated_by_tlc"] = n_beh
    ctx.extra["distinct_real_logs_judged"] = len(traces)
    ctx.extra["concrete_status_codes_exercised"] = len(codes_seen)
    _observations(ctx)

    # (3) TLC judges the recorded real logs
    verdicts = validate_traces(ctx, wd, "RetryTrace", traces, _consts(), chunk=40000)
    _report(ctx, verdicts, traces, meta)


def _record(ctx, traces, meta, index, cfg, log, level, items, fracs, info, outs, codes_seen) -> None:
    for it in items[:info["consumed"]]:
        if it["code"]:
            codes_seen.add(it["code"])
    key = json.dumps({"cfg": cfg, "log": log}, sort_keys=True)
    concrete = {"level": level, "fracs": fracs,
                "script": [{"o": it["o"], "code": it["code"], "retry_after": it["ra_text"], "exc": it["exc"]}
                           for it in items], "info": info}
    ctx.case([cfg, outs, level], sample={"cfg": cfg, "concrete": concrete, "real_log": log} if len(outs) >= 2 else None)
    i = index.get(key)
    if i is None:
        index[key] = len(traces)
        traces.append({"cfg": cfg, "log": log})
        meta.append(concrete)
    if info.get("other"):
        ctx.drift.append({"what": "request to an unscripted URL", "requests": info["other"], "cfg": cfg})


def _report(ctx: Ctx, verdicts: list[dict], traces: list[dict], meta: list[dict]) -> None:
    for v in verdicts:
        t, m = traces[v["i"]], meta[v["i"]]
        detail = {"cfg": t["cfg"], "real_log": t["log"], "concrete": m, "matched_events": v["matched"]}
        for cl in v["bad"]:
            ctx.violation(cl, _sig(t["cfg"], t["log"], m["level"]), detail)
        if not v["bad"] and not v["accepted"]:
            ctx.drift.append({"what": "real log is not a behaviour of Retry.tla (no clause false)",
                              "first_unexplained_event": v["matched"] + 1, **detail})
    ctx.extra["drift_count"] = len(ctx.drift)


def _observations(ctx: Ctx) -> None:
    """Facts outside the statement, recorded in the evidence only."""
    from vgi_rpc.http._retry import _parse_retry_after

    notes = []
    for s in ["Thu, 01 Jan 2037 00:00:00 +99999999999999999999", "１２", "1_0"]:
        try:
            notes.append({"retry_after": s, "parsed": repr(_parse_retry_after(s))})
        except Exception as e:  # noqa: BLE001
            notes.append({"retry_after": s, "escapes": type(e).__name__})
    ctx.extra["observations_outside_statement"] = notes


def _replay(ctx: Ctx, wd) -> None:
    """Re-execute the concrete script of a replay record and judge it again."""
    from vgi_rpc.http import _retry

    rec = ctx.replay_record
    d = rec["detail"]
    cfg, m = d["cfg"], d["concrete"]
    items = [{"o": s["o"], "code": s["code"], "ra_text": s["retry_after"], "exc": s["exc"]} for s in m["script"]]
    for it in items:  # HTTP-dates are regenerated relative to now
        if it["o"]["k"] == "status" and it["o"]["ra"]["k"] in ("date_past", "date_future"):
            it["ra_text"] = _ra_text(it["o"]["ra"], 0)
    uni = _Uniform()
    saved = _retry.random
    _retry.random = uni
    world = _World()
    try:
        if cfg["mode"] == "retry":
            log, info = _run_retry(world, cfg, items, m["level"], m["fracs"] or [0.5], uni, 0)
        elif cfg["mode"] == "call":
            log, info = _run_call(world, cfg, items, m["fracs"] or [0.5], uni, 0)
        else:
            ext = [e["x"] for e in d["real_log"] if e["e"] == "ext"]
            log, info = _run_stream(world, cfg, items, ext, m["level"] == "session")
    finally:
        _retry.random = saved
        world.client.close()
    ctx.case([cfg, "replay"], sample={"cfg": cfg, "real_log": log})
    traces = [{"cfg": cfg, "log": log}]
    verdicts = validate_traces(ctx, wd, "RetryTrace", traces, _consts())
    _report(ctx, verdicts, traces, [m])
