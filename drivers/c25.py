"""C25 -- sticky sessions are isolated by worker and identity.  Spec: spec/sticky/StickyToken.tla."""
import base64
import re

from drivers._sticky_world import SeqWorld
from vf import table
from vf.core import Ctx

META = {
    "engine": "sticky",
    "text": "TLC enumerates the complete table opener x lifecycle position x presenting worker x presenting identity x "
            "token mutation x verb (960 rows) with the access predicate; every row is concretised on two real WSGI "
            "workers sharing a key (fresh session driven to the lifecycle position through the real API: in-method "
            "close, DELETE, TTL + reaper sweep, TTL without sweep, shutdown), with many concrete mutations per row "
            "(every byte of the token in thorough), and TLC judges each observation with StickyToken!Conforms "
            "(dispatch only with access, session_lost otherwise, DELETE 204 iff owned and live, indistinguishable "
            "200, a foreign presentation never closes the victim).",
    "note": "Trusted: identities are selected by a test authenticator from a header; identities with NUL bytes in "
            "the domain are out of scope (the AAD encoding is only injective for NUL-free domains); the registry "
            "clock is the logical clock installed in vgi_rpc.http.server._sticky.",
}

_RID = re.compile(rb"[0-9a-f]{16}")


def _mutations(tok: str, mut: str, rng, n: int, every_byte: bool) -> list[str]:
    raw = base64.urlsafe_b64decode(tok + "=" * (-len(tok) % 4))
    enc = lambda b: base64.urlsafe_b64encode(b).rstrip(b"=").decode()
    if mut == "none":
        return [tok]
    if mut == "flip":
        pos = range(len(raw)) if every_byte else sorted({0, 1, len(raw) // 2, len(raw) - 1, *rng.sample(range(len(raw)), min(n, len(raw)))})
        out = []
        for p in pos:
            for mask in ((1, 0x80) if every_byte else (1 << rng.randrange(8),)):
                b = bytearray(raw)
                b[p] ^= mask
                out.append(enc(bytes(b)))
        return out
    if mut == "trunc":
        lens = range(1, len(raw)) if every_byte else sorted({1, 2, 12, len(raw) - 17, len(raw) - 1, *rng.sample(range(len(raw)), min(n, len(raw)))})
        return [enc(raw[:k]) for k in lens if k >= 1] + [tok[:-1], tok[: len(tok) // 2]]
    if mut == "extend":
        return [enc(raw + b"\x00"), enc(raw + raw[-16:]), tok + "A", enc(raw + bytes(rng.randrange(256) for _ in range(40)))]
    if mut == "garbage":
        return ["x", "!!!!", "A" * 4000, enc(bytes(rng.randrange(256) for _ in range(len(raw)))), "=", tok[::-1]]
    raise ValueError(mut)


def _norm(r) -> tuple:
    hs = {k.lower(): v for k, v in r.headers.items() if k.lower() not in ("x-request-id", "date")}
    return (r.status_code, tuple(sorted(hs.items())), _RID.sub(b"#", r.content or b""))


def run(ctx: Ctx) -> None:
    cases = table.enumerate_cases(ctx, "sticky", "StickyToken", invariants=["AccessNeedsAll", "Monotone"])
    ctx.exhaustive = True
    ctx.rule = ("case = one presentation (row of StickyToken!Cases concretised with one concrete token mutation) "
                "executed against real workers; non-trivial = distinct (row, concrete token) pairs")
    w = SeqWorld(ttl=1.5)
    obs, meta = [], []
    try:
        ref200 = {}
        for ci, cj in enumerate(cases):
            c = cj["case"]
            nvar = 3 if ctx.quick else 8
            every = (not ctx.quick) and c["life"] == "live" and c["worker"] == "mint" and c["presenter"] == c["opener"]
            # one probe session to learn the token length / produce mutations deterministically
            for vi in range(10**6):
                w.sched.clock = 0.0
                tok, marker = w.open("mint", c["opener"])
                muts = _mutations(tok, c["mut"], ctx.rng, nvar, every)
                if vi >= len(muts):
                    # close the spare session
                    w.delete("mint", c["opener"], tok)
                    break
                presented = muts[vi]
                if presented == tok and c["mut"] != "none":
                    w.delete("mint", c["opener"], tok)
                    continue
                # drive the session to its lifecycle position through the real API
                life = c["life"]
                if life == "closed":
                    r, err = w.call("mint", "use_close", c["opener"], tok)
                    assert err is None and r.headers.get("VGI-Session-Close") == "true", (r.status_code, err)
                elif life == "deleted":
                    assert w.delete("mint", c["opener"], tok).status_code == 204
                elif life == "reaped":
                    w.sched.clock = 3.0
                    w.regs["mint"].drain_expired()
                elif life == "expired":
                    w.sched.clock = 3.0
                elif life == "shutdown":
                    w.regs["mint"].shutdown()
                closed_before = marker in w.closed
                nlog = len(w.log)
                if c["verb"] == "call":
                    r, err = w.call(c["worker"], "use", c["presenter"], presented)
                    dispatched = len(w.log) > nlog
                    lost = bool(err and (err.get("kind") == "session_lost" or err.get("type") == "SessionLostError"))
                    same200 = True
                else:
                    r = w.delete(c["worker"], c["presenter"], presented)
                    dispatched = False   # DELETE dispatches no method; closing is judged by Delete204IffOwnedLive / ForeignCannotClose
                    lost = False
                    key = c["worker"]
                    if key not in ref200:
                        ref200[key] = _norm(w.delete(key, "anon", None))
                    same200 = r.status_code != 200 or _norm(r) == ref200[key]
                closed_by = (marker in w.closed) and not closed_before
                victim_ok = True
                if life == "live" and not cj["exp"]["access"]:
                    r2, err2 = w.call("mint", "use", c["opener"], tok)
                    victim_ok = err2 is None and w.log and w.log[-1] == ("mint", "use", marker)
                # cleanup
                if marker not in w.closed:
                    w.sched.clock = 0.0 if life not in ("expired",) else w.sched.clock
                    w.delete("mint", c["opener"], tok)
                    w.regs["mint"].drain_expired()
                o = {"dispatched": bool(dispatched), "lost": lost, "status": r.status_code, "same200": bool(same200),
                     "victim_ok": bool(victim_ok), "closed_by": bool(closed_by)}
                obs.append({"case": c, "obs": o})
                meta.append({"row": c, "token_variant": vi, "presented_len": len(presented)})
                ctx.case([c, presented != tok, vi, len(presented)],
                         sample={"row": c, "token_variant": vi, "observed": o} if ci % 97 == 0 else None)
    finally:
        w.restore()
    for idx, clauses in table.judge(ctx, "sticky", "StickyToken", obs):
        c = obs[idx]["case"]
        for cl in clauses:
            ctx.violation(cl, {"life": c["life"], "worker": c["worker"], "presenter": c["presenter"], "opener": c["opener"],
                               "mut": c["mut"], "verb": c["verb"]}, {"meta": meta[idx], "observed": obs[idx]["obs"]})
