------------------------------- MODULE IdleAcceptTrace -------------------------------
(* Batch trace validation for IdleAccept: every recorded execution of the real _serve_socket_threaded must be a
   behaviour of IdleAccept (for *some* choice of the two design switches at each step -- the trace decides which),
   with the C33 clauses evaluated in every state reached.

   Trace file (IOEnv.TRACE_FILE): JSON array of [mp |-> max_connections (0 = None), ev |-> <<event, ...>>]; one event per controller operation:
     a     "Arrive" | "Loop" | "H" | "TFire" | "TRun"        which thread took a step (or environment)
     c, t  connection id / timer id (0 when not applicable)
     acc   what a pending accept() did in this step: "" | "conn" | "timeout"
     lab   park label of the loop thread after the step        hl   park label of handler c after the step
     cc, sr, tm   conn_count, shutdown_requested (0/1), id of the Timer in `timer` (0 = None)   [-1 = not observable]
     ts, tk       state and interval class of every Timer object created so far
     serving      connection ids inside server.serve()
   Registers: 2*tid -> furthest event matched; 2*tid+1 -> clauses violated in a matched state.                   *)
EXTENDS IdleAccept, Integers, Json, IOUtils, TLCExt
Traces == JsonDeserialize(IOEnv.TRACE_FILE)
VARIABLES tid, l
tvars == <<vars, tid, l>>

Kinds == {"grace", "idle", "short", "long"}
LoopLabel(p) == CASE p = "start" -> "start" [] p = "accept" -> "accept" [] p = "exited" -> "EXIT" [] OTHER -> "acq"
HLabel(p) == CASE p = "start" -> "start" [] p = "semwait" -> "sem" [] p = "serving" -> "serve" [] p = "fin" -> "acq" [] p = "done" -> "EXIT"
               [] OTHER -> "?"

TraceInit == /\ tid \in 1..Len(Traces) /\ l = 1 /\ Init /\ maxPar = Traces[tid].mp
Ev == Traces[tid].ev[l]
Consume == l <= Len(Traces[tid].ev) /\ l' = l + 1 /\ UNCHANGED tid

Match == /\ (Ev.cc # -1 => connCount' = Ev.cc)
         /\ (Ev.sr # -1 => shutdownReq' = (Ev.sr = 1))
         /\ (Ev.tm # -1 => timer' = Ev.tm)
         /\ nTimers' = Len(Ev.ts)
         /\ \A t \in 1..Len(Ev.ts) : tst'[t] = Ev.ts[t] /\ tkind'[t] = Ev.tk[t]
         /\ {c \in Conns : hpc'[c] = "serving"} = {Ev.serving[i] : i \in 1..Len(Ev.serving)}
         /\ LoopLabel(lpc') = Ev.lab

LoopStep == /\ Ev.a = "Loop"
            /\ \/ /\ Ev.acc = ""
                  /\ \/ LStart \/ (\E k \in Kinds : LInit(k)) \/ (\E f \in BOOLEAN : LLock1(f)) \/ LLock2
                     \/ LCheck \/ LFinal
               \/ Ev.acc = "conn" /\ LAccept
               \/ Ev.acc = "timeout" /\ LTimeout
HStep == /\ Ev.a = "H" /\ Ev.c \in Conns
         /\ \/ HStart(Ev.c) \/ HAcquire(Ev.c) \/ HServeEnd(Ev.c) \/ (\E k \in Kinds : HFin(Ev.c, k))
         /\ HLabel(hpc'[Ev.c]) = Ev.hl
TraceNext == /\ Consume
             /\ \/ Ev.a = "Arrive" /\ Arrive
                \/ LoopStep \/ HStep
                \/ Ev.a = "TFire" /\ Ev.t \in Timers /\ TFire(Ev.t)
                \/ Ev.a = "TRun" /\ Ev.t \in Timers /\ (\E g \in BOOLEAN : TRun(Ev.t, g))
             /\ Match
TraceSpec == TraceInit /\ [][TraceNext]_tvars

Bad == {c \in {"NoExitWhileServing", "ExitOnlyAfterIdlePeriod", "NoLateAcceptAbandoned"} :
          \/ (c = "NoExitWhileServing" /\ ~NoExitWhileServing)
          \/ (c = "ExitOnlyAfterIdlePeriod" /\ ~ExitOnlyAfterIdlePeriod)
          \/ (c = "NoLateAcceptAbandoned" /\ ~NoLateAcceptAbandoned)}
Track == /\ TLCSet(2 * tid, IF TLCGet(2 * tid) < l THEN l ELSE TLCGet(2 * tid))
         /\ TLCSet(2 * tid + 1, TLCGet(2 * tid + 1) \cup Bad)
ASSUME \A i \in 1..Len(Traces) : TLCSet(2 * i, 0) /\ TLCSet(2 * i + 1, {})
Verdicts == \A i \in 1..Len(Traces) :
   PrintT("@@J@@" \o ToJson([tid |-> i, matched |-> TLCGet(2 * i) - 1, len |-> Len(Traces[i].ev), bad |-> TLCGet(2 * i + 1)]))
=========================================================================================
