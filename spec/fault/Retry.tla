------------------------------- MODULE Retry -------------------------------
(* C38 -- HTTP retries are bounded and never duplicate non-idempotent calls.

   Three client-side machines over one fault alphabet, selected by cfg.mode:

     "retry"     the loop of vgi_rpc/http/_retry.py:_request_with_retry (used by unary, stream init,
                 producer continuation, OPTIONS capability probe, upload-URL vending, introspection)
     "exchange"  HttpStreamSession.exchange(): one POST, never retried; a single re-POST after a 413 once the
                 body has been externalised through the upload-URL flow
     "cancel"    HttpStreamSession.cancel(): one best-effort POST, every failure swallowed
     "cancel2"   cancel() called twice on one session: the second call sends nothing
     "xcancel"   exchange() followed by cancel() on the same session (the cancel POST is a "csend" event)
     "warm"      exchange() on a session whose cached capabilities already say the body is too large: the body is
                 externalised first, then POSTed (and once more after a 413)
     "call"      the retry loop as reached through a public entry point (cfg.ep): unary call, stream init,
                 producer continuation, capability probe, upload-URL vending -- with a retry configuration or
                 none at all (rset "off")

   The environment (server / proxy / network) chooses the outcome of every request from
        {connect error, timeout, disconnect before any response byte, other protocol error}
      + status class x Retry-After shape.
   A behaviour is complete when pc = "done"; `log` is the history (send / sleep / ext / end events) and is
   exactly what the driver records from the real code.  The property clauses are operators over (cfg, log),
   so the same definitions are (a) invariants of the model and (b) the judge of recorded real logs.

   Delays are integers in "delay units" (the driver uses 1/8 s); BIG stands for +infinity.                  *)
EXTENDS Integers, Sequences, FiniteSets, TLC, Json

CONSTANTS Slices,       \* names of the configuration/alphabet grids explored in this run, see Grid
          Slack,        \* units by which an HTTP-date Retry-After may have decayed when it is parsed
          SleepPts      \* "ends": both endpoints of the delay window are explored; "hi": only the upper one

BIG == 1000000

\* ------------------------------------------------------------------ configuration
RSet(n) == CASE n = "default" -> {"s429", "s502", "s503", "s504"}
             [] n = "none"    -> {}
             [] n = "off"     -> {}           \* no HttpRetryConfig at all: a single send, responses returned as they are
             [] n = "custom"  -> {"s500", "s429"}
             [] n = "wide"    -> {"s413", "s429", "s500", "s502", "s503", "s504", "o4xx", "o5xx", "o3xx"}
Base(b) == CASE b = "b2m4" -> 2 [] b = "b0m4" -> 0 [] b = "b2m32" -> 2 [] b = "b2m0" -> 2 [] b = "b8m4" -> 8
BMax(b) == CASE b = "b2m4" -> 4 [] b = "b0m4" -> 4 [] b = "b2m32" -> 32 [] b = "b2m0" -> 0 [] b = "b8m4" -> 4

\* Small named grids ("slices"): configuration grid x fault alphabet.  Several slices instead of one product keep
\* the number of complete fault sequences (which are all replayed into the real code) in the 10^4..10^5 range.
StAll == {"ok2xx", "o3xx", "s413", "s429", "s500", "s502", "s503", "s504", "o4xx", "o5xx"}
RA7 == {"absent", "secs_small", "secs_big", "neg", "nan", "inf", "date_far", "garbage"}
RAAll == RA7 \cup {"secs_mid", "neginf", "date_past", "date_near", "date_naive"}
\* "proto": another protocol error (bytes were flowing); "neterr": a read / write / close error on an established
\* connection -- neither is a connection error, a timeout or a disconnect before any response byte
ExcAll == {"connect", "timeout", "disconnect", "proto", "neterr"}
ExtAll == {"ok", "no_support", "caps_err", "vend_err", "put_err"}
Grid(sl) ==
  CASE sl = "main" ->            \* quick: flags x max_retries over the statement's alphabet
         [mode |-> {"retry"}, mr |-> {0, 1, 2}, conn |-> BOOLEAN, ra |-> BOOLEAN, rset |-> {"default"},
          bo |-> {"b2m4"}, st |-> {"ok2xx", "s413", "s503"}, raa |-> RA7, exc |-> ExcAll, ep |-> {"-"}]
    [] sl = "statuses" ->        \* quick: every status class, every retryable set, degenerate backoff_max
         [mode |-> {"retry"}, mr |-> {0, 1}, conn |-> {TRUE}, ra |-> {TRUE},
          rset |-> {"default", "none", "custom", "wide"}, bo |-> {"b2m4", "b2m0"}, st |-> StAll,
          raa |-> {"absent", "secs_small"}, exc |-> {"connect"}, ep |-> {"-"}]
    [] sl = "stream" ->          \* quick: exchange / cancel
         [mode |-> {"exchange", "cancel"}, mr |-> {0, 2}, conn |-> {TRUE}, ra |-> {TRUE},
          rset |-> {"default", "wide"}, bo |-> {"b2m4"}, st |-> {"ok2xx", "s413", "s503", "s500", "o4xx"},
          raa |-> RA7, exc |-> ExcAll, ep |-> {"-"}]
    [] sl = "ra_depth" ->        \* thorough: every Retry-After shape
         [mode |-> {"retry"}, mr |-> {0, 1, 2}, conn |-> {TRUE}, ra |-> BOOLEAN, rset |-> {"default"},
          bo |-> {"b2m4"}, st |-> {"ok2xx", "s429", "s503"}, raa |-> RAAll, exc |-> ExcAll, ep |-> {"-"}]
    [] sl = "status_breadth" ->  \* thorough: every status class x every retryable set
         [mode |-> {"retry"}, mr |-> {0, 1, 2}, conn |-> {TRUE}, ra |-> {TRUE},
          rset |-> {"default", "none", "custom", "wide"}, bo |-> {"b2m4"}, st |-> StAll,
          raa |-> {"absent", "secs_small", "inf"}, exc |-> ExcAll, ep |-> {"-"}]
    [] sl = "backoff_breadth" -> \* thorough: every (base, max) pair
         [mode |-> {"retry"}, mr |-> {0, 1, 2}, conn |-> {TRUE}, ra |-> BOOLEAN, rset |-> {"default"},
          bo |-> {"b0m4", "b2m32", "b2m0", "b8m4"}, st |-> {"ok2xx", "s413", "s503"},
          raa |-> RA7, exc |-> ExcAll, ep |-> {"-"}]
    [] sl = "stream_full" ->     \* thorough: exchange / cancel over the full alphabet
         [mode |-> {"exchange", "cancel"}, mr |-> {0, 2}, conn |-> {TRUE}, ra |-> {TRUE},
          rset |-> {"default", "wide"}, bo |-> {"b2m4"}, st |-> StAll, raa |-> RAAll, exc |-> ExcAll, ep |-> {"-"}]
    [] sl = "deep" ->            \* the default max_retries = 3: a fourth attempt, backoff 2^3
         [mode |-> {"retry"}, mr |-> {3}, conn |-> {TRUE}, ra |-> {TRUE}, rset |-> {"default"}, bo |-> {"b2m4", "b2m32"},
          st |-> {"ok2xx", "s503"}, raa |-> {"absent", "inf"}, exc |-> {"connect", "disconnect", "neterr"},
          ep |-> {"-"}]
    [] sl = "calls" ->           \* public entry points that go through the retry loop, with and without a configuration
         [mode |-> {"call"}, mr |-> {0, 2}, conn |-> {TRUE}, ra |-> {TRUE}, rset |-> {"default", "off"},
          bo |-> {"b2m4"}, st |-> {"ok2xx", "s503", "s500"}, raa |-> {"absent", "secs_small"},
          exc |-> {"connect", "disconnect", "proto", "neterr"},
          ep |-> {"unary", "init", "continuation", "capabilities", "upload_urls"}]
    [] sl = "streamops" ->       \* operation sequences on one stream session
         [mode |-> {"cancel2", "xcancel", "warm"}, mr |-> {2}, conn |-> {TRUE}, ra |-> {TRUE}, rset |-> {"default"},
          bo |-> {"b2m4"}, st |-> {"ok2xx", "s413", "s503", "s500"}, raa |-> {"absent", "secs_small"},
          exc |-> {"connect", "timeout", "disconnect", "neterr"}, ep |-> {"-"}]
ConfigsOf(sl) == LET g == Grid(sl) IN
                   [sl : {sl}, mode : g.mode, mr : g.mr, conn : g.conn, ra : g.ra, rset : g.rset, bo : g.bo,
                    ep : g.ep]
Configs == UNION {ConfigsOf(sl) : sl \in Slices}

\* ------------------------------------------------------------------ fault alphabet
\* Retry-After shapes: [k, v] with v in delay units
RA(n) == CASE n = "absent"      -> [k |-> "absent", v |-> 0]
           [] n = "secs_small"  -> [k |-> "secs", v |-> 2]         \* below every non-zero backoff_max of the grid
           [] n = "secs_mid"    -> [k |-> "secs", v |-> 8]
           [] n = "secs_big"    -> [k |-> "secs", v |-> 960]       \* above every backoff_max
           [] n = "neg"         -> [k |-> "neg", v |-> 40]
           [] n = "nan"         -> [k |-> "nan", v |-> 0]
           [] n = "inf"         -> [k |-> "inf", v |-> 0]
           [] n = "neginf"      -> [k |-> "neginf", v |-> 0]
           [] n = "date_past"   -> [k |-> "date_past", v |-> 0]
           [] n = "date_near"   -> [k |-> "date_future", v |-> 24] \* 3 s ahead
           [] n = "date_far"    -> [k |-> "date_future", v |-> 28800]
           [] n = "date_naive"  -> [k |-> "date_naive", v |-> 0]   \* HTTP-date without zone: unparseable
           [] n = "garbage"     -> [k |-> "garbage", v |-> 0]
NoRA == RA("absent")
OutcomesOf(sl) == LET g == Grid(sl) IN
                      {[k |-> "status", s |-> s, ra |-> RA(n)] : s \in g.st, n \in g.raa}
                 \cup {[k |-> x, s |-> "-", ra |-> NoRA] : x \in g.exc}

Min(a, b) == IF a <= b THEN a ELSE b
Max(a, b) == IF a >= b THEN a ELSE b
Pow2(n) == CASE n = 0 -> 1 [] n = 1 -> 2 [] n = 2 -> 4 [] n = 3 -> 8 [] OTHER -> 16

\* parsed Retry-After: bounds of the value in delay units (NaN, garbage, zone-less dates and absence give none)
RAWin(ra) == CASE ra.k = "secs"        -> [some |-> TRUE, lo |-> ra.v, hi |-> ra.v]
               [] ra.k = "neg"         -> [some |-> TRUE, lo |-> 0 - ra.v, hi |-> 0 - ra.v]
               [] ra.k = "inf"         -> [some |-> TRUE, lo |-> BIG, hi |-> BIG]
               [] ra.k = "neginf"      -> [some |-> TRUE, lo |-> 0 - BIG, hi |-> 0 - BIG]
               [] ra.k = "date_past"   -> [some |-> TRUE, lo |-> 0, hi |-> 0]
               [] ra.k = "date_future" -> [some |-> TRUE, lo |-> ra.v - Slack, hi |-> ra.v]
               [] OTHER                -> [some |-> FALSE, lo |-> 0, hi |-> 0]

\* window the next sleep must fall into: full jitter over [0, min(base*2^attempt, bmax)], raised to the
\* server's Retry-After (clamped to bmax) when that is honoured
JHi(c, a) == Min(Base(c.bo) * Pow2(a), BMax(c.bo))
Window(c, a, o) ==
  LET w == RAWin(o.ra)
      use == c.ra /\ o.k = "status" /\ w.some
  IN [lo |-> IF use THEN Max(0, Min(w.lo, BMax(c.bo))) ELSE 0,
      hi |-> IF use THEN Max(JHi(c, a), Min(w.hi, BMax(c.bo))) ELSE JHi(c, a)]
NoWin == [lo |-> 0, hi |-> 0]

\* ------------------------------------------------------------------ state
VARIABLES cfg, pc, attempt, log, result, win
vars == <<cfg, pc, attempt, log, result, win>>
None == [k |-> "none", v |-> "-"]

InitWith(c) == /\ cfg = c /\ pc = (IF c.mode = "warm" THEN "ext" ELSE "send") /\ attempt = 0 /\ log = <<>> /\ result = None /\ win = NoWin
Init == \E c \in Configs : InitWith(c)

\* what the loop treats as transient (faithful to the configuration flags)
Transient(c, o) == \/ o.k = "status" /\ o.s \in RSet(c.rset)
                   \/ o.k \in {"connect", "timeout", "disconnect"} /\ c.conn /\ c.rset # "off"
Final(c, o) == IF o.k = "status"
               THEN IF o.s \in RSet(c.rset) THEN [k |-> "transient", v |-> o.s] ELSE [k |-> "resp", v |-> o.s]
               ELSE [k |-> "raise", v |-> o.k]
\* what the entry point makes of the loop's result: a response that is not a 2xx Arrow stream is an RpcError
\* (the capability probe reads headers off any response)
CallFinal(c, o) == LET f == Final(c, o) IN
                     IF f.k = "resp" /\ f.v # "ok2xx" /\ c.ep # "capabilities" THEN [k |-> "raise", v |-> "rpc"] ELSE f

\* ---- mode "retry": one iteration of the for-loop = Send, then (Sleep | End)
Send(o) == /\ cfg.mode \in {"retry", "call"} /\ pc = "send"
           /\ log' = Append(log, [e |-> "send", o |-> o])
           /\ IF Transient(cfg, o) /\ attempt < cfg.mr
              THEN /\ pc' = "sleep" /\ win' = Window(cfg, attempt, o) /\ UNCHANGED result
              ELSE /\ pc' = "end" /\ win' = NoWin
                   /\ result' = IF cfg.mode = "call" THEN CallFinal(cfg, o) ELSE Final(cfg, o)
           /\ UNCHANGED <<cfg, attempt>>

SleepObs(dlo, dhi) == /\ pc = "sleep"
                      /\ win.lo <= dlo /\ dhi <= win.hi
                      /\ log' = Append(log, [e |-> "sleep", dlo |-> dlo, dhi |-> dhi, nan |-> FALSE])
                      /\ attempt' = attempt + 1 /\ pc' = "send" /\ win' = NoWin
                      /\ UNCHANGED <<cfg, result>>
\* the window is convex and every clause is monotone in the delay: the endpoints suffice in the model
Sleep == \E d \in (IF SleepPts = "ends" THEN {win.lo, win.hi} ELSE {win.hi}) : SleepObs(d, d)

End == /\ pc = "end"
       /\ log' = Append(log, [e |-> "end", r |-> result])
       /\ pc' = "done"
       /\ UNCHANGED <<cfg, attempt, result, win>>

\* ---- stream sessions: attempt counts the exchange POSTs issued so far
ExchangeModes == {"exchange", "xcancel", "warm"}
CancelModes == {"cancel", "cancel2"}
XFinal(c, o) == IF c.mode \in CancelModes THEN [k |-> "resp", v |-> "swallowed"]
                ELSE IF o.k = "status" THEN (IF o.s = "ok2xx" THEN [k |-> "resp", v |-> o.s]
                                                              ELSE [k |-> "raise", v |-> "rpc"])
                ELSE [k |-> "raise", v |-> o.k]
\* after exchange() of an "xcancel" session comes its cancel()
AfterExchange(c) == IF c.mode = "xcancel" THEN "csend" ELSE "end"
XPost(o) == /\ cfg.mode \in ExchangeModes \cup CancelModes /\ pc = "send"
            /\ log' = Append(log, [e |-> "send", o |-> o])
            /\ attempt' = attempt + 1
            /\ IF cfg.mode \in ExchangeModes /\ attempt = 0 /\ o.k = "status" /\ o.s = "s413"
               THEN /\ pc' = "ext" /\ UNCHANGED result
               ELSE /\ pc' = AfterExchange(cfg) /\ result' = XFinal(cfg, o)
            /\ UNCHANGED <<cfg, win>>
\* externalisation of the body: OPTIONS capability probe (unless cached), upload-URL vending, PUT -- one outcome
XExt(x) == /\ pc = "ext"
           /\ (cfg.mode = "warm" => x \in {"ok", "vend_err", "put_err"})     \* capabilities are cached: no probe
           /\ log' = Append(log, [e |-> "ext", x |-> x])
           /\ IF x = "ok" THEN /\ pc' = "send" /\ UNCHANGED result
                          ELSE /\ pc' = AfterExchange(cfg) /\ result' = [k |-> "raise", v |-> "ext"]
           /\ UNCHANGED <<cfg, attempt, win>>
\* cancel() after exchange(): one best-effort POST whatever exchange() did; its outcome is swallowed
XCancelPost(o) == /\ cfg.mode = "xcancel" /\ pc = "csend"
                  /\ log' = Append(log, [e |-> "csend", o |-> o])
                  /\ pc' = "end"
                  /\ UNCHANGED <<cfg, attempt, result, win>>

Next == \/ \E o \in OutcomesOf(cfg.sl) : Send(o) \/ XPost(o) \/ XCancelPost(o)
        \/ Sleep
        \/ \E x \in ExtAll : XExt(x)
        \/ End
Spec == Init /\ [][Next]_vars

\* ------------------------------------------------------------------ property clauses over (configuration, log)
Sends(lg) == SelectSeq(lg, LAMBDA ev : ev.e = "send")
\* the statement's notion of "retryable": independent of the two boolean flags
StmtRetryable(c, o) == \/ o.k = "status" /\ o.s \in RSet(c.rset)
                       \/ o.k \in {"connect", "timeout", "disconnect"}

\* without a retry configuration (rset "off") nothing is retried: one send
Budget(c) == IF c.rset = "off" THEN 1 ELSE c.mr + 1
SendsBounded(c, lg) == c.mode \in {"retry", "call"} => Len(Sends(lg)) <= Budget(c)
ResendOnlyAfterRetryable(c, lg) ==
  c.mode \in {"retry", "call"} => \A i \in 2..Len(Sends(lg)) : StmtRetryable(c, Sends(lg)[i - 1].o)
SleepWithinBackoffMax(c, lg) ==
  \A i \in 1..Len(lg) : lg[i].e = "sleep" => (~lg[i].nan /\ 0 <= lg[i].dlo /\ lg[i].dhi <= BMax(c.bo))
ExchangeSentOnce(c, lg) ==
  c.mode \in ExchangeModes => LET p == Sends(lg) IN
                           /\ Len(p) <= 2
                           /\ Len(p) = 2 => (p[1].o.k = "status" /\ p[1].o.s = "s413")
CancelSentOnce(c, lg) ==
  /\ c.mode \in CancelModes => Len(Sends(lg)) <= 1
  /\ c.mode = "xcancel" => Len(SelectSeq(lg, LAMBDA ev : ev.e = "csend")) <= 1

ClauseNames == {"SendsBounded", "ResendOnlyAfterRetryable", "SleepWithinBackoffMax", "ExchangeSentOnce",
                "CancelSentOnce"}
Holds(n, c, lg) == CASE n = "SendsBounded" -> SendsBounded(c, lg)
                     [] n = "ResendOnlyAfterRetryable" -> ResendOnlyAfterRetryable(c, lg)
                     [] n = "SleepWithinBackoffMax" -> SleepWithinBackoffMax(c, lg)
                     [] n = "ExchangeSentOnce" -> ExchangeSentOnce(c, lg)
                     [] n = "CancelSentOnce" -> CancelSentOnce(c, lg)
Violated(c, lg) == {n \in ClauseNames : ~Holds(n, c, lg)}

\* invariants of the model (one per clause)
InvSendsBounded == SendsBounded(cfg, log)
InvResendOnlyAfterRetryable == ResendOnlyAfterRetryable(cfg, log)
InvSleepWithinBackoffMax == SleepWithinBackoffMax(cfg, log)
InvExchangeSentOnce == ExchangeSentOnce(cfg, log)
InvCancelSentOnce == CancelSentOnce(cfg, log)
\* model sanity: the loop always terminates with a result, windows are well-formed, every script is finite
InvSane == /\ (pc = "done" => result # None)
           /\ win.lo <= win.hi /\ 0 <= win.lo /\ win.hi <= BMax(cfg.bo)
           /\ attempt <= Max(cfg.mr, 2)
           /\ Len(log) <= 2 * cfg.mr + 8

\* complete behaviours, printed for the replay driver
Emit == pc = "done" => PrintT("@@J@@" \o ToJson([cfg |-> cfg, log |-> log]))
=============================================================================
