"""X02 (extended coverage) -- CallStatistics accounting: what the server reports at dispatch end (hook stats, the six
access-log fields) equals what crossed the wire in that dispatch.  spec/wire/CallStats.tla (counting model, table)."""
import json
import multiprocessing as mp
import os
import shutil
import threading
import time
import zlib

from vf import table
from vf.core import Ctx
from vf.tlc import MachineryError, render_cfg, require_ok, run_tlc, wrap_module

META = {
    "engine": "wire",
    "text": "TLC enumerates CallStats.tla's cases (transport x script of 1-2 calls over a 20-method service: unary ok / "
            "raise with and without client logs, __describe__, unknown method, producers and exchanges with and "
            "without header, steps emitting 1-3 rows with 0-2 logs, finishing, raising, init logging / raising; client "
            "exits after k ticks (k in 0..3, exchange inputs of 1-3 rows) by close or cancel, or iteration to the end) "
            "and checks the table invariants ErrorBatchCounted, PerCallFresh, Shape.  Every single-call case and a "
            "seeded sample of the two-call cases (same connection / same worker thread) is executed on a real pipe "
            "connection and on the in-process HTTP client with a recording dispatch hook and a handler on the "
            "vgi_rpc.access logger; the bytes that crossed the wire are tapped off the transport, cut into units (pipe: "
            "one per call; HTTP: one per request) and decoded batch by batch; TLC judges every recorded run with "
            "Conforms: reported output / input batches, rows and bytes = what crossed the wire in that unit "
            "(OutBatchesMatchWire, OutRowsMatchWire, OutBytesMatchWire, InBatchesMatchWire, InRowsMatchWire, "
            "InBytesMatchWire), one report per dispatch and source (ReportedOnce), hook stats = access-log fields "
            "(HookEqualsAccessLog), the accumulator is empty at dispatch start (FreshAtStart), BytesPositiveIffRows; "
            "ModelAgrees (report = the model's numbers) is drift.",
    "note": "Extended coverage: no listed property talks about the statistics.  Counting rule taken from the README "
            "section 'Call Statistics', the CallStatistics docstring and the code comments: producer ticks and cancel "
            "batches are not counted (the README's 'tick batches count as input' is contradicted by the code and by "
            "tests/test_call_statistics.py: modelled as Dev_TicksUncounted), log / error / header / HTTP token batches "
            "are.  Input batches a socket client sends to a stream whose call already failed belong to no dispatch.  "
            "Bytes are exact here because every column is a non-null int64 (8 bytes per row).  Trusted: the wire tap "
            "(server side of the pipe pair, in-process HTTP bodies) and pyarrow's IPC reader used to decode it.",
    "technique": "TLA+ counting model (decision table) enumerated and sanity-checked by TLC; TLC-enumerated scripts "
                 "replayed on real pipe / in-process HTTP connections with wire taps; TLC judges the recorded numbers",
}

SANITY = ["ErrorBatchCounted", "PerCallFresh", "Shape"]
HOOKS_Q = [["ok"]]
HOOKS_T = [["ok"], ["ok", "ok"]]


def consts(max_calls, max_ticks, fix=True):
    return {"MaxCalls": max_calls, "MaxTicks": max_ticks, "Transports": {"pipe", "http"}, "Dev_TicksUncounted": True,
            "FixHttpErrorCounted": fix}


def step_str(s: dict) -> str:
    return f"l{s['logs']}" + (f"e{s['rows']}" if s["act"] == "emit" else s["act"])


def methods_of(ctx: Ctx, wd) -> list:
    wrap_module(wd, "CallStats", "MC_Methods", {"EmitMethods": 'PrintT("@@J@@" \\o ToJson([methods |-> Methods]))'},
                extends="TLC, Json")
    src = (wd / "MC_Methods.tla").read_text().replace("====", "VARIABLE z\nZInit == z = 0\nZNext == UNCHANGED z\n"
                                                               "ASSUME EmitMethods\n====")
    (wd / "MC_Methods.tla").write_text(src)
    r = run_tlc(wd, "MC_Methods", render_cfg(init_next=("ZInit", "ZNext"), constants=consts(1, 0)), workers=1,
                env={"JAVA_TOOL_OPTIONS": "-XX:TieredStopAtLevel=1"})
    require_ok(r, "CallStats method table")
    ms = next(j["methods"] for j in r.json_lines if "methods" in j)
    for m in ms:
        m["steps"] = [step_str(s) for s in m["steps"]]
    return ms


def work(args) -> list:
    """Worker process: run a shard of cases.  job = (index, tr, hooks, script, xs)."""
    from drivers import _extra1_stats as S
    from drivers import _extra1_world as W

    methods, shard = args
    W.install_logging(True)
    sp, impl, cp = W.build(methods)
    http: dict = {}
    out = []
    for ji, tr, hooks, script, xs in shard:
        if tr == "pipe":
            conn = S.StatsPipeConn(sp, impl, cp, hooks)
        else:
            conn = http.get(tuple(hooks))
            if conn is None:
                conn = http[tuple(hooks)] = S.StatsHttpConn(sp, impl, cp, hooks)
        r = S.run_units(conn, script, xs)
        if tr == "pipe" and not r["hung"]:
            conn.close(10.0)
        if r["hung"] and tr == "http":
            http.pop(tuple(hooks), None)
        out.append((ji, r))
    for c in http.values():
        c.close()
    return out


def _warm() -> None:
    import vgi_rpc.http  # noqa: F401
    from vgi_rpc.http import _testing  # noqa: F401


def run(ctx: Ctx) -> None:
    nproc = int(os.environ.get("VERIF_PROCS", "6" if ctx.quick else "10"))
    pool = mp.get_context("spawn").Pool(nproc, initializer=_warm)      # imports overlap with the model checking
    try:
        _run(ctx, pool, nproc)
    finally:
        pool.terminate()


def _run(ctx: Ctx, pool, nproc: int) -> None:
    quick = ctx.quick
    wd = ctx.wd.stage("wire")
    t0 = time.time()
    methods = methods_of(ctx, wd)
    singles = table.enumerate_cases(ctx, "wire", "CallStats", constants=consts(1, 3), invariants=SANITY,
                                    name="CallStats: every single-call case MaxTicks=3 (table invariants)")
    # background (TLC on other cores while the real code runs): the two-call space against the table invariants (no
    # emission; the replayed pairs are composed below), and the design as found (HTTP /init and exchange failures answer
    # with batches nobody counted), kept as documentation
    mt2 = 1 if quick else 2
    bg: dict = {}

    def background() -> None:
        try:
            wdb = wd / "bg"
            wdb.mkdir()
            for f in wd.glob("*.tla"):
                shutil.copy(f, wdb / f.name)
            (wdb / "CallStats_All.tla").write_text(
                "---- MODULE CallStats_All ----\nEXTENDS CallStats\nVARIABLE c\nAInit == c \\in Cases\nANext == UNCHANGED c\n"
                + "".join(f"Inv_{x} == {x}(c)\n" for x in SANITY) + "====\n")
            bg["pairs"] = run_tlc(wdb, "CallStats_All", render_cfg(init_next=("AInit", "ANext"), constants=consts(2, mt2),
                                                                   invariants=[f"Inv_{x}" for x in SANITY]),
                                  workers=4, env={"JAVA_TOOL_OPTIONS": "-XX:TieredStopAtLevel=1"}, timeout=1500)
            bg["asfound"] = run_tlc(wdb, "CallStats_All", render_cfg(init_next=("AInit", "ANext"),
                                                                     constants=consts(1, 1, fix=False),
                                                                     invariants=["Inv_ErrorBatchCounted"]),
                                    workers=2, env={"JAVA_TOOL_OPTIONS": "-XX:TieredStopAtLevel=1"})
        except BaseException as e:  # noqa: BLE001
            bg["error"] = e

    bth = threading.Thread(target=background, daemon=True)
    bth.start()

    singles.sort(key=lambda j: json.dumps(j["case"], sort_keys=True))
    descs = sorted({json.dumps(j["case"]["script"][0], sort_keys=True) for j in singles})
    hooks_sets = HOOKS_Q if quick else HOOKS_T
    n_pairs = 300 if quick else 4000
    cases = [(j["case"], j["exp"]) for j in singles]
    for _ in range(n_pairs):
        cases.append(({"tr": ctx.rng.choice(["pipe", "http"]),
                       "script": [json.loads(ctx.rng.choice(descs)), json.loads(ctx.rng.choice(descs))]}, None))
    ctx.exhaustive = True
    ctx.rule = ("case = (transport, script of 1-2 calls) executed on a fresh real pipe connection / the in-process HTTP "
                "client with a recording hook; single-call cases: all that TLC enumerates; two-call cases: a seeded "
                "sample of CallDescs x CallDescs (the space TLC checks the table invariants on); non-trivial = distinct "
                "(transport, hooks, script) tuples executed")
    ctx.assume("HTTP legs use the in-process falcon test client (make_sync_client), one worker, no response cap, no "
               "compression; the second call of a two-call case runs in the same thread against the same app",
               "socket-family transport = make_pipe_pair with a byte tap on the server side; a unit ends when the serve "
               "loop has consumed everything the client wrote and is blocked reading the next request",
               f"hook configurations: {hooks_sets} (one recording hook called directly; two through the composite)",
               f"two-call cases: seeded sample ({n_pairs})")
    ctx.extra["model_phase_s"] = round(time.time() - t0, 1)
    t1 = time.time()

    seed = ctx.rng.randrange(1, 50)
    jobs = []
    for ci, (case, exp) in enumerate(cases):
        for hooks in hooks_sets:
            jobs.append((ci, hooks))
    shards: dict = {}
    for ji, (ci, hooks) in enumerate(jobs):
        case = cases[ci][0]
        xs = [seed * 10 + 3 * k + 1 for k in range(len(case["script"]))]
        shards.setdefault(zlib.crc32(json.dumps([case, hooks], sort_keys=True).encode()) % nproc, []).append(
            (ji, case["tr"], hooks, case["script"], xs))
    try:
        parts = pool.map_async(work, [(methods, sh) for _, sh in sorted(shards.items())], chunksize=1).get(timeout=1500)
    except mp.TimeoutError as e:
        raise MachineryError("X02 workers did not finish") from e
    results: dict = {}
    for part in parts:
        for ji, r in part:
            results[ji] = r
    ctx.extra["real_code_phase_s"] = round(time.time() - t1, 1)

    obs = []
    for ji, (ci, hooks) in enumerate(jobs):
        case = cases[ci][0]
        r = results[ji]
        ctx.case([case["tr"], hooks, case["script"]])
        obs.append({"case": case, "obs": {"units": r["units"], "hung": r["hung"], "nhooks": len(hooks)}})
    for ji in range(0, len(jobs), max(1, len(jobs) // 5)):
        ci, hooks = jobs[ji]
        ctx.sample({"case": cases[ci][0], "hooks": hooks, "expected_units": cases[ci][1],
                    "recorded_units": [{"wire": {k: v for k, v in u["wire"].items() if v}, "reports": u["reports"]}
                                       for u in results[ji]["units"]]})
    bad = table.judge(ctx, "wire", "CallStats", obs, constants=consts(1, 0))
    n_drift = 0
    for i, clauses in bad:
        ci, hooks = jobs[i]
        case, exp = cases[ci]
        r = results[i]
        det = {"case": case, "hooks": hooks, "expected_units": exp, "recorded_units": r["units"],
               "client_events": r.get("hist"), "clauses": clauses}
        hard = [c for c in clauses if c.partition("@")[0] not in ("UnitsAlign", "ModelAgrees")]
        if not hard:
            n_drift += 1
            ctx.drift.append({"drift": sorted(clauses), **det})
            continue
        for cl in hard:
            name, _, meth = cl.partition("@")
            ctx.violation(name, {"tr": case["tr"], "m": meth, "hooks": len(hooks)}, det)
    bth.join(1500)
    if bth.is_alive() or "error" in bg:
        raise MachineryError(f"X02 background model checking failed: {bg.get('error')}")
    ctx.add_tlc(f"CallStats: every case of <= 2 calls MaxTicks={mt2} (table invariants only)", bg["pairs"])
    require_ok(bg["pairs"], "CallStats table invariants on the two-call space")
    ctx.extra["design_as_found_violates"] = "ErrorBatchCounted" if bg["asfound"].violated else None
    ctx.extra["design_as_found_counterexample"] = (bg["asfound"].counterexample[-1][1][:600]
                                                   if bg["asfound"].counterexample else None)
    ctx.extra["runs_judged"] = len(obs)
    ctx.extra["runs_conforming"] = len(obs) - len(bad)
    ctx.extra["runs_drift_only"] = n_drift
