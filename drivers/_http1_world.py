"""Real HTTP worlds for C11 / C16 (builder http1): services, a recording request router over several in-process
WSGI workers, IPC body decomposition, an in-memory ExternalStorage that counts bytes per response.

Nothing here decides a property clause: it drives `make_sync_client` apps through the real `http_connect` client and
records what happened (turn boundaries, message sizes, uploads).  No source change in /repo.
"""
import hashlib
import sys
import warnings
from dataclasses import dataclass, field
from pathlib import Path
from typing import Protocol
from urllib.parse import urlparse

_SHIMS = str(Path(__file__).resolve().parent / "_shims_fault")
if _SHIMS not in sys.path:
    sys.path.insert(0, _SHIMS)          # harness stand-in for the uninstalled `tenacity` (read-only, trusted base)

import pyarrow as pa
from pyarrow import ipc

from vgi_rpc.log import Level
from vgi_rpc.rpc import CallContext, OutputCollector, ProducerState, ExchangeState, RpcServer, Stream, StreamState
from vgi_rpc.rpc import AnnotatedBatch
from vgi_rpc.utils import ArrowSerializableDataclass

warnings.filterwarnings("ignore")

KEY = b"http1-shared-token-key-012345678"
ARROW_CT = "application/vnd.apache.arrow.stream"


# ------------------------------------------------------------------------------------------------ payloads
def payload(seed: int, k: int, n: int) -> bytes:
    """Deterministic incompressible bytes for batch k of a stream (so codecs cannot shrink a turn)."""
    return hashlib.shake_256(f"{seed}:{k}".encode()).digest(n) if n else b""


def schema_padded(pad: int) -> pa.Schema:
    s = pa.schema([pa.field("k", pa.int64()), pa.field("p", pa.binary())])
    return s.with_metadata({"pad": "x" * pad}) if pad else s


# ------------------------------------------------------------------------------------------------ IPC decomposition
def split_ipc(body: bytes) -> list[dict]:
    """[{'schema': bytes, 'msgs': [{'bytes', 'rows', 'md'}], 'eos': bytes, 'total': bytes}] for every IPC stream in body."""
    out: list[dict] = []
    pos = 0
    n = len(body)
    while pos < n:
        rd = pa.BufferReader(body[pos:])
        # message extents
        ext: list[tuple[str, int]] = []
        while True:
            p0 = rd.tell()
            if p0 >= n - pos:
                break
            try:
                m = ipc.read_message(rd)
            except EOFError:
                ext.append(("EOS", rd.tell() - p0))
                break
            ext.append((m.type, rd.tell() - p0))
        used = rd.tell()
        reader = ipc.open_stream(pa.BufferReader(body[pos:pos + used]))
        msgs = []
        i = 1
        while True:
            try:
                b, cm = reader.read_next_batch_with_custom_metadata()
            except StopIteration:
                break
            md = {bytes(k): bytes(v) for k, v in cm.items()} if cm is not None else {}
            msgs.append({"bytes": ext[i][1], "rows": b.num_rows, "md": md, "batch": b})
            i += 1
        out.append({"schema": ext[0][1], "msgs": msgs, "eos": ext[-1][1] if ext[-1][0] == "EOS" else 0, "total": used,
                    "arrow_schema": reader.schema})
        pos += used
    return out


# ------------------------------------------------------------------------------------------------ service
SNAPS: dict[int, list] = {}      # seed -> [(batch index, remaining_response_bytes, remaining_externalized_response_bytes)]


def _schema(pad: int) -> pa.Schema:
    return schema_padded(pad)


def _batch(seed: int, k: int, n: int, pad: int) -> pa.RecordBatch:
    return pa.RecordBatch.from_pydict({"k": [k], "p": [payload(seed, k, n)]}, schema=_schema(pad))


@dataclass
class PS(ProducerState):
    """Producer whose whole script travels in the cursor token."""

    sizes: list[int]
    logs: list[int]
    seed: int
    eager: bool
    pad: int
    i: int = 0

    def produce(self, out: OutputCollector, ctx: CallContext) -> None:
        _produce(self, self, out, ctx)


@dataclass(frozen=True)
class Script(ArrowSerializableDataclass):
    sizes: list[int]
    logs: list[int]
    seed: int
    eager: bool
    pad: int


@dataclass
class PC(ProducerState):
    """Producer whose script is immutable *call state* (sealed once at /init, resolved from the per-worker cache or
    from the echoed call token); the cursor token carries only the position."""

    CALL_STATE_TYPE = Script
    i: int = 0

    def bind_call_state(self, call_state) -> None:  # noqa: ANN001
        object.__setattr__(self, "_cs", call_state)

    def produce(self, out: OutputCollector, ctx: CallContext) -> None:
        _produce(self, self._cs, out, ctx)  # type: ignore[attr-defined]


def _produce(st, sc, out: OutputCollector, ctx: CallContext) -> None:  # noqa: ANN001
    SNAPS.setdefault(sc.seed, []).append((st.i, out.remaining_response_bytes, out.remaining_externalized_response_bytes))
    if st.i >= len(sc.sizes):
        out.finish()
        return
    if sc.logs and sc.logs[st.i]:
        ctx.client_log(Level.INFO, "L" * sc.logs[st.i])
    out.emit(_batch(sc.seed, st.i, sc.sizes[st.i], sc.pad))
    st.i += 1
    if sc.eager and st.i == len(sc.sizes):
        out.finish()


def rows_batch(seed: int, k: int, n: int, r: int, pad: int) -> pa.RecordBatch:
    """Batch k of a rows-mode producer: r rows (0, 1 or many), every row carrying the batch's payload."""
    return pa.RecordBatch.from_pydict({"k": [k] * r, "p": [payload(seed, k, n)] * r}, schema=_schema(pad))


@dataclass
class PR(ProducerState):
    """Producer whose batches have 0 / 1 / many rows and carry application metadata (k, tag)."""

    sizes: list[int]
    rows: list[int]
    seed: int
    eager: bool
    pad: int
    i: int = 0

    def produce(self, out: OutputCollector, ctx: CallContext) -> None:
        if self.i >= len(self.sizes):
            out.finish()
            return
        out.emit(rows_batch(self.seed, self.i, self.sizes[self.i], self.rows[self.i], self.pad),
                 metadata={"k": str(self.i), "tag": f"m{self.i}"})
        self.i += 1
        if self.eager and self.i == len(self.sizes):
            out.finish()


@dataclass(frozen=True)
class Hdr(ArrowSerializableDataclass):
    blob: bytes


@dataclass
class XS(ExchangeState):
    seed: int
    pad: int
    n: int = 0

    def exchange(self, input: AnnotatedBatch, out: OutputCollector, ctx: CallContext) -> None:  # noqa: A002
        size = input.batch.column("size")[0].as_py()
        log = input.batch.column("log")[0].as_py()
        if log:
            ctx.client_log(Level.INFO, "L" * log)
        out.emit(_batch(self.seed, self.n, size, self.pad))
        self.n += 1


X_IN = pa.schema([pa.field("size", pa.int64()), pa.field("log", pa.int64())])


class H1Svc(Protocol):
    def prod(self, sizes: list[int], logs: list[int], seed: int, eager: bool, pad: int) -> Stream[StreamState]: ...
    def prodc(self, sizes: list[int], logs: list[int], seed: int, eager: bool, pad: int) -> Stream[StreamState]: ...
    def prodh(self, sizes: list[int], logs: list[int], seed: int, eager: bool, pad: int, hdr: int) -> Stream[StreamState, Hdr]: ...
    def prodr(self, sizes: list[int], rows: list[int], seed: int, eager: bool, pad: int) -> Stream[StreamState]: ...
    def produ(self, sizes: list[int], logs: list[int], seed: int, eager: bool, pad: int, member: int) -> Stream[StreamState]: ...
    def exch(self, seed: int, pad: int) -> Stream[StreamState]: ...
    def exchh(self, seed: int, pad: int, hdr: int) -> Stream[StreamState, Hdr]: ...
    def unary(self, size: int, log: int, seed: int) -> bytes: ...


class H1Impl:
    def prod(self, sizes: list[int], logs: list[int], seed: int, eager: bool, pad: int) -> Stream[PS]:
        return Stream(output_schema=_schema(pad), state=PS(sizes=list(sizes), logs=list(logs), seed=seed, eager=eager, pad=pad))

    def prodc(self, sizes: list[int], logs: list[int], seed: int, eager: bool, pad: int) -> Stream[PC]:
        cs = Script(sizes=list(sizes), logs=list(logs), seed=seed, eager=eager, pad=pad)
        st = PC()
        st.bind_call_state(cs)
        return Stream(output_schema=_schema(pad), state=st, call_state=cs)

    def prodh(self, sizes: list[int], logs: list[int], seed: int, eager: bool, pad: int, hdr: int) -> Stream[PS, Hdr]:
        return Stream(output_schema=_schema(pad), state=PS(sizes=list(sizes), logs=list(logs), seed=seed, eager=eager, pad=pad),
                      header=Hdr(blob=payload(seed, 9999, hdr)))

    def prodr(self, sizes: list[int], rows: list[int], seed: int, eager: bool, pad: int) -> Stream[PR]:
        return Stream(output_schema=_schema(pad), state=PR(sizes=list(sizes), rows=list(rows), seed=seed, eager=eager, pad=pad))

    def produ(self, sizes: list[int], logs: list[int], seed: int, eager: bool, pad: int, member: int) -> Stream[PS | PC]:
        """Union-state method: member 0 = cursor-only state, member 1 = state with call state (tagged in the token)."""
        return self.prodc(sizes, logs, seed, eager, pad) if member else self.prod(sizes, logs, seed, eager, pad)

    def exch(self, seed: int, pad: int) -> Stream[XS]:
        return Stream(output_schema=_schema(pad), state=XS(seed=seed, pad=pad), input_schema=X_IN)

    def exchh(self, seed: int, pad: int, hdr: int) -> Stream[XS, Hdr]:
        return Stream(output_schema=_schema(pad), state=XS(seed=seed, pad=pad), input_schema=X_IN,
                      header=Hdr(blob=payload(seed, 9999, hdr)))

    def unary(self, size: int, log: int, seed: int, ctx: CallContext) -> bytes:
        if log:
            ctx.client_log(Level.INFO, "L" * log)
        return payload(seed, 0, size)


# ------------------------------------------------------------------------------------------------ storage
class CountingStorage:
    """In-memory ExternalStorage; `calls` = every upload() invocation with the request it happened in."""

    def __init__(self) -> None:
        self.objects: dict[str, tuple[bytes, str | None]] = {}
        self.calls: list[dict] = []
        self.current_request = -1          # set by the Router around every request

    def upload(self, data: bytes, schema: pa.Schema, *, content_encoding: str | None = None) -> str:
        oid = f"o{len(self.objects) + 1:06d}"
        self.objects[oid] = (bytes(data), content_encoding)
        raw = len(data)
        if content_encoding:
            from vgi_rpc._codec import Encoding, decompress

            raw = len(decompress(Encoding(content_encoding), bytes(data)))
        self.calls.append({"req": self.current_request, "bytes": len(data), "raw": raw, "enc": content_encoding})
        return f"https://store.test/b/{oid}"

    def fetch(self, url: str) -> bytes:
        data, enc = self.objects[url.rsplit("/", 1)[1]]
        if enc:
            from vgi_rpc._codec import Encoding, decompress

            return decompress(Encoding(enc), data)
        return data


class patched_fetch:  # noqa: N801 -- context manager
    """Client-side pointer resolution without network: `vgi_rpc.external.fetch_url` reads from the CountingStorage."""

    def __init__(self, storage: CountingStorage) -> None:
        self.storage = storage

    def __enter__(self):
        import vgi_rpc.external as ext

        self.ext = ext
        self.saved = ext.fetch_url
        st = self.storage
        ext.fetch_url = lambda url, config=None, url_validator=None, **kw: st.fetch(url)
        try:
            import tenacity

            if getattr(tenacity, "__file__", "").startswith(_SHIMS):
                tenacity.sleep = lambda s: None
        except Exception:  # noqa: BLE001
            pass
        return self

    def __exit__(self, *a) -> None:  # noqa: ANN002
        self.ext.fetch_url = self.saved


# ------------------------------------------------------------------------------------------------ router
class Resp:
    __slots__ = ("content", "headers", "status_code")

    def __init__(self, status_code: int, content: bytes, headers: dict) -> None:
        self.status_code, self.content, self.headers = status_code, content, headers


class Router:
    """What `http_connect(client=...)` talks to: a load balancer in front of several in-process workers.

    `route` names the worker that serves the next request(s); `accept` is the Accept-Encoding the transport
    advertises (None = whatever the vgi client put there).  Every exchange is logged with the raw (as sent) body
    length, the content-decoded body and its IPC decomposition."""

    def __init__(self, apps: dict, accept: str | None = None, prefix: str = "", storage: CountingStorage | None = None) -> None:
        import falcon.testing

        self.clients = {w: falcon.testing.TestClient(a) for w, a in apps.items()}
        self.route = next(iter(apps))
        self.plan: list[str] = []          # per-request routing plan (consumed first)
        self.accept = accept
        self.custom_header = False
        self.prefix = prefix
        self.log: list[dict] = []
        self.storage = storage

    def _decode(self, raw: bytes, headers: dict) -> bytes:
        enc = (headers.get("content-encoding") or headers.get("x-vgi-content-encoding") or "").strip().lower()
        if not enc:
            return raw
        from vgi_rpc._codec import Encoding, decompress

        return decompress(Encoding(enc), raw)

    def _do(self, verb: str, url: str, content: bytes | None, headers: dict | None) -> Resp:
        h = dict(headers or {})
        if self.accept is not None:
            if self.custom_header:           # VGI's own negotiation header (answer comes on X-VGI-Content-Encoding)
                h["X-VGI-Accept-Encoding"] = self.accept
                h["Accept-Encoding"] = ""
            else:
                h["Accept-Encoding"] = self.accept
        w = self.plan.pop(0) if self.plan else self.route
        path = urlparse(url).path
        idx = len(self.log)
        if self.storage is not None:
            self.storage.current_request = idx
        fn = getattr(self.clients[w], f"simulate_{verb}")
        res = fn(path, body=content, headers=h) if content is not None else fn(path, headers=h)
        hdrs = {k.lower(): v for k, v in dict(res.headers).items()}
        raw = res.content
        body = self._decode(raw, hdrs)
        self.log.append({"i": idx, "verb": verb, "path": path, "w": w, "status": res.status_code, "raw": len(raw),
                         "body": body, "enc": hdrs.get("content-encoding") or hdrs.get("x-vgi-content-encoding") or "",
                         "rpc_error": hdrs.get("x-vgi-rpc-error", ""), "ctype": hdrs.get("content-type", "")})
        if self.storage is not None:
            self.storage.current_request = -1
        return Resp(res.status_code, body, {**dict(res.headers), **hdrs})

    def post(self, url: str, *, content: bytes, headers: dict) -> Resp:
        return self._do("post", url, content, headers)

    def get(self, url: str, *, headers: dict | None = None) -> Resp:
        return self._do("get", url, None, headers)

    def options(self, url: str, *, headers: dict | None = None) -> Resp:
        return self._do("options", url, None, headers)

    def delete(self, url: str, *, headers: dict | None = None) -> Resp:
        return self._do("delete", url, None, headers)

    def put(self, url: str, **kw) -> Resp:  # noqa: ANN003
        return Resp(404, b"", {})

    def close(self) -> None:
        pass


def make_apps(workers, *, cap=None, ext_cap=None, storage=None, threshold=None, cache_entries=4096, compression=None,
              prefix=""):
    """One RpcServer + WSGI app per worker name, sharing the token key (independent call-state caches)."""
    from vgi_rpc.external import Compression, ExternalLocationConfig
    from vgi_rpc.http import make_wsgi_app

    apps = {}
    for w in workers:
        ext = None
        if storage is not None:
            ext = ExternalLocationConfig(storage=storage, externalize_threshold_bytes=threshold, url_validator=None,
                                         compression=Compression(compression) if compression else None)
        srv = RpcServer(H1Svc, H1Impl(), external_location=ext)
        apps[w] = make_wsgi_app(srv, token_key=KEY, max_response_bytes=cap, max_externalized_response_bytes=ext_cap,
                                call_state_cache_entries=cache_entries, prefix=prefix)
    return apps


def call_cache_of(app):
    """Observation only: the worker's call-state cache (None when the internals moved)."""
    try:
        res = app._router.find("/prod/exchange")[0]
        for v in vars(res).values() if hasattr(res, "__dict__") else [getattr(res, s) for s in res.__slots__]:
            c = getattr(v, "_call_state_cache", None)
            if c is not None:
                return c
    except Exception:  # noqa: BLE001
        return None
    return None
