"""Small RPC service used by the C32 pool checks: in-process behind a fake SubprocessTransport (level 1) and as a
real subprocess worker (level 2: `python -m drivers._conc2_poolsvc`).

Every answer depends on the request (echo of a caller-chosen tag), so a borrower that reads somebody else's
response is detected by value.  (No `from __future__ import annotations`: type hints are resolved at runtime.)
"""
import os
import sys
from dataclasses import dataclass
from typing import Protocol

import pyarrow as pa

from vgi_rpc.log import Level
from vgi_rpc.rpc import AnnotatedBatch, CallContext, ExchangeState, OutputCollector, ProducerState, RpcServer, Stream
from vgi_rpc.utils import ArrowSerializableDataclass

_V = pa.schema([pa.field("v", pa.int64())])


@dataclass(frozen=True)
class Hdr(ArrowSerializableDataclass):
    tag: int


@dataclass
class CountState(ProducerState):
    tag: int
    n: int
    logs: int
    i: int = 0

    def produce(self, out: OutputCollector, ctx: CallContext) -> None:
        if self.i >= self.n:
            out.finish()
            return
        for k in range(self.logs):
            out.client_log(Level.INFO, f"t{self.tag}.b{self.i}.l{k}")
        out.emit_pydict({"v": [self.tag * 1000 + self.i]})
        self.i += 1


@dataclass
class CountFailState(ProducerState):
    """Producer that raises on its `at`-th turn (a server-side error in the middle of a stream)."""

    tag: int
    at: int
    i: int = 0

    def produce(self, out: OutputCollector, ctx: CallContext) -> None:
        if self.i >= self.at:
            raise ValueError(f"producer {self.tag} fails at {self.at}")
        out.emit_pydict({"v": [self.tag * 1000 + self.i]})
        self.i += 1


@dataclass
class AddFailState(ExchangeState):
    tag: int

    def exchange(self, input: AnnotatedBatch, out: OutputCollector, ctx: CallContext) -> None:
        raise ValueError(f"exchange {self.tag} fails")


@dataclass
class AddState(ExchangeState):
    tag: int
    logs: int

    def exchange(self, input: AnnotatedBatch, out: OutputCollector, ctx: CallContext) -> None:
        for k in range(self.logs):
            out.client_log(Level.INFO, f"x{self.tag}.l{k}")
        out.emit_pydict({"v": [x + self.tag for x in input.batch.column("v").to_pylist()]})


class PoolSvc(Protocol):
    def pid(self) -> int: ...
    def echo(self, x: int) -> int: ...
    def echo_log(self, x: int, logs: int) -> int: ...
    def count(self, tag: int, n: int, logs: int) -> Stream[CountState]: ...
    def count_h(self, tag: int, n: int, logs: int) -> Stream[CountState, Hdr]: ...
    def xchg(self, tag: int, logs: int) -> Stream[AddState]: ...
    def boom(self, x: int) -> int: ...
    def count_fail(self, tag: int, at: int) -> Stream[CountFailState]: ...
    def init_fail(self, tag: int) -> Stream[CountState]: ...
    def init_fail_h(self, tag: int) -> Stream[CountState, Hdr]: ...
    def xchg_fail(self, tag: int) -> Stream[AddFailState]: ...


class PoolSvcImpl:
    def pid(self) -> int:
        return os.getpid()

    def echo(self, x: int) -> int:
        return x

    def echo_log(self, x: int, logs: int, ctx: CallContext) -> int:
        for k in range(logs):
            ctx.client_log(Level.INFO, f"u{x}.l{k}")
        return x

    def count(self, tag: int, n: int, logs: int) -> Stream[CountState]:
        return Stream(output_schema=_V, state=CountState(tag=tag, n=n, logs=logs))

    def count_h(self, tag: int, n: int, logs: int, ctx: CallContext) -> Stream[CountState, Hdr]:
        for k in range(logs):
            ctx.client_log(Level.INFO, f"h{tag}.l{k}")
        return Stream(output_schema=_V, state=CountState(tag=tag, n=n, logs=logs), header=Hdr(tag=tag))

    def xchg(self, tag: int, logs: int) -> Stream[AddState]:
        return Stream(output_schema=_V, state=AddState(tag=tag, logs=logs), input_schema=_V)


    def boom(self, x: int) -> int:
        raise ValueError(f"boom {x}")

    def count_fail(self, tag: int, at: int) -> Stream[CountFailState]:
        return Stream(output_schema=_V, state=CountFailState(tag=tag, at=at))

    def init_fail(self, tag: int) -> Stream[CountState]:
        raise ValueError(f"init {tag} fails")

    def init_fail_h(self, tag: int) -> Stream[CountState, Hdr]:
        raise ValueError(f"init {tag} fails (header declared)")

    def xchg_fail(self, tag: int) -> Stream[AddFailState]:
        return Stream(output_schema=_V, state=AddFailState(tag=tag), input_schema=_V)


def make_server() -> RpcServer:
    return RpcServer(PoolSvc, PoolSvcImpl())


def worker_cmd() -> list[str]:
    return [sys.executable, "-m", "drivers._conc2_poolsvc"]


if __name__ == "__main__":
    # stdin/stdout by default (pool workers); `--unix PATH --idle-timeout S` for the launcher smoke run of C33
    from vgi_rpc.rpc import run_server

    run_server(make_server())
