"""C35 -- sensitive claim values never reach access logs.  Spec: spec/data/Redact.tla."""
import io
import json
import logging
import types
import warnings
from collections import OrderedDict
from collections.abc import Mapping
from dataclasses import dataclass
from typing import Protocol

from vgi_rpc.rpc import CallContext, OutputCollector, ProducerState, Stream

from drivers._data_util import enumerate_cases, faithful_counterexample, judge_dedup
from vf import world
from vf.core import Ctx

META = {
    "engine": "data",
    "text": "Redact.tla enumerates every claims tree that is a spine of containers (objects and lists) of depth 1..4 with "
            "an optional sibling leaf at every level and a key class (sensitive exact / sensitive as substring / case "
            "variant / neutral) at every object level, optionally with one sub-object referenced twice, plus a few spines of depth "
            "5-6 (about 5,300 trees quick, depth 3 plus container chains to depth 5; about 77,000 thorough, depth 4 plus chains to depth 6; "
            "containers are mappings, lists and tuples in every parent/child combination), logged under the configurations of "
            "Redact!Configs (redactor mode x logger level x dict/list vs Mapping/tuple x authenticated x formatter), with the oracle 'a leaf is hidden iff "
            "some key on its path is sensitive; the outermost sensitive key stays visible with a redacted value', and "
            "checks seven table-sanity invariants (incl. agreement with key-by-key redaction on flat claims) and refutes the faithful variant (Dev_TopLevelOnly) on the model.  Each tree is "
            "concretised with real claim names from the sensitive list and a unique marker per leaf (strings and "
            "integers), emitted as a real access-log record through rpc._server._emit_access_log with the real "
            "VgiJsonFormatter / VgiAccessLogFormatter (and, sampled, end-to-end through an authenticated HTTP call), "
            "with the default redactor and with a raising custom redactor; the serialized line is searched for the "
            "markers and TLC judges every observation with Redact!Conforms.",
    "note": "Trusted: the key-class word lists (taken from the property statement), substring search of unique ASCII "
            "markers in the serialized line, the path walk that classifies a key as redacted/verbatim/missing.  "
            "'Redacted value' is read leniently: the key is present and nothing of its original subtree is in its value.",
}

SX = ["token", "secret", "key", "password", "authorization", "email", "phone", "address", "birthdate", "gender", "name",
      "given_name", "family_name", "middle_name", "nickname", "preferred_username", "picture", "profile", "website"]
SS = ["access_token", "refresh_token", "client_secret", "api_key", "signing_key_id", "user_password", "x-authorization-hdr",
      "work_email", "email_verified", "phone_number", "home_address", "address_line1", "birthdate_utc", "gender_identity",
      "id_token_hint", "my_given_name_x", "legal_family_name", "profile_url", "website_url", "picture_large"]
NEUTRAL = ["sub", "iss", "aud", "scope", "ctx", "roles", "org", "tenant", "groups", "iat", "exp", "jti", "data", "meta",
           "vgi_proxy_proof", "realm", "acr", "amr"]


def _case_variant(w: str, rng) -> str:
    outs = [w.upper(), w.title(), w.capitalize(), "".join(c.upper() if i % 2 else c for i, c in enumerate(w)),
            w[:-1] + w[-1].upper()]
    outs = [o for o in outs if o != w]
    return rng.choice(outs)


_RR = {"sx": 0, "ss": 0, "sc": 0, "n": 0}


def _keyname(cls: str, rng, taken: set[str]) -> str:
    """round-robin through the word lists, so every listed name is used (many times) at every depth"""
    for _ in range(60):
        _RR[cls] += 1
        i = _RR[cls]
        if cls == "sx":
            k = SX[i % len(SX)]
        elif cls == "ss":
            k = SS[i % len(SS)]
        elif cls == "sc":
            pool = SX + SS
            k = _case_variant(pool[i % len(pool)], rng)
        else:
            k = NEUTRAL[i % len(NEUTRAL)]
        if k not in taken and k.lower() not in taken:
            return k
    raise AssertionError("harness: no free key name")


def _marker(rng, kind: str):
    if kind == "int":
        return rng.randrange(10 ** 11, 10 ** 12)
    core = "MK" + "".join(rng.choice("0123456789abcdefghjkmnpqrstvwxyz") for _ in range(14))
    if kind == "deco":
        return core + rng.choice([' "q"', "\\n", "é☃", "@example.com", " +1-555"])
    return core


def _needle(m) -> str:
    return str(m) if isinstance(m, int) else m[:16]


class ROMap(Mapping):
    """a Mapping that is not a dict (what a JWT library or a frozen config object may hand over)"""

    def __init__(self, d: dict) -> None:
        self._d = d

    def __getitem__(self, k):
        return self._d[k]

    def __iter__(self):
        return iter(self._d)

    def __len__(self) -> int:
        return len(self._d)

    def __repr__(self) -> str:
        return f"ROMap({self._d!r})"


def _wrap_obj(d: dict, flavour: str, n: int):
    if flavour == "plain":
        return d
    return [types.MappingProxyType(d), OrderedDict(d), ROMap(d)][n % 3]


def plain(x):
    """JSON view of a claims object of any flavour (for evidence / replay files)"""
    if isinstance(x, Mapping):
        return {str(k): plain(v) for k, v in x.items()}
    if isinstance(x, (list, tuple)):
        return [plain(v) for v in x]
    return x


def concretize(levels: list[dict], alias: int, flavour: str, vi: int, rng):
    """abstract tree -> (claims mapping, markers {leaf id: value}, plan per level for walking the logged record)"""
    d = len(levels)
    kinds = ["str", "int", "deco"]
    markers = {"leaf": _marker(rng, "str" if vi == 0 else rng.choice(kinds))}
    plan = [None] * d
    child = markers["leaf"]
    below_alias = None              # the container of level alias+1 (referenced twice)
    for j in range(d - 1, -1, -1):
        lv = levels[j]
        sib_first = bool(vi % 2) if vi < 2 else rng.random() < 0.5
        if lv["kind"] == "obj":
            taken: set[str] = set()
            kname = _keyname(lv["key"], rng, taken)
            taken.add(kname)
            taken.add(kname.lower())
            entry = {"kind": "obj", "key": kname, "sibkey": None}
            items = [(kname, child)]
            if lv["sib"] != "none":
                sk = _keyname(lv["sib"], rng, taken)
                taken.add(sk)
                taken.add(sk.lower())
                m = _marker(rng, "str" if vi == 0 else rng.choice(kinds))
                markers[f"sib{j + 1}"] = m
                entry["sibkey"] = sk
                items = [(sk, m), (kname, child)] if sib_first else [(kname, child), (sk, m)]
            if alias and j == alias - 1:
                ak = _keyname("n", rng, taken)                 # the same object once more, under a neutral key
                items = [(ak, below_alias)] + items if (vi + d) % 2 else items + [(ak, below_alias)]
                entry["aliaskey"] = ak
            cont = _wrap_obj(dict(items), flavour, j + vi)
        else:
            entry = {"kind": "list", "index": 0}
            seq = [child]
            if lv["sib"] != "none":
                m = _marker(rng, "str" if vi == 0 else rng.choice(kinds))
                markers[f"sib{j + 1}"] = m
                seq = [m, child] if sib_first else [child, m]
                entry["index"] = 1 if sib_first else 0
            cont = tuple(seq) if lv["kind"] == "tuple" else seq
        plan[j] = entry
        if alias and j == alias:
            below_alias = cont
        child = cont
    return child, markers, plan


MAXD = 7


def observe(line: str | None, markers: dict, plan: list[dict], levels: list[dict], cfg: dict) -> dict:
    keys = {f"k{j}": "na" for j in range(1, MAXD + 1)} | {f"s{j}": "na" for j in range(1, MAXD + 1)}
    if line is None:
        return {"cfg": cfg, "emitted": False, "shed": False, "claims": False, "leaked": [], "keys": keys}
    leaked = sorted(lid for lid, m in markers.items() if _needle(m) in line)
    try:
        rec = json.loads(line)
    except Exception:  # noqa: BLE001
        rec = {}
    claims = rec.get("claims") if isinstance(rec, dict) else None
    shed = isinstance(rec, dict) and rec.get("truncated") in (True, "record_too_large")
    cur = claims

    def status(container, key, subtree):
        if not isinstance(container, dict) or key not in container:
            return "missing"
        txt = json.dumps(container[key], default=str)
        return "verbatim" if any(_needle(m) in txt for m in subtree) else "redacted"

    for j, (lv, pl) in enumerate(zip(levels, plan), start=1):        # walk the logged claims along the spine
        below = [markers["leaf"]] + [markers[f"sib{i}"] for i in range(j + 1, len(levels) + 1) if f"sib{i}" in markers]
        if pl["kind"] == "obj":
            keys[f"k{j}"] = status(cur, pl["key"], below)
            if pl["sibkey"] is not None:
                keys[f"s{j}"] = status(cur, pl["sibkey"], [markers[f"sib{j}"]])
            cur = cur.get(pl["key"]) if isinstance(cur, dict) else None
        else:
            cur = cur[pl["index"]] if isinstance(cur, list) and len(cur) > pl["index"] else None
    return {"cfg": cfg, "emitted": True, "shed": bool(shed), "claims": bool(claims), "leaked": leaked, "keys": keys}


@dataclass
class C35PS(ProducerState):
    n: int = 0

    def produce(self, out: OutputCollector, ctx: CallContext) -> None:
        out.finish()


class C35Svc(Protocol):
    def u(self, x: int) -> int: ...
    def s(self) -> Stream[ProducerState]: ...


class C35Impl:
    def u(self, x: int) -> int:
        return x + 1

    def s(self) -> Stream[C35PS]:
        import pyarrow as pa
        return Stream(output_schema=pa.schema([pa.field("v", pa.int64())]), state=C35PS())


def run(ctx: Ctx) -> None:
    warnings.filterwarnings("ignore")
    import pyarrow as pa

    from vgi_rpc import logging_utils as lu
    from vgi_rpc.rpc import AuthContext, RpcServer
    from vgi_rpc.rpc._server import _emit_access_log

    quick = ctx.quick
    consts = {"MaxDepth": 3 if quick else 4, "ChainDepth": 5 if quick else 6, "DeepDepth": 7, "Dev_TopLevelOnly": False}
    invs = ["WellFormed", "NeutralHidesNothing", "FlatIsKeyByKey", "SubtreeHidden", "HiddenIffCovered", "AliasOnlyReveals",
            "IntendedCoversTopLevel", "ModelHidesAllSensitive"]
    cases = enumerate_cases(ctx, "data", "Redact", constants=consts, invariants=invs)
    configs = [c["case"] for c in enumerate_cases(ctx, "data", "Redact", constants={**consts, "MaxDepth": 1, "ChainDepth": 1, "DeepDepth": 1},
                                                 cases="Configs", expected="ConfigExpected", name="configs")]
    # the design the code had when this check was built (top-level-only redaction): TLC refutes the property on that
    # model and returns a tree; the tree is one of the enumerated cases and is executed on the real code below
    cex = faithful_counterexample(ctx, "data", "Redact", constants={"MaxDepth": 2, "ChainDepth": 2, "DeepDepth": 2, "Dev_TopLevelOnly": True},
                                  invariant="ModelHidesAllSensitive", name="Redact:faithful(Dev_TopLevelOnly)")
    ctx.extra["faithful_model_counterexample"] = cex or "(none: the faithful model satisfied the property)"
    ctx.exhaustive = True
    ctx.rule = ("case = one claims tree (spine of objects/lists to the depth bound, optional sibling leaf per level, key "
                "class per object level, optional second reference to the level-2 container, a few deeper spines) "
                "enumerated by TLC from Redact!Cases, logged under configurations from Redact!Configs; non-trivial = "
                "distinct (concrete claims object, configuration, leg) emitted through the real access-log path")
    ctx.assume("trees are spines with at most one sibling leaf per container (branching <= 2) and at most one aliased "
               "sub-object; the fate of a leaf depends only on the keys on the paths to it",
               "markers are unique ASCII strings / 12-digit integers searched as substrings of the serialized line",
               "sensitive / neutral key names are drawn from the lists in the property statement",
               "every tree is logged under the base configuration, one raising-redactor configuration and a round-robin "
               "selection of the other Redact!Configs (not the full product)")

    # ---- the real logging path
    logging.getLogger("vgi_rpc").setLevel(logging.CRITICAL)        # silences "claim redactor raised" warnings
    alog = logging.getLogger("vgi_rpc.access")
    buf = io.StringIO()
    handler = logging.StreamHandler(buf)
    fmts = {"json": lu.VgiJsonFormatter(), "access": lu.VgiAccessLogFormatter(),
            "capped": lu.VgiAccessLogFormatter(max_record_bytes=520)}
    old = (alog.level, alog.propagate, list(alog.handlers))
    for h in old[2]:
        alog.removeHandler(h)
    alog.addHandler(handler)
    alog.setLevel(logging.INFO)
    alog.propagate = False

    def take() -> list[str]:
        handler.flush()
        v = buf.getvalue()
        buf.seek(0)
        buf.truncate(0)
        return [ln for ln in v.splitlines() if ln.strip()]

    class Boom(Exception):
        pass

    def raiser_factory(kind: int):
        def r(claims):
            if kind == 0:
                raise Boom("redactor failed")
            if kind == 1:
                raise KeyError("email")
            return {k: v["x"] for k, v in claims.items()}      # TypeError/KeyError half-way through a real transformation
        return r

    def emit(claims, cfg: dict, kind: int) -> tuple[str | None, str | None]:
        alog.setLevel(logging.DEBUG if cfg["level"] == "debug" else logging.INFO)
        handler.setFormatter(fmts[cfg["fmt"]])
        if cfg["mode"] == "raising":
            lu.set_claim_redactor(raiser_factory(kind))
        auth = AuthContext("jwt", True, "alice", claims) if cfg["auth"] else AuthContext(None, False, None, claims)
        err = None
        try:
            take()
            try:
                _emit_access_log("C35Svc", "u", "unary", "srv-c35", auth, {"remote_addr": "10.1.2.3"}, 1.25, "ok")
            except BaseException as e:  # noqa: BLE001
                err = repr(e)
            lines = take()
        finally:
            lu.set_claim_redactor(lu.redact_claims)
            alog.setLevel(logging.INFO)
        return (lines[-1] if lines else None), err

    # end-to-end leg: authenticated HTTP calls (unary and stream init) whose AuthContext carries the claims
    from vgi_rpc.http._testing import make_sync_client
    cell = {"claims": {}}

    def authenticate(req):
        return AuthContext(domain="jwt", authenticated=True, principal="alice", claims=cell["claims"])

    server = RpcServer(C35Svc, C35Impl())
    client = make_sync_client(server, authenticate=authenticate, token_key=b"k" * 32)
    body_u = world.raw_request(b"u", server.methods["u"].params_schema, {"x": 1})
    body_s = world.raw_request(b"s", pa.schema([]), {})

    BASE = {"mode": "default", "level": "info", "flavour": "plain", "auth": True, "fmt": "json"}
    others = [g for g in configs if g["mode"] == "default" and g != BASE and g != {**BASE, "fmt": "access"}]
    raising = [g for g in configs if g["mode"] == "raising"]
    ctx.rng.shuffle(others)
    ctx.rng.shuffle(raising)
    n_extra = 1 if quick else 2
    rr = 0
    records: list[dict] = []
    n_http = 0
    cfg_use: dict[str, int] = {}
    try:
        for ci, cj in enumerate(cases):
            case, exp = cj["case"], cj["exp"]
            levels, alias = case["levels"], case["alias"]
            plan_cfgs = [{**BASE, "fmt": "json" if ci % 2 == 0 else "access"}]
            if quick or ci % 2 == 0:
                plan_cfgs.append(raising[(ci // 2) % len(raising)])
            for _ in range(n_extra if (alias == 0 and len(levels) < 4) else 1):
                plan_cfgs.append(others[rr % len(others)])
                rr += 1
            for vi, cfg in enumerate(plan_cfgs):
                claims, markers, plan = concretize(levels, alias, cfg["flavour"], vi, ctx.rng)
                line, err = emit(claims, cfg, ci % 3)
                o = observe(line, markers, plan, levels, cfg)
                records.append({"case": case, "obs": o, "_claims": plain(claims), "_line": line, "_leg": "emit", "_exp": exp,
                                "_err": err})
                key = ",".join(f"{k}={cfg[k]}" for k in ("mode", "level", "flavour", "auth", "fmt"))
                cfg_use[key] = cfg_use.get(key, 0) + 1
                ctx.case(["emit", key, json.dumps(plain(claims), sort_keys=True, default=str)])
                # end-to-end (sampled): the same claims through a real authenticated HTTP call
                if vi == 0 and (ci % (7 if quick else 11) == 0 or len(levels) == 1 or len(levels) > consts["MaxDepth"]):
                    cell["claims"] = claims
                    handler.setFormatter(fmts[cfg["fmt"]])
                    take()
                    stream = (ci // 7) % 2 == 1
                    r = client.post("/s/init" if stream else "/u", content=body_s if stream else body_u,
                                    headers={"Content-Type": world.ARROW_CT})
                    meth = '"method": "s"' if stream else '"method": "u"'
                    lines = [ln for ln in take() if meth in ln]
                    n_http += 1
                    if r.status_code != 200:
                        raise AssertionError(f"harness: HTTP leg returned {r.status_code}")
                    for ln in (lines or [None]):
                        records.append({"case": case, "obs": observe(ln, markers, plan, levels, cfg), "_claims": plain(claims),
                                        "_line": ln, "_leg": "http-stream" if stream else "http-unary", "_exp": exp, "_err": None})
                    ctx.case(["http", stream, json.dumps(plain(claims), sort_keys=True, default=str)])
    finally:
        lu.set_claim_redactor(lu.redact_claims)
        alog.removeHandler(handler)
        for h in old[2]:
            alog.addHandler(h)
        alog.setLevel(old[0])
        alog.propagate = old[1]
    ctx.extra["http_end_to_end_executions"] = n_http
    ctx.extra["configurations_exercised"] = len(cfg_use)
    ctx.extra["configurations_total"] = len(configs)
    hist: dict[str, int] = {}
    for cj in cases:
        k = f"depth={len(cj['case']['levels'])},shallowest_sensitive_key_depth={cj['exp']['sensdepth']}"
        hist[k] = hist.get(k, 0) + 1
    ctx.extra["cases_by_depth_and_sensitive_depth"] = hist
    picks = [r for r in records if r["obs"]["cfg"]["mode"] == "default"]
    for r in picks[:: max(1, len(picks) // 5)][:5]:
        ctx.sample({"abstract_tree": r["case"], "concrete_claims": r["_claims"], "leg": r["_leg"],
                    "logged_line": (r["_line"] or "")[:600], "observed": r["obs"]})
    bad = judge_dedup(ctx, "data", "Redact", [{"case": r["case"], "obs": r["obs"]} for r in records],
                      constants={**consts, "MaxDepth": 1, "ChainDepth": 1, "DeepDepth": 1}, chunk=40000)   # Conforms is independent of the bounds
    for idx, clauses in bad:
        r = records[idx]
        levels, o, exp, cfg = r["case"]["levels"], r["obs"], r["_exp"], r["obs"]["cfg"]
        al = r["case"]["alias"]

        def cover_depth(leaf: str) -> int:
            """depth of the outermost sensitive key that covers a hidden leaf"""
            top = len(levels) if leaf == "leaf" else int(leaf[3:]) - 1
            for i in range(top):
                bypassed = al and i == al - 1 and (leaf == "leaf" or int(leaf[3:]) > al)   # reachable through the alias key
                if levels[i]["kind"] == "obj" and levels[i]["key"] != "n" and not bypassed:
                    return i + 1
            return int(leaf[3:]) if leaf != "leaf" else 0
        for cl in clauses:
            if cl == "NoSensitiveValueInLog":
                depths = [cover_depth(x) for x in o["leaked"] if x in exp["hidden"]]
            elif cl == "SensitiveKeyVisibleRedacted":
                depths = [int(k[1:]) for k in exp["mustshow"] if o["keys"].get(k) != "redacted"]
            else:
                depths = [0]
            ctx.violation(cl, {"mode": cfg["mode"], "leg": r["_leg"], "key_depth": min(depths) if depths else 0,
                               "level": cfg["level"], "flavour": cfg["flavour"], "auth": cfg["auth"], "fmt": cfg["fmt"],
                               "alias": r["case"]["alias"], "containers": ">".join(lv["kind"] for lv in levels),
                               "key_classes": ">".join((lv["key"] if lv["kind"] == "obj" else "-") + ("+" + lv["sib"] if lv["sib"] != "none" else "") for lv in levels)},
                          {"abstract_tree": r["case"], "claims": r["_claims"], "logged_line": r["_line"], "observed": o,
                           "expected_hidden": exp["hidden"], "expected_visible_redacted_keys": exp["mustshow"]})
