"""C18 -- compression codecs round-trip and respect output caps.  Spec: spec/data/Codec.tla."""
import gzip as gzip_mod
import io
import warnings
import zlib

import pyarrow as pa

from vf import table
from vf.core import Ctx
from vf.tlc import MachineryError

META = {
    "engine": "data",
    "text": "Codec.tla is the decision table codec x frame kind {module one-shot (sized), streaming (size-less)} x level "
            "class x window class (zstd frame header window <= / > 8 MiB) x length class (around the 64 KiB read chunk) x cap relation {none,0,len-1,len,len+1,large} -> "
            "original | limit error; TLC enumerates all ~700 rows and checks table sanity (class oracle = numeric oracle, "
            "cap monotone, frame/level blind). Every row is concretised with several byte strings (every length 0..64, "
            "chunk boundaries, structured large inputs; zeros/random/Arrow-IPC content), every level of the class and "
            "several independent streaming producers (zstandard stream_writer/compressobj/no-content-size, "
            "pyarrow CompressedOutputStream, zlib chunked with sync flushes, gzip module); the real compress/decompress "
            "run on them and TLC judges every observation with Codec!Conforms (numeric oracle on the real length/cap).",
    "note": "TLA+ decides the cap semantics exhaustively over classes; byte-level round-trip over *all* strings is "
            "sampled (exhaustive only for lengths 0..1, every length to 64 with 3-4 contents, hypothesis bulk) -- the "
            "model adds nothing to that half. Multi-frame inputs and frames that lie about their size are out of scope "
            "(C17).",
}

CHUNK = 65536
ZSTD_LEVELS = {"default": [None], "min": [-7, -5, -3, -1, 1, 2], "mid": [0, 3, 4, 5, 6, 7, 8, 9, 10, 11, 12],
               "max": [13, 14, 15, 16, 17, 18, 19, 20, 21, 22]}
GZIP_LEVELS = {"default": [None], "min": [0, 1, 2], "mid": [-1, 3, 4, 5, 6], "max": [7, 8, 9]}
QUICK_PICK = {"zstd": {"default": [None], "min": [-7, 1], "mid": [3], "max": [22]},
              "gzip": {"default": [None], "min": [0, 1], "mid": [6], "max": [9]}}
STREAM_VARIANTS = {"zstd": ["stream_writer", "compressobj", "pa_stream", "no_content_size"],
                   "gzip": ["chunked_sync_flush", "gzip_module", "pa_stream"]}


def len_class(n: int) -> str:
    if n == 0:
        return "zero"
    if n == 1:
        return "one"
    if n < CHUNK - 1:
        return "small"
    return {CHUNK - 1: "chunk_minus", CHUNK: "chunk", CHUNK + 1: "chunk_plus"}.get(n, "large")


def cap_value(rel: str, n: int) -> int:
    return {"none": -1, "zero": 0, "len_minus_1": n - 1, "len": n, "len_plus_1": n + 1, "large": 1 << 30}[rel]


def _arrow_bytes() -> bytes:
    b = pa.RecordBatch.from_pydict({"id": list(range(4000)), "name": [f"row-{i % 97}" for i in range(4000)],
                                    "v": [i * 0.5 for i in range(4000)]})
    sink = io.BytesIO()
    with pa.ipc.new_stream(sink, b.schema) as w:
        w.write_batch(b)
    return sink.getvalue()


class Contents:
    def __init__(self, rng) -> None:
        self.rng = rng
        self.arrow = _arrow_bytes()
        self.rand = rng.randbytes(1 << 20)

    def get(self, kind: str, n: int) -> bytes:
        if kind == "zeros":
            return bytes(n)
        if kind == "random":
            o = self.rng.randrange(0, len(self.rand) - n + 1) if n < len(self.rand) else 0
            return (self.rand[o:o + n] if n <= len(self.rand) else (self.rand * (n // len(self.rand) + 1))[:n])
        if kind == "arrow":
            return (self.arrow * (n // len(self.arrow) + 1))[:n]
        if kind == "ramp":
            return bytes(i & 0xFF for i in range(n))
        raise MachineryError(kind)


def make_frame(codec: str, frame: str, variant: str, level, data: bytes) -> bytes:
    """Compressed form.  frame=oneshot -> the module's own compress(); stream -> independent streaming producers."""
    from vgi_rpc._codec import Encoding, compress
    import zstandard

    if codec == "identity":
        return compress(Encoding.IDENTITY, data, level=level)
    if frame == "oneshot":
        return compress(Encoding.ZSTD if codec == "zstd" else Encoding.GZIP, data, level=level)
    if codec == "zstd":
        lv = 3 if level is None else level
        # level tables sized for the input (as the one-shot API does); without this the streaming API allocates the
        # level's full-size window/hash tables (seconds per frame at levels >= 19) -- the frame stays size-less
        params = zstandard.ZstdCompressionParameters.from_level(lv, source_size=max(len(data), 1))
        if variant == "stream_writer":
            b = io.BytesIO()
            with zstandard.ZstdCompressor(compression_params=params).stream_writer(b, closefd=False) as w:
                for i in range(0, len(data), 40000):
                    w.write(data[i:i + 40000])
            return b.getvalue()
        if variant == "compressobj":
            c = zstandard.ZstdCompressor(compression_params=params).compressobj()
            out = b"".join(c.compress(data[i:i + 7919]) for i in range(0, len(data), 7919))
            return out + c.flush()
        if variant == "no_content_size":
            return zstandard.ZstdCompressor(level=lv, write_content_size=False).compress(data)
        if variant == "pa_stream":
            sink = pa.BufferOutputStream()
            with pa.CompressedOutputStream(sink, "zstd") as s:
                s.write(data)
            return sink.getvalue().to_pybytes()
    if codec == "gzip":
        lv = 6 if level is None else level
        if variant == "chunked_sync_flush":
            co = zlib.compressobj(lv, zlib.DEFLATED, 31)
            parts = []
            for i in range(0, len(data), 30011):
                parts.append(co.compress(data[i:i + 30011]))
                parts.append(co.flush(zlib.Z_SYNC_FLUSH))
            parts.append(co.flush(zlib.Z_FINISH))
            return b"".join(parts)
        if variant == "gzip_module":
            return gzip_mod.compress(data, compresslevel=9 if lv == -1 else lv, mtime=0)
        if variant == "pa_stream":
            sink = pa.BufferOutputStream()
            with pa.CompressedOutputStream(sink, "gzip") as s:
                s.write(data)
            return sink.getvalue().to_pybytes()
    raise MachineryError(f"no producer for {codec}/{frame}/{variant}")


LARGE_WINDOW_STREAM = ["compressobj_wlog24", "stream_writer_wlog25", "compressobj_wlog27", "ldm_compressobj_wlog27", "ldm_stream_writer_wlog26"]
WINDOW_8MIB = 1 << 23


def large_window_frame(prod: str, data: bytes) -> bytes:
    """A single zstd frame whose header advertises a window above 8 MiB.  The 'wlogNN' producers use explicit
    compression parameters with that window and small match-finder tables (a genuine level-22 streaming compressor
    allocates its full tables: seconds per frame), 'genuine_levelNN' are the real ultra levels through the streaming
    API.  The frame's actual window is read back with zstandard.get_frame_parameters and asserted."""
    import zstandard

    if prod.startswith("genuine"):
        lv = int(prod.split("level")[1][:2])
        cctx = zstandard.ZstdCompressor(level=lv)
    elif prod.startswith("oneshot"):
        wl = int(prod.split("wlog")[1])
        fb = zstandard.ZstdCompressor(compression_params=zstandard.ZstdCompressionParameters.from_level(1, window_log=wl)).compress(data)
        cctx = None
    else:
        wl = int(prod.split("wlog")[1])
        if prod.startswith("ldm"):
            params = zstandard.ZstdCompressionParameters.from_level(3, window_log=wl, enable_ldm=True)
        else:
            params = zstandard.ZstdCompressionParameters(window_log=wl, chain_log=16, hash_log=17, search_log=1, min_match=4, target_length=0,
                                                         strategy=zstandard.STRATEGY_FAST)
        cctx = zstandard.ZstdCompressor(compression_params=params)
    if cctx is not None:
        if "stream_writer" in prod:
            b = io.BytesIO()
            with cctx.stream_writer(b, closefd=False) as w:
                for i in range(0, len(data), 40000):
                    w.write(data[i:i + 40000])
            fb = b.getvalue()
        else:
            c = cctx.compressobj()
            fb = b"".join(c.compress(data[i:i + 7919]) for i in range(0, len(data), 7919)) + c.flush()
    fp = zstandard.get_frame_parameters(fb)
    sized = fp.content_size not in (-1, 18446744073709551615)
    if fp.window_size <= WINDOW_8MIB or sized != prod.startswith("oneshot"):
        raise MachineryError(f"producer {prod} made a frame with window {fp.window_size}, content_size {fp.content_size}")
    return fb


def observe(codec: str, frame_bytes: bytes, data: bytes, cap: int) -> str:
    from vgi_rpc._codec import DecompressionLimitExceeded, Encoding, decompress

    enc = {"zstd": Encoding.ZSTD, "gzip": Encoding.GZIP, "identity": Encoding.IDENTITY}[codec]
    try:
        out = decompress(enc, frame_bytes, max_output_size=None if cap < 0 else cap)
    except DecompressionLimitExceeded:
        return "limit"
    except Exception as e:  # noqa: BLE001
        return "error:" + type(e).__name__
    return "original" if out == data else "changed"


def classify(call, data: bytes) -> str:
    from vgi_rpc._codec import DecompressionLimitExceeded

    try:
        out = call()
    except DecompressionLimitExceeded:
        return "limit"
    except Exception as e:  # noqa: BLE001
        return "error:" + type(e).__name__
    return "original" if bytes(out) == data else "changed"


class _FakeResp:
    def __init__(self, body: bytes, content_type: str) -> None:
        self.stream = io.BytesIO(body)
        self.data = None
        self.content_type = content_type
        self.headers: dict = {}

    def set_header(self, k: str, v: str) -> None:
        self.headers[k] = v


class _FakeReq:
    def __init__(self, enc) -> None:
        self.context = type("Ctx", (), {})()
        self.context.response_encoding = enc
        self.context.use_custom_encoding_header = False


def entry_frame(entry: str, codec: str, frame: str, level, data: bytes, salt: int):
    """-> (compressed bytes, decode(cap) callable, length the cap is compared with, label)"""
    from vgi_rpc._codec import Encoding, compress, decompress
    from vgi_rpc.http import _common as H

    enc = {"zstd": Encoding.ZSTD, "gzip": Encoding.GZIP, "identity": Encoding.IDENTITY}[codec]
    if entry == "legacy":
        fb = H._compress_body(data, 3 if level is None else level)
        return fb, (lambda cap: H._decompress_body(fb, max_output_size=cap)), len(data), "legacy_alias"
    if entry == "header":
        variants = ["module"] if frame != "stream" else STREAM_VARIANTS[codec]
        v = variants[salt % len(variants)]
        fb = make_frame(codec, frame, v, level, data)
        hdr = [codec, codec.upper(), f"  {codec} ", codec.title(), f"{codec} "][salt % 5]
        return fb, (lambda cap: H.decode_content_encoding(fb, hdr, max_output_size=cap)), len(data), f"header[{hdr!r}]/{v}"
    if entry == "chain":
        inner = "gzip" if codec == "zstd" else "zstd"
        if salt % 3 == 2:
            inner = codec                     # the same coding applied twice
        ienc = {"zstd": Encoding.ZSTD, "gzip": Encoding.GZIP}[inner]
        mid = compress(ienc, data, level=level)
        fb = compress(enc, mid, level=level)
        hdr = f"{inner}, {codec}" if salt % 2 else f"{inner.upper()} ,{codec}"
        return fb, (lambda cap: H.decode_content_encoding(fb, hdr, max_output_size=cap)), max(len(mid), len(data)), f"chain[{hdr!r}]"
    if entry == "middleware":
        from vgi_rpc.http.server._middleware import _ARROW_CONTENT_TYPE, _CompressionMiddleware

        mw = _CompressionMiddleware({enc: level})
        resp = _FakeResp(data, _ARROW_CONTENT_TYPE)
        mw.process_response(_FakeReq(enc), resp, None, True)
        if resp.data is None or resp.headers.get("Content-Encoding") != codec:
            raise MachineryError(f"response middleware did not compress a {len(data)}-byte body with {codec}: {resp.headers}")
        fb = resp.data
        return fb, (lambda cap: decompress(enc, fb, max_output_size=cap)), len(data), "server_middleware"
    if entry == "token":
        from vgi_rpc.http.server import _state_token as ST

        fb = ST._pack_plaintext(data)
        return fb, (lambda cap: ST._unpack_plaintext(fb)), len(data), "token_pack[" + ("zstd" if fb[:1] == b"\x01" else "raw") + "]"
    raise MachineryError(f"unknown entry {entry}")


def run(ctx: Ctx) -> None:
    warnings.filterwarnings("ignore")
    quick = ctx.quick
    consts = {"Dev_IdentityIgnoresCap": False}
    cases = table.enumerate_cases(ctx, "data", "Codec", constants=consts,
                                  invariants=["ClassOracleIsNumeric", "NoCapNeverLimits", "CapMonotone", "FrameBlind"])
    ctx.exhaustive = True
    ctx.rule = ("case = (codec, frame kind, level, length, content, cap); abstract rows enumerated by TLC from Codec!Cases; "
                "non-trivial = distinct (codec, producer variant, level, length, content kind, cap value) tuples on which the "
                "real decompress() ran")
    ctx.assume("level classes: zstd min=-7..2, mid=0,3..12, max=13..22; gzip min=0..2, mid=-1,3..6, max=7..9 (quick: 1-2 levels "
               "per class, thorough: all)",
               "length class 'small' = 2..65533 (concretised by every length 2..64 plus seeded longer ones)",
               "single-frame inputs only; frames whose header lies about the size belong to C17",
               "Dev_IdentityIgnoresCap=FALSE: the statement is read literally (identity honours the cap)")
    contents = Contents(ctx.rng)
    rng = ctx.rng
    lens = {"zero": [0], "one": [1],
            "small": ([2, 3, 7, 8, 63, 64, rng.randint(65, 4000), rng.randint(4001, CHUNK - 2)] if quick
                      else list(range(2, 65)) + [rng.randint(65, 4000), rng.randint(4001, 30000), CHUNK - 2]),
            "chunk_minus": [CHUNK - 1], "chunk": [CHUNK], "chunk_plus": [CHUNK + 1],
            "large": [2 * CHUNK + 1] if quick else [2 * CHUNK, 2 * CHUNK + 1, 200000, (1 << 20) + 1]}
    kinds_q, kinds_t = ["zeros", "random", "arrow"], ["zeros", "random", "arrow", "ramp"]
    obs: list[dict] = []

    def add(c, codec, frame, variant, level, kind, n, data, cap_rel, fb=None):
        if fb is None:
            fb = make_frame(codec, frame, variant, level, data)
        cap = cap_value(cap_rel, n)
        out = observe(codec, fb, data, cap)
        o = {"n": n, "cap": cap, "outcome": out.split(":")[0]}
        obs.append({"case": c, "obs": o, "_c": {"variant": variant, "level": level, "content": kind, "raw_outcome": out,
                                                "compressed_len": len(fb)}})
        ctx.case([codec, frame, variant, level, n, kind, cap])

    # rows that differ only in the cap share the concrete inputs and the compressed frame
    groups: dict = {}
    other: dict = {}
    wide: dict = {}
    for cj in cases:
        c = cj["case"]
        if c["entry"] == "codec" and c["window"] == "large":
            wide.setdefault((c["codec"], c["frame"], c["level"], c["len"]), []).append(c)
        elif c["entry"] == "codec":
            groups.setdefault((c["codec"], c["frame"], c["level"], c["len"]), []).append(c)
        else:
            other.setdefault((c["entry"], c["codec"], c["frame"], c["level"], c["len"]), []).append(c)
    for ci, ((codec, frame, lvclass, lenclass), members) in enumerate(sorted(groups.items())):
        if codec == "identity":
            levels = [None]
        else:
            levels = (QUICK_PICK[codec] if quick else (ZSTD_LEVELS if codec == "zstd" else GZIP_LEVELS))[lvclass]
        variants = ["module"] if frame != "stream" else STREAM_VARIANTS[codec]
        ns = lens[lenclass]
        for li, n in enumerate(ns):
            big = n > CHUNK + 1
            kinds = (kinds_q if quick else kinds_t)
            if quick:
                kinds = [kinds[(ci + li) % len(kinds)]] if n > 64 else kinds[: 2 if lvclass != "default" else 3]
            elif big:
                kinds = kinds[:2] if n > 300000 else kinds[:3]
            lvls = levels
            if n >= CHUNK - 1:   # the slowest levels only up to one chunk; beyond that the class keeps its cheaper members
                lvls = [lv for lv in levels if lv is None or lv <= (19 if not big else 12)] or [19 if not big else 12]
            if not quick and len(lvls) > 4 and 2 <= n <= 64:
                # boundaries of the class on every length, the other levels in rotation over lengths
                lvls = [lvls[0], lvls[-1], lvls[(n + ci) % len(lvls)]]
            elif not quick and n >= CHUNK - 1 and len(lvls) > 3:
                lvls = [lvls[0], lvls[-1], lvls[(li + ci) % len(lvls)]]
            vs = variants
            if len(vs) > 1 and (quick or (2 <= n <= 64)):
                vs = [vs[(ci + li) % len(vs)]] + ([vs[(ci + li + 1) % len(vs)]] if not quick else [])
            for kind in kinds:
                data = contents.get(kind, n)
                for lv in lvls:
                    for v in vs:
                        fb = make_frame(codec, frame, v, lv, data)
                        for c in members:
                            add(c, codec, frame, v, lv, kind, n, data, c["cap"], fb=fb)
    # ---- zstd frames whose header asks for a decoder window above 8 MiB (ultra levels 20-22 / long-distance matching
    # for size-less streaming frames whatever the payload; a payload above 8 MiB for size-declaring frames)
    genuine: dict = {}
    for gi, ((codec, frame, lvclass, lenclass), members) in enumerate(sorted(wide.items())):
        if frame == "stream":
            ns = lens[lenclass][:1] if quick else lens[lenclass][:2]
            producers = LARGE_WINDOW_STREAM if not quick else [LARGE_WINDOW_STREAM[gi % 3], LARGE_WINDOW_STREAM[3 + gi % 2]]
            if not quick and lenclass in ("one", "small"):
                producers = producers + ["genuine_level20_compressobj", "genuine_level22_stream_writer"]
        else:
            ns = [(1 << 23) + 4097] if quick else [(1 << 23) + 1, (1 << 23) + 4097]
            producers = ["oneshot_wlog24"] if quick else ["oneshot_wlog24", "oneshot_wlog27"]
        for li, n in enumerate(ns):
            kind = "zeros" if n > (1 << 22) else kinds_q[(gi + li) % 3]
            data = contents.get(kind, n)
            for prod in producers:
                key = (prod, kind, n)
                fb = genuine.get(key) if prod.startswith("genuine") and kind != "random" else None
                if fb is None:
                    fb = large_window_frame(prod, data)
                    if prod.startswith("genuine") and kind != "random":
                        genuine[key] = fb
                for c in members:
                    add(c, codec, frame, prod, prod, kind, n, data, c["cap"], fb=fb)
    # ---- the other entry points (legacy aliases, Content-Encoding header, coding chains, server middleware frames,
    # state-token packing): same rows, reached through a different function
    for gi, ((entry, codec, frame, lvclass, lenclass), members) in enumerate(sorted(other.items())):
        ns = lens[lenclass]
        ns = ns[:2] if quick else (ns if len(ns) <= 6 else [ns[0], ns[-1]] + [ns[(gi * 7 + j * 11) % len(ns)] for j in range(4)])
        if codec == "identity":
            levels = [None]
        else:
            levels = (QUICK_PICK[codec] if quick else (ZSTD_LEVELS if codec == "zstd" else GZIP_LEVELS))[lvclass]
            if entry == "middleware":
                levels = [lv for lv in levels if lv is not None and (lv <= 19 or lenclass in ("one", "small"))] or [3 if codec == "zstd" else 6]
                levels = levels if not quick else levels[:1]
                levels = levels if len(levels) <= 3 else [levels[0], levels[-1], levels[gi % len(levels)]]
        for li, n in enumerate(ns):
            for kind in (kinds_q[(gi + li) % 3], kinds_q[(gi + li + 1) % 3]):
                data = contents.get(kind, n)
                for lv in levels:
                    try:
                        fb, decode, n_eff, label = entry_frame(entry, codec, frame, lv, data, gi + li)
                    except MachineryError:
                        raise
                    for c in members:
                        cap = cap_value(c["cap"], n_eff)
                        out = classify(lambda: decode(None if cap < 0 else cap), data)
                        obs.append({"case": c, "obs": {"n": n_eff, "cap": cap, "outcome": out.split(":")[0]},
                                    "_c": {"variant": label, "level": lv, "content": kind, "raw_outcome": out, "compressed_len": len(fb),
                                           "original_len": n}})
                        ctx.case([entry, codec, label, lv, n, kind, cap])
    # ---- exhaustive single bytes (thorough) and hypothesis bulk inside the classes
    by_key = {(cj["case"]["codec"], cj["case"]["frame"], cj["case"]["level"], cj["case"]["len"], cj["case"]["cap"]): cj["case"]
              for cj in cases if cj["case"]["entry"] == "codec" and cj["case"]["window"] == "std"}
    if not quick:
        for b in range(256):
            data = bytes([b])
            for codec, frame, v in (("zstd", "oneshot", "module"), ("zstd", "stream", "compressobj"), ("gzip", "oneshot", "module"),
                                    ("gzip", "stream", "chunked_sync_flush"), ("identity", "raw", "module")):
                for cap_rel in ("none", "zero", "len"):
                    add(by_key[(codec, frame, "default", "one", cap_rel)], codec, frame, v, None, f"byte{b}", 1, data, cap_rel)
    from hypothesis import HealthCheck, given, seed, settings
    from hypothesis import strategies as st

    caps = ["none", "zero", "len_minus_1", "len", "len_plus_1", "large"]

    @seed(ctx.seed)
    @settings(max_examples=150 if quick else 1500, database=None, deadline=None, derandomize=False,
              suppress_health_check=list(HealthCheck))
    @given(st.binary(min_size=0, max_size=3000), st.sampled_from(["zstd", "gzip", "identity"]), st.integers(0, 3),
           st.sampled_from(caps), st.integers(0, 30))
    def bulk(data, codec, fsel, cap_rel, lsel):
        n = len(data)
        if n == 0 and cap_rel == "len_minus_1":
            cap_rel = "len"
        if codec == "identity":
            frame, v, lvc, lv = "raw", "module", "default", None
        else:
            frame = "oneshot" if fsel == 0 else "stream"
            v = "module" if frame == "oneshot" else STREAM_VARIANTS[codec][fsel % len(STREAM_VARIANTS[codec])]
            tab = ZSTD_LEVELS if codec == "zstd" else GZIP_LEVELS
            lvc = ["default", "min", "mid", "max"][lsel % 4]
            lv = tab[lvc][lsel % len(tab[lvc])]
        add(by_key[(codec, frame, lvc, len_class(n), cap_rel)], codec, frame, v, lv, "hypothesis", n, data, cap_rel,
            fb=make_frame(codec, frame, v, lv, data))

    bulk()
    for o in obs[:: max(1, len(obs) // 4)][:4]:
        ctx.sample({"case": o["case"], "observed": o["obs"], "concrete": o["_c"]})
    ctx.extra["outcomes"] = {k: sum(1 for o in obs if o["obs"]["outcome"] == k) for k in ("original", "limit", "changed", "error")}
    ctx.extra["abstract_rows"] = len(cases)
    ctx.extra["rows_executed"] = len({str(sorted(o["case"].items())) for o in obs})
    bad = table.judge(ctx, "data", "Codec", [{"case": o["case"], "obs": o["obs"]} for o in obs], constants=consts)
    for idx, clauses in bad:
        o = obs[idx]
        if "HarnessClassMismatch" in clauses:
            raise MachineryError(f"class oracle and numeric oracle disagree on {o['case']} / {o['obs']}")
        for cl in clauses:
            c = o["case"]
            ctx.violation(cl, {"entry": c["entry"], "codec": c["codec"], "frame": c["frame"], "variant": o["_c"]["variant"], "level_class": c["level"],
                               "len_class": c["len"], "cap": c["cap"], "window": c["window"]},
                          {"observed": o["obs"], "concrete": o["_c"]})
