"""C02 -- parameter and result values round-trip exactly.  Spec: spec/data/TypeGrammar.tla (Mode = "rpc")."""
import queue
import threading
import types
import warnings
from typing import Optional, Protocol

from vf import table
from vf.core import Ctx
from vf.tlc import MachineryError

from drivers import _data_types as T
from drivers.c03 import ALL_CTORS, ALL_LEAVES, INV, _in_range, _nearest_ok, sset

META = {
    "engine": "data",
    "text": "TypeGrammar.tla (Mode=rpc) generates the parameter/return annotation grammar the statement lists -- scalars, ints "
            "and floats at explicit Arrow widths, str, bytes, bool, Optional, Enum (plain, StrEnum, IntEnum, (str, Enum) incl. crossed values), list / frozenset / dict (str,int,bytes,Enum "
            "keys) of (optional) scalars, decimal, temporal, nested serializable dataclasses (whose fields follow the "
            "dataclass grammar), tuple/set as documented-unsupported -- with a value class per leaf (min, max, zero, +-0.0, "
            "NaN, empty, non-ASCII, None, enum value != name, out of range, float narrowing) x shape (None/empty/single/multi) "
            "x signature (alone, with a second parameter, with/without defaults) and the oracle roundtrip | rejected | "
            "narrowed | def_rejected. TLC enumerates the space and checks table sanity; an echo Protocol with one method per "
            "signature is built dynamically and served over a pipe transport (real serve loop on a thread) and over HTTP "
            "in-process; each case is called with several concrete values; the returned value *and* the kwargs the "
            "implementation received are compared with what was sent (NaN/signed-zero aware, type strict); TLC judges every "
            "observation with TypeGrammar!Conforms.",
    "note": "What TLA+ contributes is exhaustiveness over shapes x value classes x signatures and the accept/reject oracle; "
            "equality of concrete values is sampled inside each class (boundaries exact; bulk members drawn by hypothesis strategies seeded from VERIF_SEED). Transports: pipe and "
            "in-process HTTP (falcon test client); subprocess/unix/tcp transports share the pipe code path and are not run.",
}

WATCHDOG_S = 10.0


# ------------------------------------------------------------------------------------------ dynamic echo service
def _fn(name: str, dx: bool, second: bool, dy: bool, echo: bool, ann_x, ann_y, vdx, vdy, sink, kind: str = "echo", ret_ann=None,
        extra: dict | None = None):
    """kind: echo (x -> x) | void (x -> None) | result_only (() -> fixed value) | stream (x -> Stream[State, Header])"""
    params = "" if kind == "result_only" else ("x=_dx" if dx else "x")
    if second:
        params += ", y=_dy" if dy else ", y"
    if not echo:
        body = "    ...\n"
    elif kind == "void":
        body = "    _sink(%r, x, None)\n    return None\n" % name
    elif kind == "result_only":
        body = "    _sink(%r, None, None)\n    return _dx\n" % name
    elif kind == "stream":
        body = ("    _sink(%r, x, None)\n"
                "    return _Stream(output_schema=_OUT, state=_State(v=x), header=_mkh(x), call_state=_mkc(x))\n" % name)
    else:
        body = "    _sink(%r, x, %s)\n    return x\n" % (name, "y" if second else "None")
    g = {"_dx": vdx, "_dy": vdy, "_sink": sink, **(extra or {})}
    exec(f"def {name}(self{', ' if params else ''}{params}):\n{body}", g)  # noqa: S102
    f = g[name]
    ann = {} if kind == "result_only" else {"x": ann_x}
    if second:
        ann["y"] = ann_y
    ann["return"] = type(None) if kind == "void" else (ret_ann if ret_ann is not None else ann_x)
    f.__annotations__ = ann
    return f


_MISSING = object()
_STREAM_CLS: dict = {}
STREAM_TICKS = 3


def stream_classes(term: tuple, seen: dict):
    """Header / call-state / producer-state dataclasses whose field `v` has the term's type.  produce() records the
    value the state holds (and the bound call state's) on every turn -- over HTTP every turn re-reads both from
    their tokens."""
    if term in _STREAM_CLS:
        return _STREAM_CLS[term]
    from dataclasses import field, make_dataclass
    from typing import ClassVar

    from vgi_rpc.rpc import ProducerState
    from vgi_rpc.utils import ArrowSerializableDataclass

    ann = T.annotation(term)
    tag = "_".join(term)
    bare = term == ("dc0",)     # the value *is* the header / the call state: a header dataclass without any field
    if bare:
        header = call = T.D0
    else:
        header = make_dataclass("H_" + tag, [("v", ann)], bases=(ArrowSerializableDataclass,), frozen=True)
        call = make_dataclass("K_" + tag, [("v", ann)], bases=(ArrowSerializableDataclass,), frozen=True)

    def bind_call_state(self, cs):
        self.__dict__["_cs"] = cs

    def produce(self, out, ctx):
        cs = self.__dict__.get("_cs")
        seen.setdefault(tag, []).append((self.n, self.v, (cs if bare else cs.v) if cs is not None else _MISSING))
        if self.n >= STREAM_TICKS:
            out.finish()
            return
        out.emit_pydict({"i": [self.n]})
        self.n += 1

    state = make_dataclass("S_" + tag, [("v", ann), ("n", int, field(default=0)), ("CALL_STATE_TYPE", ClassVar[type], call)],
                           bases=(ProducerState,), namespace={"produce": produce, "bind_call_state": bind_call_state})
    _ = header.ARROW_SCHEMA, call.ARROW_SCHEMA, state.ARROW_SCHEMA
    _STREAM_CLS[term] = (header, call, state, tag)
    return _STREAM_CLS[term]


class Service:
    """One echo method per (term, second parameter, default pattern, default values)."""

    def __init__(self) -> None:
        self.methods: dict = {}      # key -> name
        self.proto_ns: dict = {}
        self.impl_ns: dict = {}
        self.received: dict = {}
        self.stream_seen: dict = {}
        self.stream_tag: dict = {}
        self.stream_bare: dict = {}

    def _sink(self, name, x, y):
        self.received[name] = (x, y)

    def method(self, term: tuple, second: str, dflt: str, vdx, vdy, tag, pos: str = "unary") -> str:
        key = (term, second, dflt, tag, pos)
        name = self.methods.get(key)
        if name is None:
            name = f"m{len(self.methods)}"
            self.methods[key] = name
            ann_x = T.annotation(term)
            ann_y = {"-": None, "int": int, "ostr": Optional[str]}[second]
            dx, dy = dflt in ("first", "both"), dflt in ("second", "both")
            kind = "stream" if pos == "stream" else (dflt if dflt in ("void", "result_only") else "echo")
            extra, ret_p, ret_i = None, None, None
            if kind == "stream":
                import pyarrow as pa

                from vgi_rpc.rpc import ProducerState, Stream

                header, call, state, stag = stream_classes(term, self.stream_seen)
                self.stream_tag[name] = stag
                bare = header is T.D0
                self.stream_bare[name] = bare
                extra = {"_Stream": Stream, "_OUT": pa.schema([pa.field("i", pa.int64())]), "_State": state,
                         "_mkh": (lambda x: x) if bare else (lambda x: header(v=x)), "_mkc": (lambda x: x) if bare else (lambda x: call(v=x))}
                ret_p, ret_i = Stream[ProducerState, header], Stream[state, header]
            self.proto_ns[name] = _fn(name, dx, second != "-", dy, False, ann_x, ann_y, vdx, vdy, None, kind, ret_p)
            self.impl_ns[name] = _fn(name, dx, second != "-", dy, True, ann_x, ann_y, vdx, vdy, self._sink, kind, ret_i, extra)
        return name

    def build(self):
        proto = types.new_class("EchoSvc", (Protocol,), {}, lambda d: d.update(self.proto_ns))
        impl = type("EchoImpl", (), dict(self.impl_ns))()
        return proto, impl


def invoke(proxy, name: str, kwargs: dict, stream: bool):
    """unary: the returned value.  stream: (header, number of batches) after draining the producer stream."""
    if not stream:
        return getattr(proxy, name)(**kwargs)
    sess = getattr(proxy, name)(**kwargs)
    header = sess.header
    n = sum(1 for _ in sess)
    return (header, n)


class PipeLink:
    """Real RpcServer.serve on a thread + RpcConnection over a pipe pair; calls run under a watchdog."""

    def __init__(self, proto, impl) -> None:
        self.proto, self.impl = proto, impl
        self.rebuilds = -1
        self.hangs = 0
        from vgi_rpc.rpc import RpcServer

        self.server = RpcServer(proto, impl)     # one server object; every (re)connection is a new serve() loop on it
        self._open()

    def _open(self) -> None:
        from vgi_rpc.rpc import RpcConnection, make_pipe_pair

        self.rebuilds += 1
        self.ct, self.st = make_pipe_pair()
        self.thread = threading.Thread(target=self._serve, daemon=True)
        self.thread.start()
        self.conn = RpcConnection(self.proto, self.ct)
        self.proxy = self.conn.__enter__()
        self.q_in: queue.Queue = queue.Queue()
        self.q_out: queue.Queue = queue.Queue()
        self.worker = threading.Thread(target=self._work, args=(self.q_in, self.q_out, self.proxy), daemon=True)
        self.worker.start()

    def _serve(self) -> None:
        try:
            self.server.serve(self.st)
        except BaseException:  # noqa: BLE001  (a dead serve loop is observed through the client's outcome)
            pass

    @staticmethod
    def _work(q_in, q_out, proxy) -> None:
        while True:
            item = q_in.get()
            if item is None:
                return
            name, kwargs, stream = item
            try:
                q_out.put(("ok", invoke(proxy, name, kwargs, stream)))
            except BaseException as e:  # noqa: BLE001
                q_out.put(("err", e))

    LOCAL_ERRORS = (OverflowError, TypeError, ValueError, UnicodeError, KeyError, AttributeError)

    def call(self, name: str, kwargs: dict, stream: bool = False):
        import pyarrow as pa

        self.q_in.put((name, kwargs, stream))
        try:
            res = self.q_out.get(timeout=WATCHDOG_S)
        except queue.Empty:
            # the client is blocked reading a response that will never come.  Nothing is closed from here (closing a
            # pipe object another thread is blocked on would block this thread too); the stuck daemon threads are leaked.
            self.hangs += 1
            self._open()
            return ("hang", None)
        if res[0] == "err":
            e = res[1]
            from vgi_rpc.rpc import RpcError

            # RpcError = the server answered (or the client refused to send): the serve loop is alive.  Anything else that
            # is not a plain local conversion error (bare StopIteration, EOF, OSError ...) is how a dying serve loop looks
            # from the client: give it time to finish dying before asking whether it is alive.
            local = isinstance(e, (RpcError, pa.ArrowException, *self.LOCAL_ERRORS))
            if not local:
                self.thread.join(timeout=1.0)
            if not self.thread.is_alive():
                self._abandon()       # the serve loop died on this call: later calls would block forever
                return ("err_server_dead", e)
        return res

    def _abandon(self) -> None:
        self.q_in.put(None)           # the worker is idle here (its result was consumed)
        for t in (self.ct, self.st):
            try:
                t.close()
            except Exception:  # noqa: BLE001
                pass
        self._open()

    def close(self) -> None:
        self.q_in.put(None)
        try:
            self.ct.close()
            self.st.close()
        except Exception:  # noqa: BLE001
            pass


class HttpLink:
    def __init__(self, proto, impl) -> None:
        from vgi_rpc.http import http_connect
        from vgi_rpc.http._testing import make_sync_client
        from vgi_rpc.rpc import RpcServer

        self.client = make_sync_client(RpcServer(proto, impl), token_key=b"k" * 32)
        self.cm = http_connect(proto, client=self.client)
        self.proxy = self.cm.__enter__()

    def call(self, name: str, kwargs: dict, stream: bool = False):
        try:
            return ("ok", invoke(self.proxy, name, kwargs, stream))
        except BaseException as e:  # noqa: BLE001
            return ("err", e)

    def close(self) -> None:
        self.cm.__exit__(None, None, None)


def definable(term: tuple):
    """stage 'define': a one-method Protocol with this annotation as parameter and return type is introspectable"""
    from vgi_rpc.rpc import rpc_methods

    try:
        ann = T.annotation(term)
        f = _fn("probe", False, False, False, False, ann, None, None, None, None)
        proto = types.new_class("Probe_" + "_".join(term), (Protocol,), {}, lambda d: d.update({"probe": f}))
        rpc_methods(proto)
        return None
    except Exception as e:  # noqa: BLE001
        return f"{type(e).__name__}: {str(e)[:160]}"


Y_VALUE = {"int": (41, 42), "ostr": ("é✓", None)}   # (value passed explicitly, declared default)


def run(ctx: Ctx) -> None:
    warnings.filterwarnings("ignore")
    quick = ctx.quick
    rng = ctx.rng
    T.SEED = ctx.seed
    ctx.rule = ("case = (annotation term, shape, leaf value class, signature, concrete value, transport); terms/classes/signatures "
                "enumerated by TLC from TypeGrammar!Cases; non-trivial = distinct (method signature, call form, repr of the concrete "
                "argument, transport) on which a real call ran")
    ctx.assume("Dev_FloatNarrowingIEEE: a double that float32 cannot hold is judged with a set-valued oracle (error, or exactly "
               "the IEEE-754 nearest float32); the statement read strictly would demand an error -- pyarrow rounds (0.1 -> "
               "0.10000000149, 1e39 -> inf); occurrences are counted in evidence, not flagged",
               "timestamp/time units equal Python's microsecond resolution; sub-unit truncation (timestamp[ms] given microseconds) "
               "and naive<->aware datetime coercion are not in the value space",
               "Decimal and aware datetimes are compared with Python == (numeric / instant equality)",
               "NaN and -0.0 are not placed inside frozensets (hash-based equality cannot observe them)",
               "containers hold (optional) scalars at the RPC level, as the statement says; Enum inside an RPC-level container "
               "(list[Enum], dict[Enum, V], dict[K, Enum]) is treated as outside 'lists, maps and sets of scalars' and is not "
               "generated (observed by hand: such calls raise ArrowTypeError on the client, never a changed value); below a "
               "dataclass the dataclass grammar applies (C03's known set/map conversion defect is matched by the same family key)")
    scalars = [x for x in ALL_LEAVES if x not in ("schema", "batch", "custom")]
    deep = ["int", "u64", "f32", "str", "bytes", "enum", "senum", "ienum", "dec", "ts_us", "schema"] if quick else ALL_LEAVES[:-2]
    runs = [("depth2", {"Mode": "rpc", "MaxDepth": 2, "Ctors": sset(ALL_CTORS), "Leaves": sset(ALL_LEAVES), "DeepLeaves": sset(deep),
                        "SigLeaves": sset(["int", "f32", "str", "enum", "senum", "menum", "ienum", "nt_bytes", "dc0", "ts_us"] if quick else scalars[:-2]), "Variants": sset(["plain"])})]
    if not quick:
        d3 = ["int", "enum", "str", "f32", "dec"]
        runs.append(("depth3", {"Mode": "rpc", "MaxDepth": 3, "Ctors": sset(["opt", "list", "set", "map_str", "dc"]),
                                "Leaves": sset(d3), "DeepLeaves": sset(d3), "SigLeaves": sset([]), "Variants": sset(["plain"])}))
    seen = set()
    plan = []   # (run name, consts, case, exp)
    for name, consts in runs:
        cs = table.enumerate_cases(ctx, "data", "TypeGrammar", constants=consts, invariants=INV, name=f"TypeGrammar:rpc:{name}")
        for cj in cs:
            c = cj["case"]
            key = (tuple(c["t"]), c["shape"], c["k"], c["second"], c["dflt"], c["pos"])
            if key not in seen:
                seen.add(key)
                plan.append((name, consts, c, cj["exp"]))
    ctx.exhaustive = True
    nval = 2 if quick else 3

    # ---- concretise: values + methods
    svc = Service()
    def_err: dict = {}
    calls = []   # (plan index, method name, kwargs, expected return, expected received (x, y), form)
    obs_by_run: dict = {n: [] for n, _ in runs}
    for pi, (rname, consts, c, exp) in enumerate(plan):
        term = tuple(c["t"])
        leaf = term[-1]
        if term not in def_err:
            def_err[term] = definable(term)
        if def_err[term] is not None:
            obs_by_run[rname].append(_o(c, "define", "def_error", False, {"error": def_err[term], "expected": exp}))
            ctx.case([term, "define"])
            continue
        if c["shape"] in ("none", "empty"):
            vals = [T.make_value(term, c["shape"], [], [])]
        else:
            members = T.leaf_values(leaf, c["k"], rng, nval)
            if c["shape"] == "multi":
                others = [k for k in _in_range(leaf) if k != c["k"] and not ("set" in term and k in ("nan", "negzero"))]
                extras = [T.leaf_values(leaf, k, rng, 1)[0] for k in others[:3]]
                vals = [T.make_value(term, "multi", members, extras)]
            else:
                vals = [T.make_value(term, "single", [m], []) for m in members]
        second, dflt = c["second"], c["dflt"]
        yv, yd = Y_VALUE.get(second, (None, None))
        for vi, v in enumerate(vals):
            dx = dflt in ("first", "both")
            dy = dflt in ("second", "both")
            if c["pos"] == "stream":
                try:
                    mname = svc.method(term, second, dflt, None, yd, None, "stream")
                except Exception as e:  # noqa: BLE001  (state/header/call-state classes could not be defined)
                    obs_by_run[rname].append(_o(c, "define", "def_error", False, {"error": f"{type(e).__name__}: {str(e)[:160]}", "expected": exp}))
                    break
                calls.append((pi, rname, mname, {"x": v}, (v, None), "stream"))
                continue
            if dflt == "void":
                mname = svc.method(term, second, dflt, None, yd, None)
                calls.append((pi, rname, mname, {"x": v}, (v, None), "void"))
                continue
            if dflt == "result_only":
                mname = svc.method(term, second, dflt, v, yd, (c["shape"], c["k"], vi))
                calls.append((pi, rname, mname, {}, (v, None), "result_only"))
                continue
            mname = svc.method(term, second, dflt, v if dx else None, yd, (c["shape"], c["k"], vi) if dx else None)
            forms = [("explicit", {"x": v, **({"y": yv} if second != "-" else {})}, (v, yv if second != "-" else None))]
            if dx:
                forms.append(("x_omitted", {**({"y": yv} if second != "-" else {})}, (v, yv if second != "-" else None)))
            if dx and term[0] == "opt" and v is not None and exp == "roundtrip":     # an explicit None must not be replaced by a non-None default
                forms.append(("x_explicit_none", {"x": None, **({"y": yv} if second != "-" else {})}, (None, yv if second != "-" else None)))
            if dy:
                forms.append(("y_omitted", {"x": v}, (v, yd)))
            if dx and dy:
                forms.append(("both_omitted", {}, (v, yd)))
            for form, kwargs, want in forms:
                calls.append((pi, rname, mname, kwargs, want, form))
    proto, impl = svc.build()
    try:
        pipe = PipeLink(proto, impl)
        http = HttpLink(proto, impl)
    except Exception as e:  # noqa: BLE001
        raise MachineryError(f"could not build the echo service ({len(svc.methods)} methods): {type(e).__name__}: {e}") from e
    ctx.extra["echo_methods"] = len(svc.methods)
    stats: dict = {}
    narrowing_seen = 0
    try:
        for pi, rname, mname, kwargs, want, form in calls:
            _, _, c, exp = plan[pi]
            term = tuple(c["t"])
            for tname, link in (("pipe", pipe), ("http", http)):
                is_stream = form == "stream"
                stag = svc.stream_tag.get(mname)
                svc.received.pop(mname, None)
                svc.stream_seen.pop(stag, None)
                status, res = link.call(mname, dict(kwargs), is_stream)
                if status == "hang":
                    # confirm on the fresh connection: a first hang can be the tail of an earlier call's undetected
                    # serve-loop death; only a call that hangs again on a new connection counts
                    svc.received.pop(mname, None)
                    svc.stream_seen.pop(stag, None)
                    status, res = link.call(mname, dict(kwargs), is_stream)
                nearest = False
                detail = {"transport": tname, "form": form, "method": mname, "sent": T.show(kwargs), "expected": exp}
                if status == "ok" and is_stream:
                    # one-way observations at four positions: the stream method's parameter, the header the client got,
                    # the state field and the call-state field as every produce() turn saw them
                    recv = svc.received.get(mname)
                    turns = svc.stream_seen.get(stag, [])
                    header, nb = res
                    got = {"param": [recv[0]] if recv is not None else [], "header": [header if svc.stream_bare.get(mname) else getattr(header, "v", _MISSING)],
                           "state": [t[1] for t in turns], "call_state": [t[2] for t in turns if t[2] is not _MISSING]}
                    complete = recv is not None and nb == STREAM_TICKS and len(turns) == STREAM_TICKS + 1
                    bad_pos = [k for k, vs in got.items() if not all(T.same(x, want[0]) for x in vs)]
                    if complete and not bad_pos and (tname == "pipe" or got["call_state"]):
                        outcome = "equal"
                    else:
                        outcome = "changed"
                        detail.update({"positions_changed": bad_pos, "batches": nb, "turns": len(turns),
                                       "got": {k: T.show(vs, 120) for k, vs in got.items() if k in bad_pos}})
                        nearest = complete and all(_nearest_ok(term, want[0], x) or T.same(x, want[0]) for vs in got.values() for x in vs)
                        if nearest:
                            narrowing_seen += 1
                elif status == "ok":
                    recv = svc.received.get(mname)
                    ret_ok = T.same(res, None if form == "void" else want[0])
                    recv_ok = recv is not None and (form == "result_only" or (T.same(recv[0], want[0]) and T.same(recv[1], want[1])))
                    if ret_ok and recv_ok:
                        outcome = "equal"
                    else:
                        outcome = "changed"
                        detail.update({"returned": T.show(res), "received": T.show(recv)})
                        near = lambda x: _nearest_ok(term, want[0], x) or T.same(x, want[0])  # noqa: E731
                        nearest = (recv is not None and (form == "void" or near(res)) and (form == "result_only" or near(recv[0]))
                                   and (form == "result_only" or T.same(recv[1], want[1])) and (form != "void" or res is None))
                        if nearest:
                            narrowing_seen += 1
                elif status == "hang":
                    outcome = "hang"
                    detail["error"] = f"no response within {WATCHDOG_S}s (connection rebuilt)"
                else:
                    outcome = "error"
                    detail["error"] = f"{type(res).__name__}: {str(res)[:200]}"
                    if status == "err_server_dead":
                        detail["server_loop_died"] = True
                stats[outcome] = stats.get(outcome, 0) + 1
                obs_by_run[rname].append(_o(c, "call", outcome, nearest, detail))
                ctx.case([mname, form, T.show(kwargs, 300), tname])
    finally:
        pipe.close()
        http.close()
    ctx.extra["outcomes"] = stats
    ctx.extra["pipe_connections_rebuilt"] = pipe.rebuilds
    ctx.extra["pipe_calls_hung"] = pipe.hangs
    ctx.extra["lossy_float32_narrowing_observed"] = narrowing_seen
    drj = {"/".join(t): e for t, e in def_err.items() if e}
    if drj:
        ctx.extra["definition_time_rejections"] = dict(list(drj.items())[:12])
    sampled = 0
    from drivers.c03 import family

    for rname, consts in runs:
        obs = obs_by_run[rname]
        for o in obs[:: max(1, len(obs) // 2)][:3]:
            if sampled < 6:
                ctx.sample({"case": o["case"], "observed": o["obs"], "concrete": o["_c"]})
                sampled += 1
        bad = table.judge(ctx, "data", "TypeGrammar", [{"case": o["case"], "obs": o["obs"]} for o in obs], constants=consts)
        byfam = ctx.extra.setdefault("false_clause_by_class", {})
        for idx, clauses in bad:
            o = obs[idx]
            c = o["case"]
            for cl in clauses:
                pos = position(c["t"])
                key = f"{cl}/{pos}/{family(c['t'])}/{o['obs']['outcome']}"
                byfam[key] = byfam.get(key, 0) + 1
                ctx.violation(cl, {"position": pos, "family": family(c["t"]), "term": "/".join(c["t"]), "shape": c["shape"], "k": c["k"],
                                   "newtype_over": c["t"][-1] if c["t"][-1] in ("nt_enum", "nt_dc") else "-", "second": c["second"], "dflt": c["dflt"], "pos": c["pos"], "transport": o["_c"].get("transport"),
                                   "outcome": o["obs"]["outcome"]},
                              {"observed": o["obs"], "concrete": o["_c"]})
        for o in obs:
            e = o["_c"].get("expected")
            if o["obs"]["outcome"] == "def_error" and o["case"]["t"][-1] not in ("tuple", "mset") and len(ctx.drift) < 20:
                ctx.drift.append({"term": o["case"]["t"], "note": "in-scope annotation refused at definition time", "error": o["_c"].get("error")})
            if e == "rejected" and o["obs"]["outcome"] == "equal" and len(ctx.drift) < 20:
                ctx.drift.append({"term": o["case"]["t"], "k": o["case"]["k"], "note": "value classed unrepresentable round-tripped equal"})


def position(term) -> str:
    """where the dataclass sits in an RPC-level term (for known-finding matching)"""
    t = list(term)
    if t[0] == "dc":
        return "dataclass"
    if len(t) >= 2 and t[0] == "opt" and t[1] == "dc":
        return "optional_dataclass"
    return "plain"


def _o(c, stage, outcome, nearest, concrete):
    return {"case": c, "obs": {"stage": stage, "outcome": outcome, "nearest": bool(nearest)}, "_c": concrete}
