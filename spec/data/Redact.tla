---------------------------------- MODULE Redact ----------------------------------
(* C35 -- sensitive claim values never reach access logs, at any nesting depth.

   A claims object is a tree.  What decides the fate of a leaf value is the sequence of keys on its path, so the
   trees enumerated here are a spine of containers, depth 1..MaxDepth, each container optionally carrying one
   sibling leaf (branching <= 2):

        levels[j] = [kind |-> "obj",  key |-> class of the key under which the next level (or the final leaf) sits,
                                      sib |-> "none" | "sx" | "n"      an extra leaf entry with a sensitive / neutral key]
                  | [kind |-> "list", key |-> "-",
                                      sib |-> "none" | "item"          an extra leaf item next to the spine item]
        levels[1].kind = "obj"        (the claims object itself is a mapping)

   key classes:  "sx" sensitive, exact name (email, token, given_name, ...)
                 "ss" sensitive name as a substring (access_token, work_email, ...)
                 "sc" case variant of either (EMAIL, Api_Key, ...)
                 "n"  neutral (sub, scope, ctx, ...)

   Leaves:  "leaf" (end of the spine), "sib1".."sib4" (sibling leaf in the container of level j).
   Keys:    "k1".."k4" (spine key of level j), "s1".."s4" (sibling key of level j).

   Intended design: the value of a claim whose NAME is sensitive is never logged -- whatever that value is (a
   string, a number, an object, a list) and however deep the claim sits; the key stays visible with a redacted
   value.  The code's known deviation is named by  Dev_TopLevelOnly  (redaction looks at the top-level keys
   only); Expected / Conforms always describe the intended design.                                            *)
EXTENDS Naturals, Sequences, FiniteSets

CONSTANTS MaxDepth,
          Dev_TopLevelOnly     \* known deviation of redact_claims: only top-level claim names are looked at (FALSE = intended)

KeyClasses == {"sx", "ss", "sc", "n"}
Sens(k) == k \in {"sx", "ss", "sc"}

ObjLevels  == [kind : {"obj"}, key : KeyClasses, sib : {"none", "sx", "n"}]
ListLevels == [kind : {"list"}, key : {"-"}, sib : {"none", "item"}]
Levels == ObjLevels \cup ListLevels

RECURSIVE Spines(_)
Spines(d) == IF d = 1 THEN {<<l>> : l \in ObjLevels}
             ELSE LET prev == Spines(d - 1) IN prev \cup {Append(p, l) : p \in {q \in prev : Len(q) = d - 1}, l \in Levels}
Cases == {[levels |-> p] : p \in Spines(MaxDepth)}

\* ------------------------------------------------------------------ the oracle (intended design)
SpineSensAt(L, j) == L[j].kind = "obj" /\ Sens(L[j].key)
AncSens(L, j)     == \E i \in 1..(j - 1) : SpineSensAt(L, i)          \* the container of level j sits under a sensitive key
SibId(j) == <<"sib1", "sib2", "sib3", "sib4">>[j]
KId(j)   == <<"k1", "k2", "k3", "k4">>[j]
SId(j)   == <<"s1", "s2", "s3", "s4">>[j]

Leaves(L)  == {"leaf"} \cup {SibId(j) : j \in {x \in 1..Len(L) : L[x].sib # "none"}}
Hidden(L)  == (IF \E j \in 1..Len(L) : SpineSensAt(L, j) THEN {"leaf"} ELSE {})
              \cup {SibId(j) : j \in {x \in 1..Len(L) : L[x].sib # "none" /\ (AncSens(L, x) \/ L[x].sib = "sx")}}
\* outermost sensitive keys: nothing above them is redacted, so they must still be there, with a redacted value
MustShow(L) == {KId(j) : j \in {x \in 1..Len(L) : SpineSensAt(L, x) /\ ~AncSens(L, x)}}
               \cup {SId(j) : j \in {x \in 1..Len(L) : L[x].sib = "sx" /\ ~AncSens(L, x)}}
\* depth (1 = top level) of the shallowest sensitive key; 0 if there is none
SensDepth(L) == LET ds == {j \in 1..Len(L) : SpineSensAt(L, j) \/ L[j].sib = "sx"} IN
                IF ds = {} THEN 0 ELSE CHOOSE j \in ds : \A i \in ds : j <= i

Expected(c) == [hidden |-> Hidden(c.levels), mustshow |-> MustShow(c.levels), sensdepth |-> SensDepth(c.levels),
                leaves |-> Leaves(c.levels)]

\* what the code does today (Dev_TopLevelOnly): only the top-level keys are looked at
HiddenTopLevelOnly(L) == (IF SpineSensAt(L, 1) THEN Leaves(L) \ {"sib1"} ELSE {})
                         \cup (IF L[1].sib = "sx" THEN {"sib1"} ELSE {})

ModelHidden(L) == IF Dev_TopLevelOnly THEN HiddenTopLevelOnly(L) ELSE Hidden(L)

\* ------------------------------------------------------------------ table sanity
\* the property itself, stated on the model: holds for the intended design, refuted by TLC with Dev_TopLevelOnly = TRUE
ModelHidesAllSensitive(c) == Hidden(c.levels) \subseteq ModelHidden(c.levels)
WellFormed(c)      == Len(c.levels) \in 1..MaxDepth /\ c.levels[1].kind = "obj"
NeutralHidesNothing(c) == (\A j \in 1..Len(c.levels) : ~SpineSensAt(c.levels, j) /\ c.levels[j].sib # "sx") => Hidden(c.levels) = {}
\* flat claims: the oracle is the documented key-by-key redaction
FlatIsKeyByKey(c)  == Len(c.levels) = 1 =>
                        Hidden(c.levels) = (IF Sens(c.levels[1].key) THEN {"leaf"} ELSE {}) \cup (IF c.levels[1].sib = "sx" THEN {"sib1"} ELSE {})
\* a sensitive key hides its whole subtree
SubtreeHidden(c)   == \A j \in 1..Len(c.levels) : SpineSensAt(c.levels, j) =>
                        ("leaf" \in Hidden(c.levels) /\ \A i \in (j + 1)..Len(c.levels) : c.levels[i].sib # "none" => SibId(i) \in Hidden(c.levels))
\* every hidden leaf is covered by a key that stays visible, and nothing is hidden without a sensitive key
HiddenIffCovered(c) == (Hidden(c.levels) # {}) <=> (MustShow(c.levels) # {})
\* the intended design hides at least what top-level-only redaction hides, and they agree on flat claims
IntendedCoversTopLevel(c) == HiddenTopLevelOnly(c.levels) \subseteq Hidden(c.levels)
                             /\ (Len(c.levels) = 1 => HiddenTopLevelOnly(c.levels) = Hidden(c.levels))

\* ------------------------------------------------------------------ judging what the real code did
(* observation o:
     mode     "default"  the default redactor is installed
              "raising"  a custom redactor that raises is installed
     emitted  a record was written
     claims   the record has a non-empty `claims` member
     leaked   ids of the leaves whose unique marker occurs anywhere in the serialized line
     keys     [k1..k4, s1..s4]: "redacted" the key is present at its path and nothing of its subtree is in its value
                                "verbatim" the key is present and its value still contains a marker of its subtree
                                "missing"  the key is not at its path            "na" no such key in this tree   *)
Bad(name, cond) == IF cond THEN {} ELSE {name}
Range(q) == {q[j] : j \in 1..Len(q)}

Conforms(c, o) ==
  LET L == c.levels IN
  IF o.mode = "raising" THEN
         Bad("FailingRedactorDropsClaims", ~o.claims /\ Range(o.leaked) = {})
  ELSE   Bad("NoSensitiveValueInLog",      Range(o.leaked) \cap Hidden(L) = {})
    \cup Bad("SensitiveKeyVisibleRedacted", o.emitted => \A k \in MustShow(L) : o.keys[k] = "redacted")
=====================================================================================
