--------------------------------- MODULE Negotiate ---------------------------------
(* C19 -- response content-encoding negotiation as a total function.

   A case is  [a |-> Accept-Encoding list, v |-> X-VGI-Accept-Encoding list, s |-> server encode set]
   over the token alphabet  "z" (zstd)  "g" (gzip)  "i" (identity)  "u" (any token that is none of these).
   Lists are ordered, may be empty (header absent / empty) and may contain duplicates; the server set is a
   duplicate-free sequence in canonical order (<<>>, <<"z">>, <<"g">>, <<"z","g">>) -- no sets inside cases.

   Statement (transcribed once, declaratively -- `Negotiate`):
     the client's preference order is the VGI list followed by the generic list (VGI header takes precedence);
     the response coding is the first entry of that order that the server can produce, where identity is always
     producible and means "no coding"; nothing producible => no coding.
   The chosen coding is announced on the header matching how it was negotiated: X-VGI-Content-Encoding when the
   coding was offered on the VGI header only, Content-Encoding when it was offered on the generic header only.
   When the chosen coding was offered on BOTH headers the statement does not single out one (the repository's
   conformance suite stamps the generic header); the oracle is set-valued there (`Hdr` returns both).

   `Walk` is the same function written operationally (a left-to-right scan, the shape of
   _CompressionMiddleware._pick_response_encoding); the table-sanity invariant `Agree` makes TLC prove the two
   formulations equal on every enumerated case.                                                              *)
EXTENDS Naturals, Sequences, FiniteSets

CONSTANTS MaxA,         \* Accept-Encoding: all lists up to this length
          MaxV, MinV    \* X-VGI-Accept-Encoding: all lists of length MinV..MaxV

Tokens == {"z", "g", "i", "u"}
Codecs == {"z", "g"}
ServerSets == {<<>>, <<"z">>, <<"g">>, <<"z", "g">>}

RECURSIVE ListsUpTo(_)
ListsUpTo(n) == IF n = 0 THEN {<<>>}
                ELSE LET prev == ListsUpTo(n - 1) IN prev \cup {Append(l, t) : l \in prev, t \in Tokens}
ListsA == ListsUpTo(MaxA)
ListsV == {l \in ListsUpTo(MaxV) : Len(l) >= MinV}

\* the case space, split so that TLC's workers can share the enumeration: one seed per Accept-Encoding list
Seeds == {[a |-> a, v |-> <<>>, s |-> <<>>] : a \in ListsA}
Expand(p) == {[a |-> p.a, v |-> v, s |-> s] : v \in ListsV, s \in ServerSets}
Cases == UNION {Expand(p) : p \in Seeds}

Range(q) == {q[i] : i \in 1..Len(q)}

\* ---------------------------------------------------------------- the statement, declaratively
Pref(c) == c.v \o c.a                                   \* VGI header first, then the generic header
Decisive(c, e) == e = "i" \/ e \in Range(c.s)           \* identity is always producible
Negotiate(c) ==
  LET L == Pref(c)
      S == Range(c.s)
      D == {k \in 1..Len(L) : L[k] = "i" \/ L[k] \in S}     \* positions of decisive entries
  IN IF D = {} THEN "none"
     ELSE LET k == CHOOSE x \in D : \A y \in D : x <= y       \* the first of them
          IN IF L[k] = "i" THEN "none" ELSE L[k]

\* admissible announcement headers (a sequence: cases stay JSON friendly)
Hdr(c) ==
  LET x == Negotiate(c) IN
    IF x = "none" THEN <<"none">>
    ELSE IF x \in Range(c.v) /\ x \notin Range(c.a) THEN <<"vgi">>
    ELSE IF x \notin Range(c.v) THEN <<"std">>
    ELSE <<"std", "vgi">>

Expected(c) == [coding |-> Negotiate(c), hdr |-> Hdr(c)]

\* ---------------------------------------------------------------- the same function, operationally
RECURSIVE Scan(_, _)
Scan(c, rest) ==
  IF rest = <<>> THEN "none"
  ELSE IF Head(rest) = "i" THEN "none"
  ELSE IF Head(rest) \in Range(c.s) THEN Head(rest)
  ELSE Scan(c, Tail(rest))
Walk(c) == Scan(c, c.v \o SelectSeq(c.a, LAMBDA e : e \notin Range(c.v)))

\* ---------------------------------------------------------------- table sanity (TLC, every case)
Agree(c) == Walk(c) = Negotiate(c)
OnlyOfferedAndProducible(c) ==
  Negotiate(c) # "none" => /\ Negotiate(c) \in Range(c.a) \cup Range(c.v)
                           /\ Negotiate(c) \in Range(c.s) /\ Negotiate(c) \in Codecs
NoOverlapNoCoding(c) ==
  ((Range(c.a) \cup Range(c.v)) \cap Range(c.s) = {}) => Negotiate(c) = "none"
VgiPrecedence(c) ==          \* as soon as the VGI list alone decides, the generic list is irrelevant
  (\E k \in 1..Len(c.v) : Decisive(c, c.v[k])) => Negotiate(c) = Negotiate([c EXCEPT !.a = <<>>])
IdentityFirst(c) ==          \* identity ahead of every producible codec => no coding
  LET L == Pref(c) IN
    (\E k \in 1..Len(L) : L[k] = "i" /\ \A j \in 1..(k - 1) : L[j] \notin Range(c.s)) => Negotiate(c) = "none"
UnknownAndDuplicatesIrrelevant(c) ==
  LET Clean(q) == SelectSeq(q, LAMBDA e : e # "u")
      RECURSIVE Dedup(_, _)
      Dedup(q, seen) == IF q = <<>> THEN <<>>
                        ELSE IF Head(q) \in seen THEN Dedup(Tail(q), seen)
                        ELSE <<Head(q)>> \o Dedup(Tail(q), seen \cup {Head(q)})
  IN Negotiate(c) = Negotiate([c EXCEPT !.a = Dedup(Clean(c.a), {}), !.v = Dedup(Clean(c.v), {})])
HeaderWellFormed(c) ==
  /\ (Negotiate(c) = "none") <=> (Hdr(c) = <<"none">>)
  /\ Negotiate(c) # "none" => Range(Hdr(c)) \subseteq {"std", "vgi"}

\* ---------------------------------------------------------------- judging what the real code did
(* observation o = [runs |-> sequence of run records], one per request sent for the case (same header pair):
     run = [path, status, refstatus, coding, hdr, decodes, same]
     path     which kind of Arrow response the headers were sent for.  The negotiation is a property of the response,
              whatever produced it:
                "unary" | "unary_small" (a few bytes of result) | "producer" (continuation turn: the pre-compressed
                code path) | "init" (producer /init) | "exch_init" | "exchange" (exchange turn) | "rpc_error" (200 with
                the error marker) | "not_found" (404) | "bad_request" (400) | "client" (a request issued by the
                repository's own Python client through http_connect)
     status   HTTP status;  refstatus = the status of the same request sent without any accept header
     coding   "z" | "g" | "none" | "other"    what the announcement header(s) name ("other": any other token,
                                              or two headers that disagree)
     hdr      "none" | "std" | "vgi" | "both" which announcement header(s) were present
     decodes  the body decodes under the announced coding (TRUE for no coding)
     same     the decoded body equals the reference (uncompressed) body of the same request (state tokens, which are
              re-sealed per response, excepted);  for "client": the values the client returned equal the reference
   A failing clause is reported as "<Clause>/<path>".                                                         *)
RunFails(e, r) ==
       {"StatusUnchanged": x \in {1} \cap (IF r.status = r.refstatus THEN {} ELSE {1})}
  \cup {"Coding"        : x \in {1} \cap (IF r.coding = e.coding THEN {} ELSE {1})}
  \cup {"Header"        : x \in {1} \cap (IF r.hdr \in Range(e.hdr) THEN {} ELSE {1})}
  \cup {"BodyDecodes"   : x \in {1} \cap (IF r.decodes THEN {} ELSE {1})}
  \cup {"BodyIdentical" : x \in {1} \cap (IF r.same THEN {} ELSE {1})}
Conforms(c, o) ==
  LET e == Expected(c) IN
    UNION {{cl \o "/" \o o.runs[k].path : cl \in RunFails(e, o.runs[k])} : k \in 1..Len(o.runs)}
=====================================================================================
