"""Real `WorkerPool` under the deterministic scheduler (C32 level 1, Pool.tla) + sequential borrower scripts on
real subprocess workers (C32 level 2, PoolUse.tla).

Level 1.  Replaced in the `vgi_rpc.pool` namespace for the duration of one run (nothing in /repo changes):
  threading  -> scheduler shims (Lock = scheduler lock; Event.wait and Thread.join are park points; Thread = the
                reaper as a scheduler thread)
  time       -> logical clock (strictly increasing within a tick)
  SubprocessTransport -> FakeTransport: a "worker process" is a pid, poll() and an os.pipe pair to a REAL RpcServer
                serving the small PoolSvc protocol in a free-running daemon thread; constructor = park point "spawn"
  atexit     -> no-op
The borrowers run the REAL pool.connect() / RpcConnection / proxy / StreamSession code; what they do with the
connection is one of the scripts below.  A borrower's first call on a worker is an echo of a value only it knows:
that is the observation "this connection was at a message boundary / I read my own answer".
"""
from __future__ import annotations

import itertools
import os
import select
import sys
import threading as _real_threading
import time as _real_time
import types
import warnings

import pyarrow as pa

import vgi_rpc.pool as P
from drivers._conc2_poolsvc import PoolSvc, make_server, worker_cmd
from vf.sched import Scheduler
from vgi_rpc.rpc import AnnotatedBatch, RpcError, make_pipe_pair

sys.setswitchinterval(1e-5)
warnings.filterwarnings("ignore")

_ORIG = {k: getattr(P, k) for k in ("threading", "time", "SubprocessTransport", "atexit")}
_SERVER = None
CMD = ["fake-worker", "--pool"]
_V = pa.schema([pa.field("v", pa.int64())])

BPC_LABEL = {"start": "start", "borrow": "acq", "spawn": "spawn", "spawned": "acq", "use": "use", "ret": "acq",
             "retaband": "acq", "retdead": "acq", "done": "EXIT", "raised": "EXIT"}
RPC_LABEL = {"wait": "wait", "reap": "acq", "done": "EXIT"}
CPC_LABEL = {"start": "start", "join": "join", "drain": "acq", "done": "EXIT"}


class Boom(Exception):
    """Raised by a borrower's on_log callback."""


class OsBoom(BrokenPipeError):
    """An on_log callback whose own I/O failed (printing the log line to a closed stdout): an OSError that has
    nothing to do with the RPC transport."""


class BaseBoom(BaseException):
    """Not an `Exception`: what KeyboardInterrupt / asyncio.CancelledError / SystemExit look like to the client."""


EXC = {"Exception": Boom, "OSError": OsBoom, "Base": BaseBoom}


def _lab(label: str) -> str:
    return "acq" if label.startswith("acq:") else label


class Watchdog:
    """Detects "this borrower is blocked forever" on an in-process fake worker without guessing with a timeout:
    the client thread and the worker thread are both *inside the read(2) system call* on their (empty) pipes --
    /proc/self/task/<tid>/syscall says so -- on five consecutive polls.  Nobody can make progress then; the worker's
    output pipe is closed so that the client's read ends with an error, which is what the borrower observes instead of
    its answer.  `hard` seconds bounds everything."""

    def __init__(self, tr, client_native_id: int, hard: float = 30.0) -> None:
        self.tr, self.client_nid, self.hard = tr, client_native_id, hard
        self.fired = False
        self._stop = _real_threading.Event()
        self._th = _real_threading.Thread(target=self._run, daemon=True, name="c32-watchdog")

    def __enter__(self):
        self._th.start()
        return self

    def __exit__(self, *a):
        self._stop.set()
        self._th.join(2)

    @staticmethod
    def _in_read(native_id, fobj) -> bool:
        """Is that thread sleeping in read(fd) on exactly this stream's descriptor?"""
        try:
            fd = fobj.fileno()
            parts = open(f"/proc/self/task/{native_id}/syscall").read().split()
            return parts[0] == "0" and int(parts[1], 16) == fd          # x86-64: syscall 0 = read
        except Exception:  # noqa: BLE001
            return False

    @staticmethod
    def _empty(fobj) -> bool:
        try:
            return not select.select([fobj.fileno()], [], [], 0)[0]
        except (ValueError, OSError):
            return False

    def _run(self) -> None:
        hits, t0 = 0, _real_time.time()
        while not self._stop.wait(0.01):
            tr = self.tr
            stuck = (tr.thread.is_alive() and self._in_read(tr.thread.native_id, tr.server_side.reader)
                     and self._in_read(self.client_nid, tr.client.reader)
                     and self._empty(tr.client.reader) and self._empty(tr.server_side.reader))
            hits = hits + 1 if stuck else 0
            if hits >= 5 or _real_time.time() - t0 > self.hard:
                self.fired = True
                tr.break_pipe()
                return


def _server():
    global _SERVER
    if _SERVER is None:
        _SERVER = make_server()
    return _SERVER


# ------------------------------------------------------------------------------------------------ borrower scripts
class Script:
    """What a borrower does with its proxy.  `reads` collects (expected, got) pairs of values only it asked for."""

    def __init__(self, on_log_arm, exc: str = "Exception") -> None:
        self._arm, self.exc = on_log_arm, exc
        self.reads: list[bool] = []

    def arm(self, at: int, exc: str | None = None) -> None:
        self._arm(at, exc or (self.exc if self.exc != "none" else "Exception"))

    def chk(self, got, exp) -> None:
        self.reads.append(got == exp)


def _batch(x: int) -> AnnotatedBatch:
    return AnnotatedBatch(pa.RecordBatch.from_pydict({"v": [x]}, schema=_V))


def s_unary(sc, svc, tag, pos):
    sc.chk(svc.echo(x=tag), tag)


def s_stream_full(sc, svc, tag, pos):
    vals = [b.batch.column("v")[0].as_py() for b in svc.count(tag=tag, n=2, logs=1)]
    sc.chk(vals, [tag * 1000, tag * 1000 + 1])


def s_stream_close(sc, svc, tag, pos):
    s = svc.count(tag=tag, n=3, logs=0)
    for i in range(pos):
        sc.chk(s.tick().batch.column("v")[0].as_py(), tag * 1000 + i)
    s.close()


def s_stream_cancel(sc, svc, tag, pos):
    s = svc.count(tag=tag, n=3, logs=0)
    for i in range(pos):
        sc.chk(s.tick().batch.column("v")[0].as_py(), tag * 1000 + i)
    s.cancel()


def s_xchg_close(sc, svc, tag, pos):
    with svc.xchg(tag=tag, logs=1) as s:
        for i in range(pos):
            sc.chk(s.exchange(_batch(i)).batch.column("v")[0].as_py(), i + tag)


def s_unary_intr(sc, svc, tag, pos):
    """on_log raises at the pos-th log of a unary call (client-side exception mid-read)"""
    sc.arm(pos)
    svc.echo_log(x=tag, logs=3)


def s_close_intr(sc, svc, tag, pos):
    """on_log raises while close() drains: a tick is interrupted at its first log (the borrower catches that), so
    3 more logs and the data batch of that turn are still unread when close() is called; on_log raises again at the
    pos-th of them"""
    s = svc.count(tag=tag, n=3, logs=4)
    sc.arm(1, "Exception")
    try:
        s.tick()
    except Boom:
        pass
    sc.arm(pos)
    s.close()


def s_unary_error(sc, svc, tag, pos):
    """the server raises in a unary method; the borrower goes on using the connection"""
    try:
        svc.boom(x=tag)
        sc.reads.append(False)
    except RpcError:
        pass
    for _ in range(pos):
        sc.chk(svc.echo(x=tag), tag)


def s_stream_error(sc, svc, tag, pos):
    """the producer raises on its pos-th turn (tick() closes the session on RpcError)"""
    s = svc.count_fail(tag=tag, at=pos)
    try:
        for i in range(pos + 1):
            sc.chk(s.tick().batch.column("v")[0].as_py(), tag * 1000 + i)
        sc.reads.append(False)
    except RpcError:
        pass


def s_init_error(sc, svc, tag, pos):
    """a stream method raises before its stream opens: pos = 0 header-less (the error arrives with the first
    tick), pos = 1 with a declared header (the error arrives instead of the header)"""
    try:
        if pos == 0:
            svc.init_fail(tag=tag).tick()
        else:
            svc.init_fail_h(tag=tag)
        sc.reads.append(False)
    except RpcError:
        pass


def s_xchg_error(sc, svc, tag, pos):
    s = svc.xchg_fail(tag=tag)
    try:
        s.exchange(_batch(1))
        sc.reads.append(False)
    except RpcError:
        pass


def s_abandon(sc, svc, tag, pos):
    s = svc.count(tag=tag, n=3, logs=0)
    for i in range(pos):
        sc.chk(s.tick().batch.column("v")[0].as_py(), tag * 1000 + i)


def s_abandon_hdr(sc, svc, tag, pos):
    s = svc.count_h(tag=tag, n=3, logs=0)
    sc.chk(s.header.tag, tag)
    for i in range(pos):
        sc.chk(s.tick().batch.column("v")[0].as_py(), tag * 1000 + i)


def s_tick_intr(sc, svc, tag, pos):
    """on_log raises during the pos-th log read of tick()s"""
    s = svc.count(tag=tag, n=3, logs=1)
    sc.arm(pos)
    for _ in range(3):
        s.tick()


def s_xchg_intr(sc, svc, tag, pos):
    s = svc.xchg(tag=tag, logs=2)
    sc.arm(pos)
    s.exchange(_batch(1))


def s_hdr_intr(sc, svc, tag, pos):
    """on_log raises while the stream header is being read (no session object exists yet)"""
    sc.arm(pos)
    svc.count_h(tag=tag, n=3, logs=2)


def s_abandon_then_close(sc, svc, tag, pos):
    s1 = svc.count(tag=tag, n=3, logs=0)
    for i in range(pos):
        sc.chk(s1.tick().batch.column("v")[0].as_py(), tag * 1000 + i)
    s2 = svc.count(tag=tag + 1, n=3, logs=0)
    s2.close()


def s_abandon_then_cancel(sc, svc, tag, pos):
    s1 = svc.count(tag=tag, n=3, logs=0)
    for i in range(pos):
        s1.tick()
    s2 = svc.count(tag=tag + 1, n=3, logs=0)
    s2.cancel()


def s_closed_then_hdr_intr(sc, svc, tag, pos):
    for _ in svc.count(tag=tag, n=1, logs=0):
        pass
    sc.arm(pos)
    svc.count_h(tag=tag + 1, n=3, logs=2)


def s_abandon_then_unary(sc, svc, tag, pos):
    s1 = svc.count(tag=tag, n=3, logs=0)
    for i in range(pos):
        s1.tick()
    svc.echo(x=tag)        # fails or returns garbage for *this* borrower; the stream stays abandoned


# kind -> [(script, positions)]     kind = the abstract class of Pool.tla / PoolUse.tla
# kind -> [(script, positions, exception classes the on_log callback raises)]
#   kind = the abstract class of Pool.tla / PoolUse.tla; exception class "none" = the script has no raising callback
_N, _E, _B, _O, _EB, _ALL = ["none"], ["Exception"], ["Base"], ["OSError"], ["Exception", "Base"], ["Exception", "OSError", "Base"]
SCRIPTS = {
    "clean": [(s_unary, [0], _N), (s_stream_full, [0], _N), (s_stream_close, [0, 1, 3], _N), (s_stream_cancel, [0, 2], _N),
              (s_xchg_close, [0, 2], _N), (s_unary_error, [0, 1], _N), (s_stream_error, [0, 1, 2], _N),
              (s_init_error, [0], _N), (s_xchg_error, [0], _N)],
    "abandon": [(s_abandon, [0, 1, 2, 3], _N), (s_abandon_hdr, [0, 1], _N), (s_tick_intr, [1, 2, 3], _EB),
                (s_xchg_intr, [1, 2], _EB), (s_hdr_intr, [1, 2], _ALL), (s_abandon_then_unary, [0, 1], _N),
                (s_init_error, [1], _N)],       # (a stream request that never produced a session: the pool cannot
                                                #  tell a server-side init error from an interrupted header read)
    "nonlast": [(s_abandon_then_close, [0, 1, 2], _N), (s_abandon_then_cancel, [1], _N),
                (s_closed_then_hdr_intr, [1, 2], _ALL)],
    # a call, a stream turn or a close()-drain cut short by a client-side exception after which no stream is left
    # *visibly* open: the client must drain, or the pool must be told
    "intr": [(s_unary_intr, [1, 2, 3], _ALL), (s_close_intr, [1, 2, 3], _ALL), (s_tick_intr, [1, 2, 3], _O),
             (s_xchg_intr, [1, 2], _O)],
}
INTR_OK: set | None = None      # set by the driver after calibration: the "intr" variants that behave like the model's IntrMode


def all_scripts() -> list[tuple[str, str, int, str]]:
    return [(k, fn.__name__, p, e) for k, lst in SCRIPTS.items() for fn, ps, es in lst for p in ps for e in es]


def _fn(name: str):
    return globals()[name]


def run_script(svc, name: str, tag: int, pos: int, arm, exc: str = "Exception") -> tuple[list[bool], str | None]:
    sc = Script(arm, exc)
    err = None
    try:
        _fn(name)(sc, svc, tag, pos)
    except (Boom, OsBoom, BaseBoom):
        err = "Boom"
    except RpcError as e:
        # the client wraps OSError-looking exceptions (also the callback's own) into RpcError("TransportError")
        err = "Boom" if isinstance(e.__cause__, OsBoom) else "RpcError"
    except Exception as e:  # noqa: BLE001   (scripts that misuse a connection get errors for themselves)
        err = type(e).__name__
    finally:
        arm(0)
    return sc.reads, err


def make_on_log():
    st = {"at": 0, "n": 0, "exc": Boom}

    def arm(at: int, exc: str = "Exception") -> None:
        st["at"], st["n"], st["exc"] = at, 0, EXC[exc]

    def on_log(msg) -> None:
        st["n"] += 1
        if st["at"] and st["n"] == st["at"]:
            raise st["exc"](msg.message)

    return on_log, arm


# ------------------------------------------------------------------------------------------------ level 1 world
class PoolWorld:
    def __init__(self, nb: int, rounds: int, max_idle: int, reaper: bool = True, closer: bool = True, rng=None,
                 nkeys: int = 1, shm_size: int | None = None) -> None:
        self.shm_size = shm_size
        self.nb, self.rounds, self.max_idle, self.nkeys = nb, rounds, max_idle, nkeys
        self.with_reaper, self.with_closer = reaper, closer
        self.rng = rng
        self.sched = Scheduler(step_timeout=30.0)
        self.workers: list = []
        self.held = [0] * nb
        self.kind = [("clean", "s_unary", 0, "none")] * nb
        self.outcome: dict[int, list] = {b: [] for b in range(1, nb + 1)}
        self.trace: list[dict] = []
        self.mon: list[dict] = []
        self.tags = itertools.count(10)
        self.tseq = itertools.count(1)
        self.last_use: dict[int, str] = {}      # worker -> "kind:script" of the last script that ran on it
        self.model_guided = False               # replaying a TLC path: "intr" variants must behave like the model's IntrMode
        w = self

        class EventShim:
            def __init__(self):
                self.flag = False

            def set(self):
                self.flag = True

            def is_set(self):
                return self.flag

            def clear(self):
                self.flag = False

            def wait(self, timeout=None):
                if w.sched._me() is not None:
                    w.sched.yield_point("wait")
                return self.flag

        class ThreadShim:
            def __init__(self, group=None, target=None, name=None, args=(), kwargs=None, *, daemon=None):
                self.target, self.args, self.kwargs = target, tuple(args), dict(kwargs or {})
                self.name, self.daemon = name, daemon
                self.started = False

            def start(self):
                self.started = True
                if w.with_reaper:
                    w.sched.spawn("reaper", self.target, *self.args, **self.kwargs)

            def join(self, timeout=None):
                if w.sched._me() is not None:
                    w.sched.yield_point("join")

            def is_alive(self):
                return w.with_reaper and "reaper" not in w.sched.done

        ns = self.sched.threading_shim(thread_cls=ThreadShim)
        ns.Event = EventShim
        self.ns = ns
        tns = types.SimpleNamespace(**{k: getattr(_ORIG["time"], k) for k in dir(_ORIG["time"]) if not k.startswith("__")})
        tns.monotonic = lambda: w.sched.clock + next(w.tseq) * 1e-7
        tns.time = tns.monotonic
        self.tns = tns

        class Proc:
            def __init__(self, tr, cmd):
                self.tr, self.args, self.pid, self.returncode = tr, list(cmd), 5000 + tr.id, None

            def poll(self):
                if self.tr.dead or self.tr.closed:
                    self.returncode = -9 if self.tr.dead else 0
                    return self.returncode
                return None

            def wait(self, timeout=None):
                return 0

            def kill(self):
                self.tr.dead = True

        class FakeTransport:
            def __init__(self, cmd, *, stderr=None, stderr_logger=None):
                me = w.sched._me()
                if me is not None:
                    w.sched.yield_point("spawn")
                self.id = len(w.workers) + 1
                w.workers.append(self)
                self.dead = False
                self.closed = False
                self.client, self.server_side = make_pipe_pair()
                self.thread = _real_threading.Thread(target=self._serve, daemon=True, name=f"fake-worker-{self.id}")
                self.thread.start()
                self._proc = Proc(self, cmd)
                if me is not None and me.startswith("b"):
                    w.held[int(me[1:]) - 1] = self.id

            def _serve(self):
                # When the real server loop gives up on this connection (protocol garbage after a misused
                # connection) the fake "process" stays alive for poll() -- process death is the model's Die action
                # only -- but its pipe ends are closed, so a later borrower gets an error instead of blocking.
                try:
                    _server().serve(self.server_side)
                except Exception:  # noqa: BLE001
                    pass
                finally:
                    for f in (self.server_side.writer, self.server_side.reader):
                        try:
                            f.close()
                        except Exception:  # noqa: BLE001
                            pass

            @property
            def proc(self):
                return self._proc

            @property
            def reader(self):
                return self.client.reader

            @property
            def writer(self):
                return self.client.writer

            def break_pipe(self):
                """Close the worker's end of its output pipe: a client blocked reading it gets EOF."""
                try:
                    os.close(self.server_side.writer.fileno())
                except Exception:  # noqa: BLE001
                    pass

            def close(self):
                if self.closed:
                    return
                self.closed = True
                try:
                    self.client.writer.close()      # EOF for the worker, as closing a child's stdin
                except Exception:  # noqa: BLE001
                    pass
                self.thread.join(2)
                if self.thread.is_alive():
                    return                           # never close a stream another thread is blocked on
                for t in (self.client, self.server_side):
                    try:
                        t.close()
                    except Exception:  # noqa: BLE001
                        pass

        self.FakeTransport = FakeTransport

    # ------------------------------------------------------------------ lifecycle
    def __enter__(self) -> "PoolWorld":
        P.threading, P.time, P.SubprocessTransport = self.ns, self.tns, self.FakeTransport
        P.atexit = types.SimpleNamespace(register=lambda *a, **k: None, unregister=lambda *a, **k: None)
        self.pool = P.WorkerPool(max_idle=self.max_idle, idle_timeout=1.0, shm_size=self.shm_size)
        if self.with_reaper:
            self.sched.step("reaper")          # from thread start to its first Event.wait (setup, not recorded)
        for b in range(1, self.nb + 1):
            self.sched.spawn(f"b{b}", self._borrower, b)
        if self.with_closer:
            self.sched.spawn("closer", self.pool.close)
        return self

    def __exit__(self, *exc) -> None:
        try:
            s = self.sched
            self.pool._stop_event.set()
            for _ in range(10000):
                if all(n in s.done for n in s.threads):
                    break
                r = s.runnable()
                if not r:
                    s.release_all()
                    break
                try:
                    s.step(r[0])
                except Exception:  # noqa: BLE001   (a thread that no longer reaches a park point)
                    for tr in self.workers:
                        tr.break_pipe()
                    s.release_all()
                    break
        finally:
            for tr in self.workers:
                try:
                    tr.close()
                except Exception:  # noqa: BLE001
                    pass
            for k, v in _ORIG.items():
                setattr(P, k, v)

    # ------------------------------------------------------------------ borrower thread body (real client code)
    def _borrower(self, b: int) -> None:
        on_log, arm = make_on_log()
        for _ in range(self.rounds):
            try:
                with self.pool.connect(PoolSvc, CMD + [f"key{(b - 1) % self.nkeys + 1}"], on_log=on_log) as svc:
                    tr = svc._transport._inner
                    self.held[b - 1] = tr.id
                    self._mon("Handout", b=b, w=tr.id, ok=tr.proc.poll() is None)
                    try:
                        self.sched.yield_point("use")
                        if not tr.dead:
                            self._use(b, svc, tr, arm)
                    finally:
                        self._mon("Release", b=b, w=tr.id)
            except RuntimeError as e:
                if "closed" in str(e):
                    self.outcome[b].append(("pool-closed",))
                    self.held[b - 1] = 0
                    return
                self.outcome[b].append(("error", repr(e)))
            except Exception as e:  # noqa: BLE001
                self.outcome[b].append(("error", repr(e)))
            self.held[b - 1] = 0

    def _use(self, b: int, svc, tr, arm) -> None:
        kind, name, pos, exc = self.kind[b - 1]
        tag = next(self.tags)
        with Watchdog(tr, _real_threading.get_native_id()) as wdg:
            try:
                ok = svc.echo(x=tag) == tag
            except Exception:  # noqa: BLE001
                ok = False
            self._mon("Probe", b=b, w=tr.id, ok=ok, why=self.last_use.get(tr.id, "fresh"))
            if not ok:
                self.outcome[b].append(("dirty-handout", tr.id, "blocked" if wdg.fired else "error"))
                return
            self.last_use[tr.id] = f"{kind}:{name}:{exc}"
            reads, err = run_script(svc, name, next(self.tags) * 10, pos, arm, exc)
        if kind == "clean":
            self._mon("Answer", b=b, w=tr.id, ok=all(reads) and err in (None, "Boom"))
        self.outcome[b].append((kind, name, pos, exc, err))

    # ------------------------------------------------------------------ observation
    def _mon(self, e: str, **k) -> None:
        self.mon.append({"e": e, "b": 0, "w": 0, "ok": True, "n": 0, "m": self.max_idle, "why": "", **k})

    def observe(self) -> dict:
        idle = [e.transport.id for e in sorted((e for dq in self.pool._idle.values() for e in dq),
                                               key=lambda e: e.returned_at)]         # global return order
        iset = set(idle)
        return {"idle": idle, "act": self.pool._active, "cl": bool(self.pool._closed),
                "ws": ["closed" if t.closed else ("idle" if t.id in iset else "held") for t in self.workers],
                "al": [not t.dead for t in self.workers], "held": list(self.held)}

    def _ev(self, a: str, k: int = 0, kind: str = "", lab: str = "") -> dict:
        obs = self.observe()
        self._mon("Idle", n=len(obs["idle"]))
        ev = {"a": a, "k": k, "kind": kind, "lab": lab, "script": "", "pos": 0, "exc": "none", **obs}
        self.trace.append(ev)
        return ev

    # ------------------------------------------------------------------ operations
    def step_b(self, b: int, kind: str | None = None, script: str | None = None, pos: int | None = None,
               exc: str | None = None) -> dict:
        name = f"b{b}"
        used = ""
        if self.sched.label(name) == "use":
            k = kind or "clean"
            if script is None:
                cands = [(fn.__name__, p_, e_) for fn, ps, es in SCRIPTS[k] for p_ in ps for e_ in es
                         if not (k == "intr" and self.model_guided and INTR_OK is not None and (fn.__name__, e_) not in INTR_OK)]
                script, pos, exc = self.rng.choice(cands) if self.rng else cands[0]
            self.kind[b - 1] = (k, script, pos, exc or "none")
            used = k
        self.sched.step(name)
        ev = self._ev("B", b, used, _lab(self.sched.label(name)))
        if used:
            ev["script"], ev["pos"], ev["exc"] = self.kind[b - 1][1:4]
        return ev

    def step_r(self) -> dict:
        self.sched.step("reaper")
        return self._ev("R", 0, "", _lab(self.sched.label("reaper")))

    def step_c(self) -> dict:
        self.sched.step("closer")
        return self._ev("C", 0, "", _lab(self.sched.label("closer")))

    def tick(self) -> dict:
        self.sched.clock += 1
        return self._ev("Tick")

    def die(self, wid: int) -> dict:
        self.workers[wid - 1].dead = True
        return self._ev("Die", wid)

    def header(self) -> dict:
        return {"mi": self.max_idle, "rounds": self.rounds, "nkeys": self.nkeys, "rpc0": "wait" if self.with_reaper else "off",
                "cpc0": "start" if self.with_closer else "off"}

    def enabled_ops(self, max_clock: int, deaths_left: int) -> list[tuple]:
        s = self.sched
        ops: list[tuple] = []
        for b in range(1, self.nb + 1):
            if s.enabled(f"b{b}"):
                if s.label(f"b{b}") == "use":
                    ops += [("step_b", b, k) for k in ("clean", "clean", "clean", "abandon", "nonlast", "intr")]
                else:
                    ops.append(("step_b", b))
        if self.with_reaper and s.enabled("reaper"):
            ops.append(("step_r",))
        if self.with_closer and s.enabled("closer"):
            ops.append(("step_c",))
        if s.clock < max_clock:
            ops.append(("tick",))
        if deaths_left > 0:
            obs = self.observe()
            for t in self.workers:
                if t.dead or t.closed:
                    continue
                if t.id in obs["idle"] or any(self.held[b] == t.id and s.label(f"b{b + 1}") == "use" for b in range(self.nb)):
                    ops.append(("die", t.id))
        return ops


def project(state: dict, nb: int) -> dict:
    f = lambda x, i: x[i] if isinstance(x, dict) else x[i - 1]  # noqa: E731
    nw = state["nW"]
    return {"idle": list(state["idle"]), "act": state["active"], "cl": state["closed"],
            "ws": [f(state["wst"], w) for w in range(1, nw + 1)],
            "al": [f(state["alive"], w) for w in range(1, nw + 1)],
            "held": [f(state["held"], b) for b in range(1, nb + 1)]}


def apply(w: PoolWorld, action: str, args: list) -> dict:
    if action in ("BStart", "BBorrow", "BSpawn", "BSpawned", "BRetDiscard", "BRetD", "BRet"):
        return w.step_b(int(args[0]))
    if action in ("BUseD", "BUse"):
        return w.step_b(int(args[0]), args[1])
    if action in ("RWake", "RReap"):
        return w.step_r()
    if action in ("CStart", "CJoin", "CDrain"):
        return w.step_c()
    if action == "Tick":
        return w.tick()
    if action == "Die":
        return w.die(int(args[0]))
    raise ValueError(action)


def _expected_label(b: dict, nb: int) -> str:
    st, act = b["state"], b["action"]
    if act.startswith("B"):
        i = int(b["args"][0])
        pc = st["bpc"]
        return BPC_LABEL[pc[i] if isinstance(pc, dict) else pc[i - 1]]
    if act.startswith("R"):
        return RPC_LABEL[st["rpc"]]
    if act.startswith("C"):
        return CPC_LABEL[st["cpc"]]
    return ""


def run_path(behaviour: list[dict], init_state: dict, nb: int, rng) -> dict:
    drift = None
    with PoolWorld(nb, init_state["nRounds"], init_state["maxIdle"], reaper=init_state["rpc"] != "off",
                   closer=init_state["cpc"] != "off", rng=rng, nkeys=init_state["nKeys"]) as w:
        w.model_guided = True
        for i, b in enumerate(behaviour):
            try:
                ev = apply(w, b["action"], b["args"])
            except Exception as e:  # noqa: BLE001
                drift = {"step": i, "action": b["action"], "args": b["args"], "error": repr(e)}
                break
            exp = project(b["state"], nb)
            d = [k for k in exp if ev[k] != exp[k]]
            if ev["lab"] != _expected_label(b, nb):
                d.append("lab")
            if d:
                drift = {"step": i, "action": b["action"], "args": b["args"], "fields": d,
                         "observed": {k: ev.get(k) for k in d}, "expected": {k: exp.get(k, _expected_label(b, nb)) for k in d}}
                break
        out = {"header": w.header(), "trace": list(w.trace), "mon": list(w.mon), "drift": drift,
               "errors": {k: repr(v) for k, v in w.sched.errors.items()}, "outcome": dict(w.outcome)}
    return out


def run_random(rng, nb: int, rounds: int, max_idle: int, reaper: bool, closer: bool, max_clock: int = 2,
               deaths: int = 1, max_steps: int = 120, nkeys: int = 1) -> dict:
    with PoolWorld(nb, rounds, max_idle, reaper=reaper, closer=closer, rng=rng, nkeys=nkeys) as w:
        left = deaths
        for _ in range(max_steps):
            ops = w.enabled_ops(max_clock, left)
            live = [o for o in ops if o[0] in ("step_b",)]
            if not live and not any(o[0] == "step_c" for o in ops):
                break
            wts = [{"step_b": 6, "step_r": 2, "step_c": 1, "tick": 1, "die": 1}[o[0]] for o in ops]
            op = rng.choices(ops, wts)[0]
            if op[0] == "die":
                left -= 1
            getattr(w, op[0])(*op[1:])
        out = {"header": w.header(), "trace": list(w.trace), "mon": list(w.mon), "drift": None,
               "errors": {k: repr(v) for k, v in w.sched.errors.items()}, "outcome": dict(w.outcome)}
    return out


def calibrate() -> dict:
    """Which design does the pool under test follow?  Two scripted sequential runs, decided by behaviour."""
    out = {"Dev_MaxIdleZeroKeeps": True, "Dev_LastSessionOnly": True, "IntrMode": "keep"}
    try:
        with PoolWorld(1, 1, 0, reaper=False, closer=False) as w:
            ev = None
            for _ in range(6):
                ev = w.step_b(1, "clean")
            out["Dev_MaxIdleZeroKeeps"] = len(ev["idle"]) > 0
        with PoolWorld(1, 1, 1, reaper=False, closer=False) as w:
            ev = None
            for _ in range(6):
                ev = w.step_b(1, "nonlast")
            out["Dev_LastSessionOnly"] = len(ev["idle"]) > 0
        modes: dict[str, str] = {}
        for fn, _ps, es in SCRIPTS["intr"]:
            for exc in es:
                with PoolWorld(1, 2, 1, reaper=False, closer=False) as w:
                    for _ in range(4):
                        w.step_b(1)
                    w.step_b(1, "intr", fn.__name__, 1, exc)       # the script runs
                    ev = w.step_b(1)                                # the worker is returned (or not)
                    if not ev["idle"]:
                        modes[f"{fn.__name__}:{exc}"] = "discard"
                        continue
                    w.step_b(1)                                     # second round: the same borrower gets it again
                    w.step_b(1, "clean", "s_unary", 0, "none")
                    ok = [m["ok"] for m in w.mon if m["e"] == "Probe"]
                    modes[f"{fn.__name__}:{exc}"] = "drain" if ok and ok[-1] else "keep"
        seen = set(modes.values())
        out["IntrMode"] = "keep" if "keep" in seen else ("discard" if "discard" in seen else "drain")
        out["intr_modes"] = modes
    except Exception as e:  # noqa: BLE001
        out["error"] = repr(e)
    return out


# ------------------------------------------------------------------------------------------------ sequential tables
def run_table_inproc(cases: list[dict]) -> list[dict]:
    """PoolUse.tla cases on the real pool with fake worker processes (no scheduler: one borrower after the other)."""
    return [_table_case(c, inproc=True) for c in cases]


def run_table_subprocess(cases: list[dict]) -> list[dict]:
    """PoolUse.tla cases on the real pool with REAL subprocess workers (python -m drivers._conc2_poolsvc)."""
    return [_table_case(c, inproc=False) for c in cases]


def _table_case(c: dict, inproc: bool) -> dict:
    import os

    from vgi_rpc.pool import WorkerPool

    if inproc:
        wd = PoolWorld(0, 1, c["mi"], reaper=False, closer=False, shm_size=(1 << 20) if c.get("shm") else None)
        wd.__enter__()
        pool, cmd = wd.pool, CMD
    else:
        os.environ["PYTHONPATH"] = os.pathsep.join(p for p in sys.path if p)
        pool, cmd, wd = WorkerPool(max_idle=c["mi"], idle_timeout=60.0), worker_cmd(), None
    obs = {"first_ok": True, "reused": False, "probe_ok": True, "own_ok": True, "idle_after_first": 0, "idle_end": 0,
           "err": "", "second_alive": True}
    def guard(svc, seconds):
        """A real worker that never answers would block the borrower forever: kill it after a generous wait
        (a started worker answers an echo in milliseconds), the borrower then sees EOF instead of its answer."""
        tr = svc._transport._inner
        t = _real_threading.Timer(seconds, tr.proc.kill)
        t.daemon = True
        t.start()
        return t

    try:
        on_log, arm = make_on_log()
        pid1 = None
        try:
            with pool.connect(PoolSvc, cmd, on_log=on_log) as svc:
                g = guard(svc, 30.0)
                try:
                    svc.pid()                                  # (a real worker has started once this returns)
                    pid1 = svc._transport._inner.proc.pid
                    obs["first_ok"] = svc.echo(x=41) == 41
                    _, err = run_script(svc, c["script"], 7, c["pos"], arm, c.get("exc", "Exception"))
                    obs["err"] = err or ""
                finally:
                    g.cancel()
        except Boom:
            obs["err"] = "Boom"
        except Exception as e:  # noqa: BLE001
            obs["err"] = type(e).__name__
        obs["idle_after_first"] = pool.idle_count
        try:
            with pool.connect(PoolSvc, cmd) as svc:
                tr = svc._transport._inner
                obs["second_alive"] = tr.proc.poll() is None
                g = guard(svc, 15.0)
                try:
                    a = svc.echo(x=7001)
                    obs["probe_ok"] = a == 7001
                except Exception:  # noqa: BLE001
                    obs["probe_ok"] = False
                finally:
                    g.cancel()
                if obs["probe_ok"]:
                    try:
                        obs["own_ok"] = svc.echo(x=7002) == 7002 and [b.batch.column("v")[0].as_py() for b in svc.count(tag=9, n=2, logs=0)] == [9000, 9001]
                        obs["reused"] = tr.proc.pid == pid1
                    except Exception as e:  # noqa: BLE001
                        obs["own_ok"] = False
                        obs["err"] += f"|own:{type(e).__name__}:{str(e)[:80]}"
                else:
                    obs["reused"] = tr.proc.pid == pid1
        except Exception as e:  # noqa: BLE001
            obs["probe_ok"] = False
            obs["err"] += "|second:" + type(e).__name__
        obs["idle_end"] = pool.idle_count
    finally:
        if wd is not None:
            wd.__exit__(None, None, None)
        else:
            pool.close()
    return obs


if __name__ == "__main__":        # level 2 runs in its own process: python -m drivers._conc2_pool <cases.json> <out.json>
    import json

    cases = json.load(open(sys.argv[1]))
    out = run_table_subprocess(cases)
    json.dump(out, open(sys.argv[2], "w"))
