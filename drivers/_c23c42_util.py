"""Shared helpers for the schedule properties C23 (NonceCache) and C42 (serve-start hook).

* ``patched(module, attr, value)``         -- install a shim as a module attribute, restore afterwards
* ``judge_traces(...)``                    -- batch trace validation by TLC (conformance ACCEPT/REJECT per trace via
                                              the register idiom + ``JudgeInv`` JSON lines for property clauses)
* ``explore(run_one, ...)``                -- stateless DFS over *real* schedules (every choice of runnable thread at
                                              every park point, optional preemption bound)
* ``parallel_tlc(jobs)``                   -- run several small TLC jobs side by side

Nothing here decides a property clause: clauses are evaluated by TLC (model invariants / Judge operators).
"""
from __future__ import annotations

import contextlib
import json
import re
import shutil
import tempfile
from concurrent.futures import ThreadPoolExecutor
from pathlib import Path

from vf.tlc import MachineryError, TlcResult, render_cfg, run_tlc


@contextlib.contextmanager
def patched(module, attr: str, value):
    orig = getattr(module, attr)
    setattr(module, attr, value)
    try:
        yield
    finally:
        setattr(module, attr, orig)


def parallel_tlc(jobs: list, max_par: int = 4) -> list[TlcResult]:
    """jobs = [callable returning TlcResult]; results in the same order (exceptions propagate)."""
    if len(jobs) <= 1:
        return [j() for j in jobs]
    with ThreadPoolExecutor(max_workers=max_par) as ex:
        futs = [ex.submit(j) for j in jobs]
        return [f.result() for f in futs]


_ACC = re.compile(r'<<"ACCEPT", (\d+)>>')
_REJ = re.compile(r'<<"REJECT", (\d+), "matched", (-?\d+)>>')


def judge_traces(ctx, stage_dir: Path, module: str, traces: list[list[dict]], constants: dict, *,
                 invariants=(), name: str, chunk: int = 8000, timeout: int = 900):
    """TLC judges recorded traces.

    Returns (verdicts, bad, inv_hits):
      verdicts[i] = None if trace i conforms to the model, else the number of events matched before the model
                    could not follow (drift),
      bad[i]      = list of property-clause names that Judge(trace i) found false (absent = none),
      inv_hits    = [(clause, counterexample)] if a *model* invariant failed on a conforming prefix.
    Each chunk runs in a private copy of the staged spec directory so chunks may run concurrently.
    """
    verdicts: list = [None] * len(traces)
    bad: dict[int, list[str]] = {}
    inv_hits: list = []
    if not traces:
        return verdicts, bad, inv_hits
    cfg = render_cfg(init_next=("TraceInit", "TraceNext"), constants=constants,
                     invariants=list(invariants) + ["JudgeInv"], constraint=["Constr"], postcondition="Accepted")

    def one(off: int):
        part = traces[off:off + chunk]
        d = Path(tempfile.mkdtemp(prefix="tr-", dir=stage_dir))
        for f in stage_dir.glob("*.tla"):
            shutil.copy(f, d / f.name)
        tf = d / "traces.json"
        tf.write_text(json.dumps(part))
        r = run_tlc(d, module, cfg, workers=1, timeout=timeout, env={"TRACE_FILE": str(tf)},
                    cfg_name=f"{module}_{name}.cfg")
        shutil.rmtree(d, ignore_errors=True)
        return off, part, r

    offs = list(range(0, len(traces), chunk))
    with ThreadPoolExecutor(max_workers=3) as ex:
        results = list(ex.map(one, offs))
    for off, part, r in results:
        ctx.add_tlc(f"{module}:{name}[{off}:{off + len(part)}]", r)
        if r.violated and r.violated != "JudgeInv":
            inv_hits.append((r.violated, r.counterexample))
        elif not r.ok:
            raise MachineryError(f"{module} trace judgement failed: {r.error}\n{r.out[-3000:]}")
        seen = set()
        for m in _ACC.finditer(r.out):
            seen.add(int(m.group(1)))
        for m in _REJ.finditer(r.out):
            i = int(m.group(1))
            seen.add(i)
            verdicts[off + i - 1] = max(int(m.group(2)), 0)
        if not r.violated and len(seen) != len(part):
            raise MachineryError(f"{module}: verdicts for {len(seen)} of {len(part)} traces\n{r.out[-2000:]}")
        for j in r.json_lines:
            bad[off + j["tid"] - 1] = sorted(j["bad"])
    return verdicts, bad, inv_hits


def explore(run_one, *, limit: int, preemption_bound: int | None = None):
    """Stateless DFS over real schedules.

    run_one(prefix) executes the real code once: it follows the option *names* in ``prefix`` at the first
    len(prefix) decision points and the default option (index 0) afterwards, and returns
    (result, decisions) with decisions = [(options, chosen_name, preempting: set of names, emitted: bool)] for
    every decision point it went through.  `preempting` are the options that would preempt a still-enabled
    running thread; `emitted` says whether the chosen step recorded an event.
    Sleep-set style pruning for the environment action "Tick": a Tick commutes with every thread step that
    records no event (the clock is only visible in recorded events), so "Tick right after a silent step" is not
    explored when "Tick instead of that step" is.
    Yields every result; returns when the space (under the bound) is exhausted or `limit` executions ran.
    """
    stack: list[tuple[list[str], int]] = [([], 0)]
    n = 0
    complete = True
    out = []
    while stack:
        if n >= limit:
            complete = False
            break
        prefix, used = stack.pop()
        res, decisions = run_one(prefix)
        n += 1
        out.append(res)
        chosen = [d[1] for d in decisions]
        pre_used = used
        # preemptions spent inside the prefix are carried in `used`; count those after it while walking
        for k in range(len(prefix), len(decisions)):
            opts, ch, preempting = decisions[k][:3]
            for alt in opts:
                if alt == ch:
                    continue
                if alt == "Tick" and k > 0:
                    po, pch, _, pem = decisions[k - 1]
                    if pch != "Tick" and not pem and "Tick" in po:
                        continue
                cost = pre_used + (1 if alt in preempting else 0)
                if preemption_bound is not None and cost > preemption_bound:
                    continue
                stack.append((chosen[:k] + [alt], cost))
            if ch in preempting:
                pre_used += 1
    return out, complete, n
