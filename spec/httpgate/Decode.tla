---------------------------------- MODULE Decode ----------------------------------
(* C17 -- request size caps and content decoding, as a decision table.

   A request is abstracted to

     cap       "none" | "set"                     is max_request_bytes configured
     codec     "none" (no Content-Encoding) | "zstd" | "gzip" | "identity" | "unknown" (a token the server does not
               know, or a list of tokens) | "disabled" (zstd on a server whose zstd support is switched off)
     enc       wire size of the body vs the cap:      "lt" | "eq" | "gt" | "na" (no cap)
     dec       decoded size vs the cap:               "lt" | "eq" | "gt" | "bomb" (orders of magnitude above) | "na"
     decl      what the frame says about its decoded size:
               "honest" | "absent" (size-less streaming frame) | "low" (declares less than it holds, and at most the
               cap) | "high_in" (declares more than it holds, within the cap) | "high_over" (declares more than the
               cap) | "na";  for gzip the declaration is the ISIZE trailer ("honest" | "low" | "high_in")
     integ     "ok" | "corrupt" (damaged magic, garbage, or a failing content checksum / CRC32) | "truncated"
     frames    "one" | "many" (the body is several zstd frames / gzip members; its decoding is the concatenation,
               RFC 8878 3.1 / RFC 1952 2.2; sizes are those of the whole body)
     transfer  "cl" (Content-Length) | "chunked" (Transfer-Encoding: chunked through a real HTTP server)
     srv       how the server was configured (make_wsgi_app), beyond having a cap or not:
               "default" (compression_level left at its default: zstd + gzip produced and decoded)
               | "none" (compression_level=None: responses are never compressed, requests are STILL decoded -- the
               documented "decode-only" server) | "l22" (an explicit non-default zstd level)
               | "nozstd" (VGI_HTTP_DISABLE_ZSTD=1: zstd neither produced nor decoded; the only server on which the
               codec class "disabled" exists)
               The statement quantifies over configurations: cap enforcement, decoding and the 415 / 400 / 413
               mapping do not depend on whether or how strongly the server compresses its RESPONSES
               (ServerConfigIrrelevant).
     route     the RPC route the body is posted to: "unary" | "init" | "exchange" | "upload" (/__upload_url__/init)
     mname     the method name in the URL: "plain" | "health_prefixed" (begins with the name of the cap-exempt health
               endpoint, e.g. /health_check, /healthz/init) | "health" (a stream method literally named health, so
               that its routes /health/init and /health/exchange lie *under* the exempt endpoint's path)
   The statement speaks of "any request body": neither the route nor the method name changes the outcome
   (RouteIrrelevant).

   Faults and the status the statement attaches to each:
       wire size above the cap                          413
       unknown or disabled coding                       415
       decoded size above the cap                       413
       undecodable body (damaged, truncated, or a frame whose size declaration is false)   400
   A request without fault must reach the RPC layer with exactly the client's uncompressed bytes.  With several
   faults the statement gives no precedence: any of their statuses is admissible (set-valued oracle, DESIGN 7a).
   Outcomes are read off the HTTP status: "400" | "413" | "415", and "pass" = 200 with the RPC layer having been
   handed exactly the client's uncompressed bytes.  (A refused body may still have been looked at by the RPC layer:
   the statement fixes the status, not the layer that produces it.)
   Deliberately generous rows (a false alarm is worse than a miss):
     * a frame that declares more than the cap may be refused with 413 on the declaration alone (the documented
       frame-size precheck), whatever it really holds;
     * a frame whose only fault is a false size declaration, or a truncation, and whose real content fits the cap,
       may also be decoded leniently and passed on -- but then only with the client's bytes intact ("pass"):
       whether such a frame is "undecodable" depends on the decoder; delivering *other* bytes with 200 never is.
   In every case the server must not materialise more than cap + Chunk decoded bytes.                        *)
EXTENDS Naturals, Sequences, FiniteSets

CONSTANTS Chunk,        \* the bounded chunk of the statement, in bytes (65536)
          Slack         \* allowance, in bytes, for the coarse whole-request allocation bound (tracemalloc)

Caps == {"none", "set"}
Codecs == {"none", "zstd", "gzip", "identity", "unknown", "disabled"}
Compressed == {"zstd", "gzip"}
Lying == {"low", "high_in", "high_over"}

Valid(c) ==
  /\ (c.cap = "none") <=> (c.enc = "na")
  /\ c.codec \in {"unknown", "disabled"} => c.dec = "na" /\ c.decl = "na" /\ c.integ = "ok"
  /\ c.codec \in {"none", "identity"} => /\ c.decl = "na" /\ c.integ = "ok"
                                         /\ c.dec = c.enc                 \* decoded = wire
  /\ c.codec \in Compressed =>
       /\ c.decl # "na"
       /\ (c.cap = "none") <=> (c.dec = "na")
       /\ c.codec = "gzip" => c.decl \in {"honest", "low", "high_in"}
       /\ c.decl = "high_over" => c.cap = "set"
       /\ c.decl = "high_in" => c.dec \in {"lt", "na"}          \* room between the real size and the cap
       /\ c.integ # "ok" => c.decl \in {"honest", "absent"} /\ c.dec \in {"lt", "bomb", "na"}
       /\ c.frames = "many" => c.integ = "ok" /\ c.decl \in {"honest", "absent"}
  /\ c.codec \notin Compressed => c.frames = "one"
  /\ c.codec = "disabled" => c.srv = "nozstd"
  /\ c.srv = "nozstd" => c.codec # "zstd"           \* there a zstd body IS the codec class "disabled"
  \* the non-default server configurations are crossed with every size / declaration / integrity class on the plain
  \* unary route with Content-Length framing
  /\ (c.srv # "default" /\ c.codec # "disabled") =>
        c.route = "unary" /\ c.mname = "plain" /\ c.transfer = "cl" /\ c.frames = "one"
  /\ c.mname = "health" => c.route \in {"init", "exchange"}
  /\ c.route = "upload" => c.mname = "plain"
  \* the framing detail (transfer, frame count, damage, lying declarations, bombs) is crossed with the unary route;
  \* the other routes / names get the size and codec classes
  /\ (c.route # "unary" \/ c.mname # "plain") =>
        c.transfer = "cl" /\ c.frames = "one" /\ c.integ = "ok" /\ c.decl \in {"honest", "absent", "na"} /\ c.dec # "bomb"

Space == [cap : Caps, codec : Codecs, enc : {"lt", "eq", "gt", "na"}, dec : {"lt", "eq", "gt", "bomb", "na"},
          decl : {"honest", "absent", "low", "high_in", "high_over", "na"},
          integ : {"ok", "corrupt", "truncated"}, frames : {"one", "many"}, transfer : {"cl", "chunked"},
          route : {"unary", "init", "exchange", "upload"}, mname : {"plain", "health_prefixed", "health"},
          srv : {"default", "none", "l22", "nozstd"}]
\* split for TLC's workers
Seeds == {[cap |-> k, codec |-> d, enc |-> "na", dec |-> "na", decl |-> "na", integ |-> "ok", frames |-> "one",
           transfer |-> "cl", route |-> r, mname |-> "plain", srv |-> "default"] :
            k \in Caps, d \in Codecs, r \in {"unary", "init", "exchange", "upload"}}
Expand(p) == LET One(x) == {x}
                 Sub == [cap : One(p.cap), codec : One(p.codec), route : One(p.route), enc : {"lt", "eq", "gt", "na"},
                         dec : {"lt", "eq", "gt", "bomb", "na"},
                         decl : {"honest", "absent", "low", "high_in", "high_over", "na"},
                         integ : {"ok", "corrupt", "truncated"}, frames : {"one", "many"},
                         transfer : {"cl", "chunked"}, mname : {"plain", "health_prefixed", "health"},
                         srv : {"default", "none", "l22", "nozstd"}]
             IN {c \in Sub : Valid(c)}
Cases == UNION {Expand(p) : p \in Seeds}

\* ---------------------------------------------------------------- the table
Faults(c) ==
       {"wire"        : x \in {1} \cap (IF c.enc = "gt" THEN {1} ELSE {})}
  \cup {"coding"      : x \in {1} \cap (IF c.codec \in {"unknown", "disabled"} THEN {1} ELSE {})}
  \cup {"decoded"     : x \in {1} \cap (IF c.codec \in Compressed /\ c.dec \in {"gt", "bomb"} THEN {1} ELSE {})}
  \cup {"undecodable" : x \in {1} \cap (IF c.integ # "ok" \/ c.decl \in Lying THEN {1} ELSE {})}
  \cup {"declared"    : x \in {1} \cap (IF c.decl = "high_over" THEN {1} ELSE {})}

StatusOf(f) == CASE f = "wire" -> "413" [] f = "coding" -> "415" [] f = "decoded" -> "413"
                 [] f = "undecodable" -> "400" [] f = "declared" -> "413"

LenientPass(c) == /\ Faults(c) # {} /\ Faults(c) \subseteq {"undecodable", "declared"}
                  /\ c.integ \in {"ok", "truncated"} /\ c.dec \in {"lt", "eq", "na"}

Admissible(c) ==
  IF Faults(c) = {} THEN {"pass"}
  ELSE {StatusOf(f) : f \in Faults(c)} \cup (IF LenientPass(c) THEN {"pass"} ELSE {})

\* JSON-friendly oracle: admissible outcomes as a sorted sequence of flags
Expected(c) == [pass |-> "pass" \in Admissible(c), s400 |-> "400" \in Admissible(c),
                s413 |-> "413" \in Admissible(c), s415 |-> "415" \in Admissible(c),
                single |-> Cardinality(Faults(c)) <= 1]

\* ---------------------------------------------------------------- table sanity (TLC, every case)
NeverEmpty(c) == Admissible(c) # {}
OnlyClientErrors(c) == Admissible(c) \subseteq {"pass", "400", "413", "415"}      \* no 5xx row
CleanBodiesPass(c) == (Faults(c) = {}) <=> (Admissible(c) = {"pass"})
OversizeNeverPasses(c) == (c.enc = "gt" \/ c.dec \in {"gt", "bomb"}) => "pass" \notin Admissible(c)
UnknownNeverPasses(c) == c.codec \in {"unknown", "disabled"} => "pass" \notin Admissible(c)
DamagedNeverPasses(c) == c.integ = "corrupt" => "pass" \notin Admissible(c)
ManyFramesLikeOne(c) == Admissible(c) = Admissible([c EXCEPT !.frames = "one"])
NoCapNo413(c) == c.cap = "none" => "413" \notin Admissible(c)
IdentityIsTransparent(c) ==      \* identity behaves exactly like no Content-Encoding at all
  c.codec = "identity" => Admissible(c) = Admissible([c EXCEPT !.codec = "none"])
SingleFaultExact(c) == Cardinality(Faults(c)) = 1 /\ ~LenientPass(c) => Cardinality(Admissible(c)) = 1
TransferIrrelevant(c) == Admissible(c) = Admissible([c EXCEPT !.transfer = "cl"])
ServerConfigIrrelevant(c) ==     \* response-compression settings never change what happens to a request body
  c.codec # "disabled" => Admissible(c) = Admissible([c EXCEPT !.srv = "default"])
RouteIrrelevant(c) == Admissible(c) = Admissible([c EXCEPT !.route = "unary", !.mname = "plain"])

\* ---------------------------------------------------------------- judging what the real code did
(* observation o = [status, reached, equal, capv, produced, peak]
     status    HTTP status; 0 = the server produced no response at all (request never returned)
     reached   the RPC layer was handed a request body
     equal     ... and it was byte-for-byte the client's uncompressed request
     capv      the concrete max_request_bytes (0 when none)
     produced  bytes emitted by the decompressor objects while serving the request
     peak      peak traced allocation during the request in bytes, 0 when not measured                       *)
Outcome(o) == CASE o.status = 200 -> (IF o.reached /\ o.equal THEN "pass" ELSE "200-with-other-bytes")
                [] o.status = 400 -> "400" [] o.status = 413 -> "413" [] o.status = 415 -> "415"
                [] OTHER -> "other"
Conforms(c, o) ==
       {"Outcome"          : x \in {1} \cap (IF Outcome(o) \in Admissible(c) THEN {} ELSE {1})}
  \cup {"ByteForByte"      : x \in {1} \cap (IF (Faults(c) = {} \/ o.status = 200) => (o.reached /\ o.equal)
                                             THEN {} ELSE {1})}
  \cup {"Responds"         : x \in {1} \cap (IF o.status # 0 THEN {} ELSE {1})}
  \cup {"No5xx"            : x \in {1} \cap (IF o.status < 500 THEN {} ELSE {1})}
  \cup {"BoundedDecode"    : x \in {1} \cap (IF c.cap = "set" => o.produced <= o.capv + Chunk THEN {} ELSE {1})}
  \cup {"BoundedAllocation": x \in {1} \cap (IF (c.cap = "set" /\ o.peak > 0) => o.peak <= o.capv + Chunk + Slack
                                             THEN {} ELSE {1})}
=====================================================================================
