"""Shared harness for the HTTP authentication family (C20, C21, C24).

Builds real services (RpcServer + make_wsgi_app via make_sync_client) whose every piece of *service code*
(implementation methods, stream state callbacks, upload-URL provider, token resolver) appends to one
invocation log, plus header-driven stub authenticators / gates that log every consultation.  Nothing here
decides a property clause: it only drives the real code and records what happened.

Not using `from __future__ import annotations` on purpose (type hints of the generated Protocols are
resolved against this module's globals).
"""
import logging
import warnings
from dataclasses import dataclass
from datetime import datetime, timezone
from typing import Protocol  # noqa: F401  (used by generated source)

import pyarrow as pa

from vgi_rpc.external import UploadUrl
from vgi_rpc.http import http_connect
from vgi_rpc.http._testing import make_sync_client
from vgi_rpc.rpc import (  # noqa: F401
    AnnotatedBatch,
    AuthContext,
    CallContext,
    ExchangeState,
    OutputCollector,
    ProducerState,
    RpcServer,
    Stream,
)

from vf import world

KEY = b"k" * 32
SCH = pa.schema([pa.field("v", pa.int64())])
EMPTY = pa.schema([])
LOG: list = []          # service-code / authenticator invocation log (strings)
SEEN: list = []         # AuthContext snapshots taken inside service code


def quiet() -> None:
    warnings.filterwarnings("ignore")
    logging.disable(logging.CRITICAL)


def reset() -> None:
    del LOG[:]
    del SEEN[:]


def snap(ctx, where: str) -> None:
    a = ctx.auth
    gate = None
    try:
        g = a.claims.get("vgi_proxy_proof") if a.claims is not None else None
        if g is not None:
            gate = dict(g)
    except Exception:  # noqa: BLE001
        gate = {"unreadable": True}
    SEEN.append({"where": where, "authenticated": a.authenticated, "domain": a.domain, "principal": a.principal,
                 "claim_keys": sorted(str(k) for k in (a.claims or {})), "gate": gate})


@dataclass
class PS(ProducerState):
    n: int = 0

    def produce(self, out: OutputCollector, ctx: CallContext) -> None:
        LOG.append("svc:produce")
        snap(ctx, "produce")
        if self.n >= 2:
            out.finish()
            return
        self.n += 1
        out.emit_pydict({"v": [self.n]})


@dataclass
class ES(ExchangeState):
    n: int = 0

    def exchange(self, input: AnnotatedBatch, out: OutputCollector, ctx: CallContext) -> None:
        LOG.append("svc:exchange")
        snap(ctx, "exchange")
        out.emit_pydict({"v": [1]})


_TEMPLATES = {
    "unary": ("    def {n}(self, x: int) -> int: ...\n",
              "    def {n}(self, x: int, ctx: CallContext) -> int:\n        LOG.append('svc:{n}'); snap(ctx, '{n}'); return x + 1\n"),
    "producer": ("    def {n}(self) -> Stream[ProducerState]: ...\n",
                 "    def {n}(self, ctx: CallContext) -> Stream[PS]:\n        LOG.append('svc:{n}'); snap(ctx, '{n}')\n"
                 "        return Stream(output_schema=SCH, state=PS())\n"),
    "exchange": ("    def {n}(self) -> Stream[ExchangeState]: ...\n",
                 "    def {n}(self, ctx: CallContext) -> Stream[ES]:\n        LOG.append('svc:{n}'); snap(ctx, '{n}')\n"
                 "        return Stream(output_schema=SCH, state=ES(), input_schema=SCH)\n"),
}
_counter = [0]


def build_service(kinds: dict):
    """kinds: {method name: 'unary'|'producer'|'exchange'} -> (RpcServer, Protocol class)."""
    _counter[0] += 1
    tag = _counter[0]
    src_p = f"class Svc{tag}(Protocol):\n"
    src_i = f"class Impl{tag}:\n"
    for n, k in sorted(kinds.items()):
        p, i = _TEMPLATES[k]
        src_p += p.format(n=n)
        src_i += i.format(n=n)
    ns = globals()
    exec(src_p + "\n" + src_i, ns)  # noqa: S102 - generated from a fixed template and identifier names
    proto, impl = ns[f"Svc{tag}"], ns[f"Impl{tag}"]
    return RpcServer(proto, impl(), enable_describe=True), proto


class UploadProvider:
    def generate_upload_url(self, schema):
        LOG.append("svc:upload_url")
        return UploadUrl("http://127.0.0.1:1/up", "http://127.0.0.1:1/down", datetime.now(timezone.utc))


def token_resolver(token: str):
    from vgi_rpc.http.server._introspect import TokenIdentity

    LOG.append("svc:introspect_resolver")
    return TokenIdentity(principal="bob")


class Recorder:
    """Wraps a _SyncTestClient and records every POST (path, body, headers) the real client makes."""

    def __init__(self, client) -> None:
        self._c = client
        self.prefix = client.prefix
        self.posts: list = []

    def post(self, url, *, content, headers):
        r = self._c.post(url, content=content, headers=headers)
        self.posts.append((url, bytes(content), dict(headers), r.status_code))
        return r

    def __getattr__(self, k):
        return getattr(self._c, k)


def record_exchange(proto, client, name: str, kind: str):
    """Use the real client against `client` to open stream `name` and make one continuation request;
    returns (body, headers) of the recorded POST .../exchange (carries a real state token)."""
    rec = Recorder(client)
    with http_connect(proto, client=rec) as proxy:
        s = getattr(proxy, name)()
        if kind == "exchange":
            s.exchange(AnnotatedBatch.from_pydict({"v": [1]}, schema=SCH))
            s.close()
        else:
            for _ in s:
                pass
    for url, body, hdrs, _st in rec.posts:
        if url.endswith("/exchange"):
            return body, hdrs
    return None


def unary_body(server, name: str) -> bytes:
    return world.raw_request(name.encode(), server.methods[name].params_schema, {"x": 1})


def init_body(name: str) -> bytes:
    return world.raw_request(name.encode(), EMPTY, {})


def upload_body() -> bytes:
    return world.raw_request(b"__upload_url__", pa.schema([pa.field("count", pa.int64())]), {"count": 1})


def request(client, verb: str, path: str, body: bytes | None, headers: dict):
    """Any verb through the falcon test client; returns (status, headers(lowercased), content)."""
    tc = client._client
    kw = {"headers": headers}
    if body is not None:
        kw["body"] = body
    r = tc.simulate_request(verb, path, **kw)
    return r.status_code, {k.lower(): v for k, v in r.headers.items()}, r.content


def ran_service(log=None) -> bool:
    return any(x.startswith("svc:") for x in (LOG if log is None else log))


def describe_served(status: int, hdrs: dict, content: bytes) -> bool:
    """__describe__ answered with a real (non-error) describe stream."""
    if status != 200 or not hdrs.get("content-type", "").startswith(world.ARROW_CT):
        return False
    ss = world.read_streams(content)
    return bool(ss and ss[0]["batches"] and world.error_of(ss[0]) is None)
