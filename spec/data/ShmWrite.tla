--------------------------------- MODULE ShmWrite ---------------------------------
(* C28, second clause -- "a batch written into shared memory never extends beyond its own allocation,
   so writing one batch never alters another live batch".

   The model of ShmSegment.allocate_and_write is one step  Write(alloc, actualLen)  whose enabling
   condition is  actualLen <= alloc.len ; the size the implementation *requests* for a batch is Arrow
   arithmetic that TLA+ does not reproduce -- it is observed.  What the specification contributes here is
   the complete list of (schema shape x row count x placement) classes to execute and the judgement of
   every observation.                                                                                    *)
EXTENDS Naturals, Sequences, FiniteSets

Shapes == {"narrow", "strings", "nested_struct", "all_null",
           "wide_10", "wide_64", "wide_100", "wide_1000", "long_names",
           "schema_meta_100", "schema_meta_3k", "schema_meta_5k", "schema_meta_100k", "field_meta_10k",
           "dict_top", "dict_top_wide", "dict_nested_list", "dict_nested_struct", "big_data"}
Rows == {"zero", "one", "many"}
\* between: the allocation lies between two live batches; last: free (canary-filled) space follows it;
\* tail: the allocation ends exactly at the end of the segment
Places == {"between", "last", "tail"}

Cases == {[shape |-> s, rows |-> r, place |-> p] : s \in Shapes, r \in Rows, p \in Places}
\* the write either stays inside its allocation or does not happen (no fit -> None)
Expected(c) == "within"

\* model step: enabled iff the bytes written fit the allocation
WriteEnabled(allocLen, actualLen) == actualLen <= allocLen

\* table sanity: every class is a distinct, well-formed record
WellFormed(c) == c.shape \in Shapes /\ c.rows \in Rows /\ c.place \in Places

(* observation o = [result, alloc_len, written, left_ok, right_ok, outside_ok]
     result      "written" | "nofit" (returned None) | "raised" (an exception escaped)
     alloc_len   length of the header-table entry at the returned offset (0 if none)
     written     the bytes_written the implementation reported
     left_ok / right_ok   the live neighbour batches decode to their originals and their bytes are unchanged
     outside_ok  every byte of the data region outside the batch's own allocation is unchanged           *)
Conforms(c, o) ==
       (IF o.result = "written" => WriteEnabled(o.alloc_len, o.written) THEN {} ELSE {"WriteWithinAllocation"})
  \cup (IF o.left_ok /\ o.right_ok THEN {} ELSE {"NeighboursIntact"})
  \cup (IF o.outside_ok THEN {} ELSE {"OutsideUntouched"})
=====================================================================================
