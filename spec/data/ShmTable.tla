--------------------------------- MODULE ShmTable ---------------------------------
(* C28 -- constant-level vocabulary of the shared-memory allocation table.

   A table is a sequence of entries [off, len] (offsets relative to the start of the data region,
   0 .. D-1; the real header stores HEADER_SIZE + off).  This module has no variables: it defines the
   property clauses on table *values* so that the same definitions are used
     - as invariants of the state machine ShmAlloc (on the model's own table),
     - by ShmAllocTrace (faithful trace validation), and
     - by Conforms(c, o), which names the clause a recorded real trace violates.                          *)
EXTENDS Integers, Sequences, FiniteSets

CONSTANTS D,          \* size of the data region
          MaxAllocs   \* capacity of the header table (4094 in the shipped layout)

End(e) == e.off + e.len
Idx(t) == 1..Len(t)
Live(t) == {t[i] : i \in Idx(t)}

\* ------------------------------------------------------------------ property clauses on a table value
SortedT(t)   == \A i \in Idx(t), j \in Idx(t) : i < j => t[i].off < t[j].off
DisjointT(t) == \A i \in Idx(t), j \in Idx(t) : i < j => (End(t[i]) <= t[j].off \/ End(t[j]) <= t[i].off)
InRegionT(t) == \A i \in Idx(t) : t[i].off >= 0 /\ t[i].len >= 1 /\ End(t[i]) <= D
BoundedT(t)  == Len(t) <= MaxAllocs
FullT(t)     == Len(t) >= MaxAllocs

\* the same two clauses stated on the *cells* an entry occupies (used only at small D, to check that the
\* interval arithmetic above says what "overlap" means)
Cells(e) == e.off .. (End(e) - 1)
DisjointCells(t) == \A i \in Idx(t), j \in Idx(t) : i # j => Cells(t[i]) \cap Cells(t[j]) = {}

\* ------------------------------------------------------------------ "a gap large enough"
\* region [o, o+n) is free in t
FreeT(t, o, n) == /\ o >= 0 /\ n >= 1 /\ o + n <= D
                  /\ \A i \in Idx(t) : End(t[i]) <= o \/ o + n <= t[i].off
\* definitional (cell level, small D only): some offset at which n units are free
FitsCells(t, n) == {o \in 0..(D - 1) : o + n <= D /\ \A e \in Live(t) : Cells(e) \cap (o..(o + n - 1)) = {}}
\* left-justified characterisation: if a gap exists, one starts at 0 or right after some entry
Starts(t) == {0} \cup {End(t[i]) : i \in Idx(t)}
HasGapT(t, n) == \E o \in Starts(t) : FreeT(t, o, n)
\* for sorted, disjoint tables the gaps are exactly the spaces between neighbours (what the code scans)
GapLo(t, i) == IF i = 1 THEN 0 ELSE End(t[i - 1])            \* i in 1..Len(t)+1
GapHi(t, i) == IF i = Len(t) + 1 THEN D ELSE t[i].off
HasGapSorted(t, n) == \E i \in 1..(Len(t) + 1) : GapHi(t, i) - GapLo(t, i) >= n
HasGap(t, n) == IF SortedT(t) /\ DisjointT(t) THEN HasGapSorted(t, n) ELSE HasGapT(t, n)

\* ------------------------------------------------------------------ judging a recorded real trace
(* observation o = [init |-> table, evs |-> << [op, n, ret, tbl] ... >>]
     op  "alloc": n = requested size, ret = returned offset, -1 = returned None, -2 = raised
         "free" : n = offset freed,   ret = 0 ok, -2 = raised
     tbl the real header table read back after the operation
   Clauses (names are what the driver reports):
     Sorted / Disjoint / InRegion / Bounded   the statement's table invariants, on every table seen
     Completeness    an allocation failed although a gap >= n existed and the table was not full
     AllocRecorded   a successful allocation is not the entry [ret, n] in the table, or was placed on
                     space that was not free
     LiveKept        an operation lost or changed an allocation it was not asked to free
     FreeExact       free(off) of a live offset did not remove exactly that entry
     ResetClears     reset() (= free of every allocated offset) left entries in the table                 *)
TableBad(t) ==   (IF SortedT(t)   THEN {} ELSE {"Sorted"})
            \cup (IF DisjointT(t) THEN {} ELSE {"Disjoint"})
            \cup (IF InRegionT(t) THEN {} ELSE {"InRegion"})
            \cup (IF BoundedT(t)  THEN {} ELSE {"Bounded"})

Pre(o, k) == IF k = 1 THEN o.init ELSE o.evs[k - 1].tbl
StepBad(o, k) ==
  LET ev == o.evs[k]   pre == Pre(o, k)   post == ev.tbl IN
  TableBad(post) \cup
  (IF ev.op = "alloc" THEN
        (IF ev.ret < 0
           THEN (IF ~FullT(pre) /\ HasGap(pre, ev.n) THEN {"Completeness"} ELSE {})
           ELSE (IF [off |-> ev.ret, len |-> ev.n] \in Live(post) /\ FreeT(pre, ev.ret, ev.n)
                   THEN {} ELSE {"AllocRecorded"}))
        \cup (IF Live(pre) \subseteq Live(post) THEN {} ELSE {"LiveKept"})
   ELSE IF ev.op = "reset" THEN (IF ev.ret = 0 /\ post = <<>> THEN {} ELSE {"ResetClears"})
   ELSE IF ev.n \notin {e.off : e \in Live(pre)} THEN {}      \* not a free of an allocated offset: outside the statement
   ELSE (IF ev.ret = 0 /\ Live(post) = {e \in Live(pre) : e.off # ev.n} /\ Len(post) = Len(pre) - 1
           THEN {} ELSE {"FreeExact"}))

Cases == {[kind |-> "trace"]}
Expected(c) == "conforms"
Conforms(c, o) == TableBad(o.init) \cup UNION {StepBad(o, k) : k \in 1..Len(o.evs)}
=====================================================================================
