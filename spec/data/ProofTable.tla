-------------------------------- MODULE ProofTable --------------------------------
(* C22 -- proxy-proof verification as a total function: docs/proxy-proof-spec.md section 6, transcribed once.

   A case describes ONE presented VGI-Proxy-Proof header by the *field-level faults* it carries, together with
   the clock relation, the key map relation and the nonce history.  Every combination of faults is a case, so
   every order in which several steps could fail simultaneously is covered; the outcome of a case is the reason
   code of the FIRST failing step of the nine-step table (or "ok").

     hdr    "absent" | "empty" | "present"        header instance missing / present with empty value / present
     multi  more than one header instance (WSGI joins them with ", ")
     long   header value longer than 512 bytes
     nf     "4" | "5" | "6"     number of dot-separated fields (a field dropped or merged / a field added)
     ver    field 0 is the literal v1
     kidcs, tscs, noncs, maccs   the field matches its section-3 charset *and length*
     kid    "k1" | "k2" (both configured: rotation overlap, same label, different secrets) | "unk"
     age    now - ts relative to skew:  "gtP" = skew+1   "eqP" = skew   "ltP" = skew-1   "zero" = 0
                                          "ltN" = -(skew-1) "eqN" = -skew  "gtN" = -(skew+1)
     mac    "ok"      HMAC over the canonical string with the secret configured for the claimed kid
            "key"     computed with another configured/unconfigured secret (kid and signing secret disagree)
            "origin"  computed for another worker's origin_id
            "tamper"  token edited after minting (mac / ts / nonce / kid differ from what was MACed)
            "frame"   computed over an incorrectly framed canonical string
            "noncanon" the correct 32 bytes, but encoded with non-zero trailing bits in the last base64url
                       character (43 chars carry 258 bits).  The table does not say whether "matches" compares
                       bytes or text, decoders differ -> the oracle is SET-VALUED here ({ok, bad_mac}).
     nonce  "fresh"     never presented
            "seen_in"   accepted earlier, skew-1 cache-clock seconds ago          (inside the window)
            "seen_edge" accepted earlier, exactly skew seconds ago                (boundary: SET-VALUED)
            "seen_out"  accepted earlier, skew+1 seconds ago                      (window over -> fresh)
            "seen_rej"  presented earlier in a proof that was *rejected*          (never accepted -> fresh)
            "seen_xkid" accepted earlier, just now, under the OTHER configured kid (the table's step 9 speaks of the
                        nonce, not of (kid, nonce): a replay through a second proxy identity is still a replay)

   Window rule (DESIGN 7a): the replay window is `skew` seconds from the cache-clock value read at acceptance. *)
EXTENDS Naturals, Sequences, FiniteSets

CONSTANTS Ages, MacKinds, NonceKinds,            \* semantic domains for structurally clean headers
          ShKids, ShAges, ShMacs, ShNonces,      \* semantic domains combined with every structural fault combination
          Dev_GateEmptyIsAbsent                  \* known deviation of proxy_proof_gate: `if not raw` treats a header that is
                                                 \* present with an empty value like an absent one (FALSE = intended design)

AllAges   == {"gtP", "eqP", "ltP", "zero", "ltN", "eqN", "gtN"}
AllMacs   == {"ok", "key", "origin", "tamper", "frame", "noncanon"}
AllNonces == {"fresh", "seen_in", "seen_edge", "seen_out", "seen_rej", "seen_xkid"}
Kids      == {"k1", "k2", "unk"}
Reasons   == {"no_proof", "malformed", "unknown_kid", "expired", "not_yet_valid", "bad_mac", "replayed"}

ASSUME Ages \subseteq AllAges /\ MacKinds \subseteq AllMacs /\ NonceKinds \subseteq AllNonces
ASSUME ShAges \subseteq Ages /\ ShMacs \subseteq MacKinds /\ ShNonces \subseteq NonceKinds /\ ShKids \subseteq Kids
(* whatever the tier, every later step must be able to fail *and* to pass behind every structural fault
   combination, so that every order of simultaneous failures (steps 2-4 x 5 x 6/7 x 8 x 9) is a case        *)
ASSUME {"k1", "unk"} \subseteq ShKids /\ {"zero", "gtP", "gtN"} \subseteq ShAges
ASSUME "ok" \in ShMacs /\ ShMacs \cap {"key", "origin", "tamper", "frame"} # {} /\ {"fresh", "seen_in"} \subseteq ShNonces

\* ------------------------------------------------------------------ case space
Clean == [hdr |-> "present", multi |-> FALSE, long |-> FALSE, nf |-> "5", ver |-> TRUE,
          kidcs |-> TRUE, tscs |-> TRUE, noncs |-> TRUE, maccs |-> TRUE,
          kid |-> "k1", age |-> "zero", mac |-> "ok", nonce |-> "fresh"]

StructClean(c) == ~c.multi /\ ~c.long /\ c.nf = "5" /\ c.ver /\ c.kidcs /\ c.tscs /\ c.noncs /\ c.maccs

\* structurally clean headers: the full semantic product
CleanCases == [hdr : {"present"}, multi : {FALSE}, long : {FALSE}, nf : {"5"}, ver : {TRUE},
               kidcs : {TRUE}, tscs : {TRUE}, noncs : {TRUE}, maccs : {TRUE},
               kid : Kids, age : Ages, mac : MacKinds, nonce : NonceKinds]
\* every combination of structural faults x every combination of later-step failures
Faulty == [hdr : {"present"}, multi : BOOLEAN, long : BOOLEAN, nf : {"4", "5", "6"}, ver : BOOLEAN,
           kidcs : BOOLEAN, tscs : BOOLEAN, noncs : BOOLEAN, maccs : BOOLEAN,
           kid : ShKids, age : ShAges, mac : ShMacs, nonce : ShNonces]

(* A token whose five fields are all in charset is at most 2+64+20+22+43+4 = 155 bytes, so "longer than 512
   bytes" can only occur together with a fault that can carry the length: an over-long field (a charset/length
   fault), an extra field, or several header instances.                                                       *)
Realisable(c) == c.long => (~c.kidcs \/ ~c.tscs \/ ~c.noncs \/ ~c.maccs \/ c.nf = "6" \/ c.multi)

Cases == {[Clean EXCEPT !.hdr = "absent"], [Clean EXCEPT !.hdr = "empty"]}
         \cup CleanCases
         \cup {c \in Faulty : ~StructClean(c) /\ Realisable(c)}

\* ------------------------------------------------------------------ the nine steps (section 6)
Reason == <<"no_proof", "malformed", "malformed", "malformed", "unknown_kid",
            "expired", "not_yet_valid", "bad_mac", "replayed">>

\* Must(c)[i]: step i certainly fails.   May(c)[i]: the table does not decide (set-valued oracle).
Must(c) == <<
  c.hdr = "absent",                                                  \* 1 header absent
  c.hdr = "empty" \/ c.multi \/ c.long,                              \* 2 >1 instance, empty value, > 512 bytes
  c.nf # "5" \/ ~c.ver,                                              \* 3 not exactly 5 fields, field 0 # v1
  ~c.kidcs \/ ~c.tscs \/ ~c.noncs \/ ~c.maccs,                       \* 4 a field fails its charset
  c.kid = "unk",                                                     \* 5 kid not in the configured map
  c.age = "gtP",                                                     \* 6 now - ts > skew
  c.age = "gtN",                                                     \* 7 ts - now > skew
  c.mac \in {"key", "origin", "tamper", "frame"},                    \* 8 recomputed MAC does not match
  c.nonce \in {"seen_in", "seen_xkid"} >>                            \* 9 nonce already seen within the window
May(c) == <<FALSE, FALSE, FALSE, FALSE, FALSE, FALSE, FALSE,
            c.mac = "noncanon",
            c.nonce = "seen_edge" >>

RECURSIVE Walk(_, _)
Walk(c, i) == IF i > 9 THEN {"ok"}
              ELSE IF Must(c)[i] THEN {Reason[i]}
              ELSE IF May(c)[i] THEN {Reason[i]} \cup Walk(c, i + 1)
              ELSE Walk(c, i + 1)
Admissible(c) == Walk(c, 1)          \* singleton except for the two set-valued rows

FirstFailing(c) == IF \E i \in 1..9 : Must(c)[i] THEN CHOOSE i \in 1..9 : Must(c)[i] /\ \A j \in 1..(i - 1) : ~Must(c)[j]
                   ELSE 0

Expected(c) == [adm |-> Admissible(c), step |-> FirstFailing(c)]

\* what the gate (as opposed to verify_proof) reports; differs from the table only under the named deviation
GateTable(c) == IF Dev_GateEmptyIsAbsent /\ c.hdr = "empty" THEN {"no_proof"} ELSE Admissible(c)

\* ------------------------------------------------------------------ table sanity (TLC checks each on every case)
GateFollowsTable(c) == GateTable(c) \subseteq Admissible(c)     \* holds for the intended design, refuted with Dev_... = TRUE
Total(c)            == Admissible(c) # {} /\ Admissible(c) \subseteq (Reasons \cup {"ok"})
Deterministic(c)    == (c.mac # "noncanon" /\ c.nonce # "seen_edge") => Cardinality(Admissible(c)) = 1
AcceptOnlyClean(c)  == "ok" \in Admissible(c) =>
                          /\ c.hdr = "present" /\ ~c.multi /\ ~c.long /\ c.nf = "5" /\ c.ver
                          /\ c.kidcs /\ c.tscs /\ c.noncs /\ c.maccs /\ c.kid # "unk"
                          /\ c.age \notin {"gtP", "gtN"} /\ c.mac \in {"ok", "noncanon"}
                          /\ c.nonce \notin {"seen_in", "seen_xkid"}
CleanAccepted(c)    == (c.hdr = "present" /\ ~c.multi /\ ~c.long /\ c.nf = "5" /\ c.ver /\ c.kidcs /\ c.tscs
                        /\ c.noncs /\ c.maccs /\ c.kid # "unk" /\ c.age \notin {"gtP", "gtN"} /\ c.mac = "ok"
                        /\ c.nonce \in {"fresh", "seen_out", "seen_rej"}) => Admissible(c) = {"ok"}
\* first failing step wins: the reported reason is never that of a later step than a certain failure
FirstStepWins(c)    == \A i \in 1..9 : Must(c)[i] => \A r \in Admissible(c) : \E j \in 1..i : Reason[j] = r
\* steps 1-4 involve no MAC computation and come first: a structurally broken token is only ever malformed/no_proof
CheapFirst(c)       == (\E i \in 1..4 : Must(c)[i]) => Admissible(c) \subseteq {"no_proof", "malformed"}
\* boundaries: age = +-skew is inside the two-sided window
WindowTwoSided(c)   == (c.age \in {"eqP", "eqN"}) => Admissible(c) \cap {"expired", "not_yet_valid"} = {}

\* ------------------------------------------------------------------ judging what the real code did
(* observation o -- one presented header, observed through every entry point of the verifier:
     v   outcome of verify_proof(token, ...) with injected clock and cache clock
                                                     "ok" | reason code | "other:<Type>" | "na" (leg not executed)
     g   outcome of the require-mode gate called on a real falcon.Request (ProofError.reason)   same domain
     a   outcome of the ALLOW-mode gate: never denies, but records the verifier's answer in its claims
         ("ok" when claims.verified = "true", otherwise claims.reason)
     w   outcome with the DEFAULT clocks (now = None -> the wall clock; cache on the monotonic clock); only executed for
         clock relations far from the window edge (ages zero / gtP / gtN concretised with a minute of margin)
     h   [done, out, status, same, echo]   full HTTP leg through make_wsgi_app(authenticate=require_all(gate)):
           out     reason logged by the gate ("ok" when the request was let through)
           status  HTTP status
           same    the 401 (status, body, auth headers) is identical to the reference 401 of this worker
           echo    the response contains the claimed kid or any verifier reason code
     h2  [done, inner, status, same]       the deployment shape require_all(gate, inner): a bearer authenticator behind
           the gate; inner = "ok" | "bad" | "absent" is the bearer credential sent along.  A proof failure must give the
           same 401 whatever that credential is (the reference is the 401 of a request with neither header).         *)
Bad(name, cond) == IF cond THEN {} ELSE {name}
Outcome(x) == x \in Reasons \cup {"ok"}

\* one leg that reports an outcome x ("na" = this leg was not executed for this observation)
Leg(p, x, adm) ==
       Bad(p \o "_OnlyProofError",     x = "na" \/ Outcome(x))                      \* never raises anything else
  \cup Bad(p \o "_NoFalseAccept",      x = "ok" => "ok" \in adm)                     \* accepts only what the table accepts
  \cup Bad(p \o "_NoFalseReject",      (adm = {"ok"} /\ Outcome(x)) => x = "ok")     \* accepts all the table accepts
  \cup Bad(p \o "_FirstFailingReason", (x \in Reasons /\ adm # {"ok"}) => x \in adm) \* reason of the first failing step

Conforms(c, o) ==
  LET adm == Admissible(c) IN
       Leg("V", o.v, adm)
  \cup Leg("G", o.g, adm)
  \cup Leg("A", o.a, adm)
  \cup Leg("W", o.w, adm)
  \cup Bad("H2_Reject401",       (o.h2.done /\ "ok" \notin adm) => o.h2.status = 401)
  \cup Bad("H2_Uniform401",      (o.h2.done /\ "ok" \notin adm /\ o.h2.status = 401) => o.h2.same)
  \cup Bad("H2_AcceptIffTable",  o.h2.done => ((o.h2.status # 401) => "ok" \in adm)
                                            /\ ((adm = {"ok"} /\ o.h2.inner = "ok") => o.h2.status # 401))
  \cup Bad("H_AcceptIffTable",   o.h.done => ((o.h.status # 401) => "ok" \in adm) /\ ((adm = {"ok"}) => o.h.status # 401))
  \cup Bad("H_Reject401",        (o.h.done /\ "ok" \notin adm) => o.h.status = 401)     \* 401, never 5xx
  \cup Bad("H_Uniform401",       (o.h.done /\ o.h.status = 401) => o.h.same)           \* every failure: the same 401
  \cup Bad("H_NoEcho",           (o.h.done /\ o.h.status = 401) => ~o.h.echo)          \* no echo of kid / reason
  \cup Bad("H_FirstFailingReason", (o.h.done /\ o.h.out \in Reasons /\ adm # {"ok"}) => o.h.out \in adm)
=====================================================================================
