---------------------------------- MODULE Codec ----------------------------------
(* C18 -- compression codecs round-trip and respect output caps: the decision table.

   A case is (codec, frame kind, level class, length class, cap relation):

     codec   zstd | gzip | identity
     frame   "oneshot"  produced by the module's own compress() (zstd: the frame declares its size)
             "stream"   produced by a streaming compressor that cannot know the total upfront (zstd: no
                        declared size; gzip never declares one -- the streaming variants differ in how the
                        deflate stream is chunked / flushed)
             identity has the single frame kind "raw"
     level   default | min | mid | max            (concretised to every level of the class by the driver)
     window  std | large   (zstd: does the frame header ask for a decoder window above 8 MiB -- see Windows below)
     len     zero | one | small | chunk_minus | chunk | chunk_plus | large
             (chunk = the decompressor's 64 KiB read size; the driver takes every length 0..64 for "small")
     cap     none | zero | len_minus_1 | len | len_plus_1 | large

   Oracle: decompress(compress(x)) = x;  with a cap:  x  iff  len(x) <= cap,  otherwise the limit error.

   Dev_IdentityIgnoresCap names the one place where the shipped code knowingly differs from the statement
   read literally ("codec (zstd, gzip, identity) ... with an output cap ... otherwise fails with the limit
   error"): decompress(IDENTITY, data, max_output_size=k) returns data whatever k is.  FALSE = the statement. *)
EXTENDS Integers, Sequences, FiniteSets

CONSTANT Dev_IdentityIgnoresCap

(* Entry points.  The codec is reached through more than compress()/decompress():
     "codec"       vgi_rpc._codec.compress / decompress                                   (all rows of the table)
     "legacy"      http._common._compress_body / _decompress_body (zstd aliases older call sites import)
     "header"      http._common.decode_content_encoding(body, "<Content-Encoding value>", max_output_size=cap):
                   the coding is named by a header string (case / blanks vary), including "identity"
     "chain"       decode_content_encoding with TWO codings applied in order ("gzip, zstd"): decoded in reverse, the
                   cap applies to every stage, so the length that counts is the larger of the two stage outputs
     "middleware"  the frame is produced by the server's response-compression middleware (streaming zstd writer that
                   declares the size / chunked gzip) at the configured level, and decoded with decompress()
     "token"       http.server._state_token._pack_plaintext / _unpack_plaintext (zstd with a fixed 64 MiB cap, raw
                   fallback when compression does not pay)                                                       *)
Entries == {"codec", "legacy", "header", "chain", "middleware", "token"}

(* Window class of a zstd frame -- how far back the frame header says the decoder must be able to look:
     "std"    at most 8 MiB: every level up to 19, and any frame whose (known) content is that small
     "large"  above 8 MiB: the "ultra" levels 20-22 (windows of 32 / 64 / 128 MiB) and long-distance matching.
              A streaming producer that does not know the total writes the level's full window into the header
              however small the payload is; a size-declaring frame has a large window only when the payload itself
              is larger than 8 MiB.
   The window is a property of the producer, not of the data; the verdict must not depend on it.                *)
Windows == {"std", "large"}
WindowOK(x) == x.window = "std"
               \/ (/\ x.codec = "zstd" /\ x.entry = "codec" /\ x.level = "max"
                   /\ (x.frame = "stream" => x.len # "zero")           \* an empty streaming frame declares size 0
                   /\ (x.frame = "oneshot" => x.len = "large"))        \* sized frame: only a payload > 8 MiB gets there

Codecs == {"zstd", "gzip", "identity"}
FramesOf(codec) == IF codec = "identity" THEN {"raw"} ELSE {"oneshot", "stream"}
Levels == {"default", "min", "mid", "max"}
LevelsOf(codec) == IF codec = "identity" THEN {"default"} ELSE Levels
Lens == {"zero", "one", "small", "chunk_minus", "chunk", "chunk_plus", "large"}
Caps == {"none", "zero", "len_minus_1", "len", "len_plus_1", "large"}

EntryOK(x) ==
  CASE x.entry = "codec"      -> TRUE
    [] x.entry = "legacy"     -> x.codec = "zstd" /\ x.frame = "oneshot" /\ x.level = "default"
    [] x.entry = "header"     -> x.level = "default"
    [] x.entry = "chain"      -> x.codec # "identity" /\ x.frame = "oneshot" /\ x.level = "default" /\ x.len # "zero"   \* codec = the outer coding
    [] x.entry = "middleware" -> x.codec # "identity" /\ x.frame = "stream" /\ x.len # "zero"       \* empty bodies are not compressed
    [] x.entry = "token"      -> x.codec = "zstd" /\ x.frame = "oneshot" /\ x.level = "default" /\ x.cap = "none"
Cases == {x \in [entry : Entries, codec : Codecs, frame : {"raw", "oneshot", "stream"}, level : Levels, window : Windows, len : Lens,
                 cap : Caps] :
              /\ x.frame \in FramesOf(x.codec)
              /\ x.level \in LevelsOf(x.codec)
              /\ EntryOK(x)
              /\ WindowOK(x)
              /\ ~(x.len = "zero" /\ x.cap = "len_minus_1")}          \* there is no cap -1

\* ---------------------------------------------------------------- oracle on classes
Within(c) == \/ c.cap \in {"none", "len", "len_plus_1", "large"}
             \/ (c.cap = "zero" /\ c.len = "zero")
Expected(c) == IF Within(c) \/ (Dev_IdentityIgnoresCap /\ c.codec = "identity") THEN "original" ELSE "limit"

\* ---------------------------------------------------------------- the same oracle on numbers
\* representative length of a class and the cap value a relation denotes; "large" cap = 2^30
RepLen(ln) == CASE ln = "zero" -> 0 [] ln = "one" -> 1 [] ln = "small" -> 37 [] ln = "chunk_minus" -> 65535
                [] ln = "chunk" -> 65536 [] ln = "chunk_plus" -> 65537 [] ln = "large" -> 200000
CapVal(cp, n) == CASE cp = "none" -> -1 [] cp = "zero" -> 0 [] cp = "len_minus_1" -> n - 1 [] cp = "len" -> n
                   [] cp = "len_plus_1" -> n + 1 [] cp = "large" -> 1073741824
NumWithin(n, k) == k = -1 \/ n <= k

\* table sanity, checked by TLC on every case
ClassOracleIsNumeric(c) == Within(c) <=> NumWithin(RepLen(c.len), CapVal(c.cap, RepLen(c.len)))
NoCapNeverLimits(c) == c.cap = "none" => Expected(c) = "original"
CapMonotone(c) == \A k \in Caps : LET c2 == [c EXCEPT !.cap = k] IN
    (/\ c2 \in Cases /\ c.cap # "none" /\ k # "none"
     /\ CapVal(k, RepLen(c.len)) >= CapVal(c.cap, RepLen(c.len))
     /\ Expected(c) = "original") => Expected(c2) = "original"
FrameBlind(c) == \A f \in FramesOf(c.codec), lv \in LevelsOf(c.codec), e \in Entries, w \in Windows :   \* the verdict never depends on
    Expected([c EXCEPT !.frame = f, !.level = lv, !.entry = e, !.window = w]) = Expected(c)         \* frame kind, level, entry point, window

\* ---------------------------------------------------------------- judging what the real code did
(* observation o = [n, cap, outcome]
     n        length of the original byte string (entry "chain": the larger of the two stage outputs)
     cap      max_output_size passed (-1 = None)
     outcome  "original" | "limit" (DecompressionLimitExceeded) | "changed" (other bytes came back)
              | "error" (any other exception)                                                              *)
Want(c, o) == IF NumWithin(o.n, o.cap) \/ (Dev_IdentityIgnoresCap /\ c.codec = "identity") THEN "original" ELSE "limit"
Conforms(c, o) ==
       (IF o.outcome = "changed" THEN {"NeverOtherBytes"} ELSE {})
  \cup (IF o.cap = -1 /\ o.outcome # "original" /\ o.outcome # "changed" THEN {"RoundTrip"} ELSE {})
  \cup (IF o.cap # -1 /\ Want(c, o) = "original" /\ o.outcome \in {"limit", "error"} THEN {"WithinCapReturnsOriginal"} ELSE {})
  \cup (IF o.cap # -1 /\ Want(c, o) = "limit" /\ o.outcome # "limit" THEN {"OverCapFailsWithLimit"} ELSE {})
  \cup (IF Want(c, o) # Expected(c) THEN {"HarnessClassMismatch"} ELSE {})
=====================================================================================
