"""Real shm-pipe world for C29 (spec/wire/ShmXfer.tla): a service whose results / stream batches come in payload
classes, calibration of the classes on the real allocator, and a history runner that drives the real client
(RpcConnection / StreamSession over ShmPipeTransport pairs) through a script taken from a TLC state-graph path,
recording what the client could observe: delivered items (digests), via-shm provenance, the allocation table read
from the segment header after every client-visible step, held (unreleased) batches.

Nothing in /repo is patched.  Observation points: the documented segment header (shm.py docstring) is parsed from the
client's mapping; ShmAllocator.num_allocs (public API) gives the count; calibration uses a recording *subclass* of
ShmSegment handed to ShmPipeTransport (constructor-injected)."""
import atexit
import enum
import hashlib
import os
import random
import struct
import threading
import warnings
from dataclasses import dataclass
from typing import Protocol

import pyarrow as pa
from pyarrow import ipc

import vgi_rpc.shm as S
from vgi_rpc.log import Level
from vgi_rpc.rpc import (AnnotatedBatch, CallContext, ExchangeState, OutputCollector, ProducerState, RpcConnection,
                         RpcError, RpcServer, ShmPipeTransport, Stream, make_pipe_pair, rpc_methods)
from vgi_rpc.shm import HEADER_SIZE, ShmSegment

warnings.filterwarnings("ignore")

PLAIN_OUT = pa.schema([pa.field("v", pa.int64())])
PLAIN_IN = pa.schema([pa.field("a", pa.int64())])
WRONG_IN = pa.schema([pa.field("b", pa.int64())])
DICT_T = pa.dictionary(pa.int8(), pa.utf8())
DICT_OUT = pa.schema([pa.field("v", DICT_T)])
DICT_IN = pa.schema([pa.field("a", DICT_T)])
ZERO = pa.schema([])
NEST_OUT = pa.schema([pa.field("v", pa.list_(DICT_T))])
NDICT = 40
TB = 2048                                   # threshold of the boundary world
THR = {"t0": 0, "t1": 1, "t1f": 1, "t1x": 1, "t1c": 1, "tb": TB}

# payload class -> concrete shape.  Sizes are exact per class (the model needs the allocator's charge), content is seeded.
ROWS = {"o_s": 1, "o_b": TB // 8 - 1, "o_e": TB // 8, "o_m": 600, "o_0": 0, "o_L": 40000, "o_d": 2500, "o_z": 5, "o_n": 400,
        "i_s": 1, "i_m": 600, "i_L": 40000, "i_w": 600, "i_d": 2300}
RLEN = {"r_s": 12, "r_b": TB - 1 - 4, "r_e": TB - 4, "r_m": 6000, "r_L": 300000}
PADLEN = {"-": 0, "q_s": 10, "q_m": 3000}
REQ_C, RES_C = ["q_s", "q_m"], ["r_s", "r_b", "r_e", "r_m", "r_L", "r_d", "r_v"]
OUT_P, OUT_D, OUT_Z = ["o_s", "o_b", "o_e", "o_m", "o_0", "o_L"], ["o_d"], ["o_z", "o_n"]   # OUT_Z: producer-only families
IN_P, IN_D, WRONG_C = ["i_s", "i_m", "i_L"], ["i_d"], "i_w"
ALL_CLASSES = REQ_C + RES_C + OUT_P + OUT_D + OUT_Z + IN_P + IN_D + [WRONG_C]


class Color(enum.Enum):
    RED = "red"
    GREEN = "green"
    BLUE = "blue"


def _dict_array(rows: int, tag: int, shift: int) -> pa.Array:
    words = [f"s{j:02d}-{tag % 100000:05d}-x" for j in range(NDICT)]
    idx = pa.array([(i + shift) % NDICT for i in range(rows)], type=pa.int8())
    return pa.DictionaryArray.from_arrays(idx, pa.array(words, type=pa.utf8()))


def _insum(inp: AnnotatedBatch | None) -> int:
    if inp is None or inp.batch.num_columns == 0 or inp.batch.num_rows == 0:
        return 0
    col = inp.batch.column(0)
    if pa.types.is_dictionary(col.type):
        return sum(len(x) + ord(x[1]) + ord(x[2]) for x in col.to_pylist()) % 997
    return sum(col.to_pylist()) % 997


def _emit(kind: str, rows: int, tag: int, k: int, inp, out: OutputCollector) -> None:
    s = _insum(inp)
    md = {"seq": f"{tag}/{k}", "insum": str(s)}          # application metadata travels with the batch
    if inp is not None and inp.custom_metadata is not None and inp.custom_metadata.get(b"note") is not None:
        md["note"] = inp.custom_metadata.get(b"note").decode()      # ... in both directions
    if kind == "plain" and inp is not None and inp.batch.num_rows == rows and rows > 1:
        # pass-through service: the output batch shares the input batch's buffers (zero-copy when the input came
        # through shm), so the input region must stay untouched until the output has been written
        out.emit_arrays([inp.batch.column(0)], metadata=md)
    elif kind == "plain":
        base = (tag * 1000 + k) * 1000000 + s * 1000
        out.emit_arrays([pa.array([base + i for i in range(rows)], type=pa.int64())], metadata=md)
    elif kind == "dict":
        out.emit_arrays([_dict_array(rows, tag, k + s)], metadata=md)
    elif kind == "nest":
        flat = _dict_array(rows * 3, tag, k + s)
        out.emit_arrays([pa.ListArray.from_arrays(pa.array(range(0, rows * 3 + 1, 3), type=pa.int32()), flat)], metadata=md)
    else:
        out.emit(pa.RecordBatch.from_struct_array(pa.array([{}] * rows, pa.struct([]))), metadata=md)


@dataclass
class PState(ProducerState):
    kind: str
    tag: int
    rows: int
    nout: int
    fin: str
    k: int = 0

    def produce(self, out: OutputCollector, ctx: CallContext) -> None:
        self.k += 1
        if self.fin in ("finish", "raise") and self.k == self.nout + 1:
            if self.fin == "raise":
                raise ValueError(f"produce boom tag={self.tag}")
            out.finish()
            return
        if self.fin == "cb":
            ctx.client_log(Level.INFO, f"log for tag={self.tag}")
        _emit(self.kind, self.rows, self.tag, self.k, None, out)


@dataclass
class XState(ExchangeState):
    kind: str
    tag: int
    rows: int
    nout: int
    fin: str
    k: int = 0

    def exchange(self, input: AnnotatedBatch, out: OutputCollector, ctx: CallContext) -> None:
        self.k += 1
        if self.fin == "raise" and self.k == self.nout + 1:
            raise ValueError(f"exchange boom tag={self.tag}")
        if self.fin == "cb":
            ctx.client_log(Level.INFO, f"log for tag={self.tag}")
        _emit(self.kind, self.rows, self.tag, self.k, input, out)


class ShmSvc(Protocol):
    def u(self, tag: int, n: int, mode: str, pad: bytes) -> bytes: ...
    def ue(self, tag: int, mode: str, pad: bytes) -> Color: ...
    def uv(self, tag: int, mode: str, pad: bytes) -> None: ...
    def p(self, tag: int, rows: int, nout: int, fin: str) -> Stream[ProducerState]: ...
    def pd(self, tag: int, rows: int, nout: int, fin: str) -> Stream[ProducerState]: ...
    def pz(self, tag: int, rows: int, nout: int, fin: str) -> Stream[ProducerState]: ...
    def pn(self, tag: int, rows: int, nout: int, fin: str) -> Stream[ProducerState]: ...
    def x(self, tag: int, rows: int, nout: int, fin: str) -> Stream[ExchangeState]: ...
    def xd(self, tag: int, rows: int, nout: int, fin: str) -> Stream[ExchangeState]: ...


class Impl:
    @staticmethod
    def _pre(tag: int, mode: str, ctx: CallContext) -> None:
        if mode == "log":
            ctx.client_log(Level.INFO, f"log for tag={tag}")
        if mode == "err":
            raise ValueError(f"unary boom tag={tag}")

    def u(self, tag: int, n: int, mode: str, pad: bytes, ctx: CallContext) -> bytes:
        self._pre(tag, mode, ctx)
        head = f"{tag}:{len(pad)}:{sum(pad) % 251}:".encode()
        return (head + b"x" * n)[:n]

    def ue(self, tag: int, mode: str, pad: bytes, ctx: CallContext) -> Color:
        self._pre(tag, mode, ctx)
        return list(Color)[(tag + len(pad)) % 3]

    def uv(self, tag: int, mode: str, pad: bytes, ctx: CallContext) -> None:
        self._pre(tag, mode, ctx)
        return None

    def _s(self, st, kind, tag, rows, nout, fin, out_schema, in_schema=None):
        if fin == "init":
            raise ValueError(f"init boom tag={tag}")
        kw = {} if in_schema is None else {"input_schema": in_schema}
        return Stream(output_schema=out_schema, state=st(kind, tag, rows, nout, fin), **kw)

    def p(self, tag: int, rows: int, nout: int, fin: str) -> Stream[ProducerState]:
        return self._s(PState, "plain", tag, rows, nout, fin, PLAIN_OUT)

    def pd(self, tag: int, rows: int, nout: int, fin: str) -> Stream[ProducerState]:
        return self._s(PState, "dict", tag, rows, nout, fin, DICT_OUT)

    def pz(self, tag: int, rows: int, nout: int, fin: str) -> Stream[ProducerState]:
        return self._s(PState, "zero", tag, rows, nout, fin, ZERO)

    def pn(self, tag: int, rows: int, nout: int, fin: str) -> Stream[ProducerState]:
        return self._s(PState, "nest", tag, rows, nout, fin, NEST_OUT)

    def x(self, tag: int, rows: int, nout: int, fin: str) -> Stream[ExchangeState]:
        return self._s(XState, "plain", tag, rows, nout, fin, PLAIN_OUT, PLAIN_IN)

    def xd(self, tag: int, rows: int, nout: int, fin: str) -> Stream[ExchangeState]:
        return self._s(XState, "dict", tag, rows, nout, fin, DICT_OUT, DICT_IN)


class CallbackBoom(Exception):
    pass


# ------------------------------------------------------------------------------------------------ segments
_SEGMENTS: dict[str, ShmSegment] = {}


def _cleanup() -> None:
    for seg in list(_SEGMENTS.values()):
        _drop(seg)


atexit.register(_cleanup)


def _drop(seg: ShmSegment) -> None:
    _SEGMENTS.pop(seg.name, None)
    try:
        seg.close()
    except Exception:  # noqa: BLE001
        pass
    try:
        seg.unlink()
    except Exception:  # noqa: BLE001
        pass


def set_threshold(value: int | None) -> None:
    """Lower / restore the shm gate the way an operator does: through VGI_RPC_SHM_MIN_BATCH_BYTES (re-resolved)."""
    if value is None:
        os.environ.pop("VGI_RPC_SHM_MIN_BATCH_BYTES", None)
    else:
        os.environ["VGI_RPC_SHM_MIN_BATCH_BYTES"] = str(value)
    resolve = getattr(S, "_resolve_shm_min_batch_bytes", None)
    S.SHM_MIN_BATCH_BYTES = resolve() if resolve else (value if value is not None else 128 * 1024)


def read_table(seg: ShmSegment) -> list[list[int]]:
    """Allocation table from the documented header: num_allocs at 16, (offset, length) uint64 pairs from 24."""
    buf = seg.buf
    magic, _ver, _ds, n, _pad = struct.unpack_from("<4sIQII", buf, 0)
    assert magic == b"VGIS"
    return sorted([list(struct.unpack_from("<QQ", buf, 24 + 16 * i)) for i in range(n)])


class RecSegment(ShmSegment):
    """ShmSegment that records what allocate_and_write was asked to store and what the allocator charged (calibration)."""

    def allocate_and_write(self, batch):  # type: ignore[override]
        before = {tuple(t) for t in read_table(self)}
        res = super().allocate_and_write(batch)
        after = {tuple(t) for t in read_table(self)}
        new = sorted(after - before)
        self.__dict__.setdefault("log", []).append(
            {"rows": batch.num_rows, "nbytes": batch.nbytes, "size": new[0][1] if new else None, "res": res})
        return res


# ------------------------------------------------------------------------------------------------ digests
_IGNORED_MD = (b"vgi_rpc.shm_source", b"vgi_rpc.location", b"vgi_rpc.server_id", b"vgi_rpc.request_id")


def batch_digest(ab: AnnotatedBatch) -> str:
    b = ab.batch
    md = {}
    if ab.custom_metadata is not None:
        md = {k: v for k, v in dict(ab.custom_metadata).items() if not k.startswith(_IGNORED_MD)}
    body = [b.schema.to_string(show_schema_metadata=True), b.num_rows, [c.to_pylist() for c in b.columns], sorted(md.items())]
    return hashlib.sha1(repr(body).encode()).hexdigest()[:12]


def via_shm(ab: AnnotatedBatch) -> bool:
    return ab.custom_metadata is not None and ab.custom_metadata.get(b"vgi_rpc.shm_source") is not None


def region_offset(ab: AnnotatedBatch) -> int | None:
    """Absolute offset of the region a delivered batch lives in (read-only look at the release closure)."""
    fn = ab._release_fn
    if fn is None or not getattr(fn, "__closure__", None):
        return None
    cells = dict(zip(fn.__code__.co_freevars, fn.__closure__))
    try:
        return int(cells["offset"].cell_contents)
    except Exception:  # noqa: BLE001
        return None


# ------------------------------------------------------------------------------------------------ concretisation
def in_batch(cls: str, rng: random.Random, tag: int) -> AnnotatedBatch:
    rows = ROWS[cls]
    note = pa.KeyValueMetadata({b"note": f"{tag}-{rng.randrange(1000)}".encode()})
    if cls == "i_d":
        return AnnotatedBatch(batch=pa.RecordBatch.from_arrays([_dict_array(rows, tag, rng.randrange(NDICT))], schema=DICT_IN),
                              custom_metadata=note)
    vals = [rng.randrange(1 << 40) for _ in range(rows)]
    return AnnotatedBatch(batch=pa.RecordBatch.from_arrays([pa.array(vals, type=pa.int64())],
                                                           schema=WRONG_IN if cls == "i_w" else PLAIN_IN),
                          custom_metadata=note)


def stream_method(k: str, co: str) -> str:
    if k == "p":
        return "pd" if co in OUT_D else "pn" if co == "o_n" else "pz" if co in OUT_Z else "p"
    return "xd" if co in OUT_D else "x"


class World:
    """One connection: client transport + server thread (+ segment).
    mode: 'static' (ShmPipeTransport both sides) | 'cached' (plain-pipe server, RpcServer.serve attaches and caches the
    segment the client names) | 'percall' (plain-pipe server whose owner loops over serve_one: attach per call) | 'pipe'.
    loop: how the server side is driven when there is no segment at all ('serve' | 'serve_one')."""

    def __init__(self, cap: int | None, mode: str, seg_cls=ShmSegment, loop: str = "serve") -> None:
        self.mode = mode
        self.cap = cap
        self.seg = self.srv_seg = None
        cp, sp = make_pipe_pair()
        self.cp = cp
        if mode == "dynamic":
            mode = self.mode = "cached"
        if mode == "percall":
            loop = "serve_one"
        if mode == "pipe":
            self.ct, self.st = cp, sp
        else:
            self.seg = seg_cls.create(HEADER_SIZE + cap)
            _SEGMENTS[self.seg.name] = self.seg
            self.ct = ShmPipeTransport(cp, self.seg)
            if mode == "static":
                self.srv_seg = seg_cls.attach(self.seg.name, self.seg.size, track=False)
                self.st = ShmPipeTransport(sp, self.srv_seg)
            else:
                self.st = sp
        self.server = RpcServer(ShmSvc, Impl())
        self.died: list = []

        def serve():
            try:
                if loop == "serve":
                    self.server.serve(self.st)
                else:
                    # an owner driving serve_one() itself (documented entry point): no per-connection caches
                    while True:
                        try:
                            self.server.serve_one(self.st)
                        except (EOFError, StopIteration, pa.ArrowInvalid, BrokenPipeError, ConnectionResetError):
                            break
            except BaseException as e:  # noqa: BLE001
                self.died.append(repr(e))

        self.th = threading.Thread(target=serve, daemon=True)
        self.th.start()

    def new_segment(self):
        """The connection is handed to its next user, who brings a fresh segment (what WorkerPool does per borrow):
        the old one is destroyed, the client side goes on over the same pipe."""
        old = self.seg
        self.seg = type(old).create(HEADER_SIZE + self.cap)
        _SEGMENTS[self.seg.name] = self.seg
        self.ct = ShmPipeTransport(self.cp, self.seg)
        _drop(old)
        return self.ct

    def close(self) -> dict:
        try:
            self.ct.close()
        except Exception:  # noqa: BLE001
            pass
        self.th.join(20.0)
        stuck = self.th.is_alive()
        if not stuck:
            try:
                self.st.close()
            except Exception:  # noqa: BLE001
                pass
        if self.srv_seg is not None:
            try:
                self.srv_seg.close()
            except Exception:  # noqa: BLE001
                pass
        if self.seg is not None:
            _drop(self.seg)
        return {"server_died": self.died, "server_stuck": stuck}


def _unary_via_shm_request(w: World, px, name: str, kwargs: dict, on_log, wire_name: str | None = None, via: bool = True):
    """A client that routes the request batch through the segment (as the C++ client does): the request is written
    with the real maybe_write_to_shm, the response is read with the real _read_unary_response."""
    from vgi_rpc.rpc._wire import _read_unary_response
    from vgi_rpc.utils import IpcValidation, ValidatedReader

    info = rpc_methods(ShmSvc)[name]
    arrays = [pa.array([kwargs[f.name]], type=f.type) for f in info.params_schema]
    batch = pa.RecordBatch.from_arrays(arrays, schema=info.params_schema)
    md = {b"vgi_rpc.method": (wire_name or name).encode(), b"vgi_rpc.request_version": b"1"}
    if w.seg is not None:
        md[b"vgi_rpc.shm_segment_name"] = w.seg.name.encode()
        md[b"vgi_rpc.shm_segment_size"] = str(w.seg.size).encode()
    pb, pcm = S.maybe_write_to_shm(batch, pa.KeyValueMetadata(md), w.seg if via else None)
    with ipc.new_stream(w.ct.writer, pb.schema) as wr:
        wr.write_batch(pb, custom_metadata=pcm)
    reader = ValidatedReader(ipc.open_stream(w.ct.reader), IpcValidation.FULL)
    return _read_unary_response(reader, info, on_log, None, shm=w.seg)


def run_history(script: list[dict], cap: int, world: str, mode: str, seed: int, tag0: int, loop: str = "serve") -> dict:
    """Execute one client script.  Returns the observable record (see module docstring)."""
    rng = random.Random(seed)
    set_threshold(THR[world])
    w = World(cap, mode, loop=loop)
    seg = w.seg
    obs: list[str] = []          # delivered history as digest tokens (compared with the inline run by TLC)
    ev: list[dict] = []          # events for ShmXferTrace
    calls: list[dict] = []       # after every completed call / idle release: nlive, nheld, tab
    heldchk: list[dict] = []     # digest at delivery vs digest when released / at the end
    errs: list[str] = []         # harness-level notes (never a clause by themselves)
    relerrs: list[str] = []      # release() raised: the region the batch lived in could not be given back
    anon: list[dict] = []        # held batches whose region offset could not be determined
    held: dict[int, dict] = {}   # model offset -> {ab, dig, call}
    state = {"boom": False, "nlog": 0}
    callno = 0

    def on_log(msg):
        state["nlog"] += 1
        if state["boom"]:
            raise CallbackBoom("log callback raised")

    def tab():
        return [] if seg is None else [[o - HEADER_SIZE, n] for o, n in read_table(seg)]

    def nlive():
        return 0 if seg is None else seg.allocator.num_allocs

    def boundary(desc):
        calls.append({"desc": desc, "nlive": nlive(), "nheld": len(held) + len(anon), "tab": tab()})

    def release(ab, what):
        try:
            ab.release()
        except Exception as e:  # noqa: BLE001
            relerrs.append(f"{what}: {type(e).__name__}: {e}")

    def drop_held(moff):
        h = held.pop(moff)
        heldchk.append({"at": h["dig"], "end": batch_digest(h["ab"])})
        release(h["ab"], "release held")

    sess = None
    cur = None
    mine: list[int] = []
    ended = True
    try:
        px = RpcConnection(ShmSvc, w.ct, on_log=on_log).__enter__()      # the transport is closed by World.close()
        if True:
            for op in script:
                o = op["op"]
                if o == "NewSegment":
                    if seg is not None and w.mode in ("cached", "percall"):
                        px = RpcConnection(ShmSvc, w.new_segment(), on_log=on_log).__enter__()
                        seg = w.seg
                    ev.append({"e": "NewSegment", "tab": tab()})
                    boundary({"k": "newseg", "fail": "-"})
                elif o == "Unary":
                    callno += 1
                    tag = tag0 + callno
                    state.update(boom=(op["out"] == "cb"), nlog=0)
                    res, rq = op["res"], op["rq"]
                    pad = bytes(rng.randrange(256) for _ in range(PADLEN[rq]))
                    via = False
                    try:
                        kw = {"tag": tag, "mode": {"ok": "ok", "err": "err", "cb": "log", "unk": "ok"}[op["out"]], "pad": pad}
                        name = "ue" if res == "r_d" else "uv" if res == "r_v" else "u"
                        if name == "u":
                            kw["n"] = RLEN[res]
                        if op["out"] == "unk":
                            r = _unary_via_shm_request(w, px, name, kw, on_log, wire_name="zz_unknown", via=rq != "-")
                        elif rq != "-":
                            r = _unary_via_shm_request(w, px, name, kw, on_log)
                        else:
                            r = getattr(px, name)(**kw)
                        item = "result:" + hashlib.sha1(repr(r).encode()).hexdigest()[:12]
                        kind = "result"
                    except CallbackBoom:
                        item, kind = "cb", "cb"
                    except RpcError as e:
                        item = "err:" + hashlib.sha1(f"{e.error_type}|{e.error_message}".encode()).hexdigest()[:12]
                        kind = "err"
                    state["boom"] = False
                    obs.append(item)
                    ev.append({"e": "Unary", "rq": rq, "res": res, "out": op["out"], "r": kind, "tab": tab()})
                    boundary({"k": "u", "fail": op["out"], "rq": rq, "res": res})
                elif o == "Begin":
                    callno += 1
                    tag = tag0 + callno
                    cur = dict(op, tag=tag, n=0)
                    mine = []
                    ended = False
                    name = stream_method(op["k"], op["co"])
                    fin = op["fail"] if op["fail"] in ("finish", "raise", "init", "cb") else "none"
                    try:
                        sess = getattr(px, name)(tag=tag, rows=ROWS[op["co"]], nout=op["nout"], fin=fin)
                    except RpcError as e:
                        obs.append("err:open:" + e.error_type)
                        sess, ended = None, True
                    ev.append({"e": "Begin", "k": op["k"], "ci": op["ci"], "co": op["co"], "fail": op["fail"], "nout": op["nout"]})
                elif o == "Input":
                    if ended or sess is None:
                        continue
                    r, via, keep = "data", False, False
                    if cur.get("cbwait"):
                        continue                      # after the callback raised the only legal move is to leave
                    state["boom"] = cur["fail"] == "cb" and cur["n"] == cur["nout"]
                    try:
                        if cur["k"] == "p":
                            ab = sess.tick()
                        else:
                            cls = WRONG_C if cur["fail"] == "schema" and cur["n"] == cur["nout"] else cur["ci"]
                            ab = sess.exchange(in_batch(cls, rng, cur["tag"]))
                        cur["n"] += 1
                        dig = batch_digest(ab)
                        obs.append("data:" + dig)
                        via = via_shm(ab)
                        keep = bool(op.get("keep")) and via
                        if keep:
                            off = region_offset(ab)
                            if off is None:
                                errs.append("harness: region offset of a delivered batch not found")
                                anon.append({"ab": ab, "dig": dig})     # still held (and counted), just not addressable
                        if keep and off is None:
                            keep = False
                        elif keep:
                            held[off - HEADER_SIZE] = {"ab": ab, "dig": dig, "call": callno}
                            mine.append(off - HEADER_SIZE)
                        else:
                            release(ab, "release each")
                    except CallbackBoom:
                        r, cur["cbwait"] = "cb", True
                        obs.append("cb")
                    except StopIteration:
                        r, ended = "stop", True
                        obs.append("stop")
                    except RpcError as e:
                        r, ended = "err", True
                        obs.append("err:" + hashlib.sha1(f"{e.error_type}|{e.error_message}".encode()).hexdigest()[:12])
                    state["boom"] = False
                    # the table is only meaningful when the server is quiescent: not after a raising callback (the
                    # server may still be writing its turn) nor after the error of a call rejected before its
                    # stream opened (the serve loop has yet to swallow the stray input stream)
                    chk = r in ("data", "stop") or (r == "err" and cur["fail"] != "init")
                    cur["sync"] = cur.get("sync") or (r == "err" and cur["fail"] == "init")
                    ev.append({"e": "Input", "r": r, "via": via, "keep": keep, "chk": chk, "tab": tab() if chk else []})
                elif o == "Close":
                    if ended or sess is None:
                        continue
                    try:
                        sess.cancel() if op["how"] == "cancel" else sess.close()
                    except Exception as e:  # noqa: BLE001
                        errs.append(f"close: {type(e).__name__}: {e}")
                    ended = True
                    ev.append({"e": "Close", "how": op["how"], "tab": tab()})
                elif o == "EndCall":
                    if not ended and sess is not None:
                        sess.close()
                        ended = True
                        ev.append({"e": "Close", "how": "close", "tab": tab()})
                    if cur.get("sync"):
                        # a void round trip: when it returns the server has consumed everything sent before it
                        try:
                            px.uv(tag=0, mode="ok", pad=b"")
                        except Exception as e:  # noqa: BLE001
                            errs.append(f"sync: {type(e).__name__}: {e}")
                    rel = bool(op["rel"]) and bool(mine)
                    if rel:
                        for moff in list(mine):
                            if moff in held:
                                drop_held(moff)
                    ev.append({"e": "EndCall", "rel": rel, "tab": tab()})
                    boundary({"k": stream_method(cur["k"], cur["co"]), "fail": cur["fail"], "ci": cur["ci"], "co": cur["co"]})
                    sess, cur, mine = None, None, []
                elif o == "ReleaseHeld":
                    if op["k"] > len(held):
                        continue
                    moff = sorted(held)[op["k"] - 1]          # the k-th held region in offset order
                    drop_held(moff)
                    ev.append({"e": "ReleaseHeld", "off": moff, "tab": tab()})
                    boundary({"k": "release", "fail": "-"})
            # the history is over: whatever the client still holds must still read as delivered
            for h in [held[moff] for moff in sorted(held)] + anon:
                heldchk.append({"at": h["dig"], "end": batch_digest(h["ab"])})
            final_live, final_held = nlive(), len(held)
            held.clear()
            sess = None
    except Exception as e:  # noqa: BLE001 - anything else the client let escape: part of the delivered history
        errs.append(f"history aborted: {type(e).__name__}: {e}")
        obs.append(f"abort:{type(e).__name__}")
        final_live, final_held = -1, -1
    anon.clear()
    end = w.close()
    if end["server_died"]:
        obs.append("server:died")
    if end["server_stuck"]:
        obs.append("server:stuck")
    return {"obs": obs, "ev": ev, "calls": calls, "heldchk": heldchk, "errs": errs, "relerrs": relerrs, "cap": cap,
            "world": world, "mode": mode, "final": [final_live, final_held], **end}


# ------------------------------------------------------------------------------------------------ calibration
def calibrate() -> dict:
    """Rows / nbytes / allocator charge of every payload class, observed on the real code (threshold 0, large segment)."""
    set_threshold(0)
    w = World(8 * 1024 * 1024, "static", seg_cls=RecSegment)
    out: dict[str, dict] = {}
    rng = random.Random(1)

    def take(seg) -> dict | None:
        log = seg.__dict__.get("log", [])
        rec = log[-1] if log else None
        if "log" in seg.__dict__:
            seg.__dict__["log"] = []
        return rec

    def put(cls, rec):
        out[cls] = {"rows": rec["rows"], "nbytes": rec["nbytes"], "size": rec["size"]} if rec else {"rows": 0, "nbytes": 0, "size": 0}

    try:
        with RpcConnection(ShmSvc, w.ct) as px:
            for res in RES_C:
                take(w.srv_seg)
                if res == "r_d":
                    px.ue(tag=1, mode="ok", pad=b"")
                elif res == "r_v":
                    px.uv(tag=1, mode="ok", pad=b"")
                else:
                    px.u(tag=1, n=RLEN[res], mode="ok", pad=b"")
                put(res, take(w.srv_seg))
            for rq in REQ_C:
                take(w.seg)
                _unary_via_shm_request(w, px, "u", {"tag": 1, "n": 12, "mode": "ok", "pad": b"p" * PADLEN[rq]}, None)
                put(rq, take(w.seg))
            for co in OUT_P + OUT_D + OUT_Z:
                take(w.srv_seg)
                s = getattr(px, stream_method("p", co))(tag=1, rows=ROWS[co], nout=0, fin="none")
                s.tick().release()
                s.close()
                put(co, take(w.srv_seg))
            for ci in IN_P + IN_D:
                take(w.seg)
                s = getattr(px, "xd" if ci in IN_D else "x")(tag=1, rows=1, nout=0, fin="none")
                s.exchange(in_batch(ci, rng, 1)).release()
                s.close()
                put(ci, take(w.seg))
            take(w.seg)
            s = px.x(tag=1, rows=1, nout=0, fin="none")
            try:
                s.exchange(in_batch(WRONG_C, rng, 1))
            except RpcError:
                pass
            put(WRONG_C, take(w.seg))
    finally:
        w.close()
    return out
