--------------------------------- MODULE StickyMonitor ---------------------------------
(* The C26 clauses as a monitor over the *observable* history of one session, independent of how the code
   is structured: events DispatchBegin/DispatchEnd (a request's method running against the session) and
   CloseBegin/CloseEnd (the session state's close hook), each tagged with the thread that produced it, in
   the real total order (only one thread runs at a time under the scheduler).  A request's own in-method
   close is not counted against itself.  The monitor accepts every history; the clauses are evaluated in
   every state and collected per trace.  This is what decides VIOLATION; StickyTrace decides drift. *)
EXTENDS Naturals, FiniteSets, Sequences, TLC, Json, IOUtils
Traces == JsonDeserialize(IOEnv.TRACE_FILE)     \* array of [ev |-> <<[e, t], ...>>, ended |-> BOOLEAN]
VARIABLES tid, l, dispatching, closeStarted, closeCount, bad
mvars == <<tid, l, dispatching, closeStarted, closeCount, bad>>
MInit == /\ tid \in 1..Len(Traces) /\ l = 1 /\ dispatching = {} /\ closeStarted = FALSE /\ closeCount = 0 /\ bad = {}
Ev == Traces[tid].ev[l]
MNext == /\ l <= Len(Traces[tid].ev) /\ l' = l + 1 /\ UNCHANGED tid
         /\ CASE Ev.e = "DispatchBegin" ->
                   /\ dispatching' = dispatching \cup {Ev.t}
                   /\ bad' = bad \cup (IF dispatching # {} THEN {"Mutex"} ELSE {})
                                 \cup (IF closeStarted THEN {"NoDispatchAfterClose"} ELSE {})
                   /\ UNCHANGED <<closeStarted, closeCount>>
              [] Ev.e = "DispatchEnd" -> dispatching' = dispatching \ {Ev.t} /\ UNCHANGED <<closeStarted, closeCount, bad>>
              [] Ev.e = "CloseBegin" ->
                   /\ closeStarted' = TRUE /\ closeCount' = closeCount + 1
                   /\ bad' = bad \cup (IF dispatching \ {Ev.t} # {} THEN {"NoCloseDuringDispatch"} ELSE {})
                                 \cup (IF closeCount >= 1 THEN {"CloseAtMostOnce"} ELSE {})
                   /\ UNCHANGED dispatching
              [] OTHER -> UNCHANGED <<dispatching, closeStarted, closeCount, bad>>
MSpec == MInit /\ [][MNext]_mvars
\* at the end of the history: a session that ended (no longer registered) was closed exactly once, a live one never
Final == IF l = Len(Traces[tid].ev) + 1
         THEN bad \cup (IF Traces[tid].ended /\ closeCount = 0 THEN {"CloseExactlyOnceIfEnded"} ELSE {})
                  \cup (IF ~Traces[tid].ended /\ closeCount > 0 THEN {"CloseOnlyIfEnded"} ELSE {})
         ELSE bad
Track == TLCSet(tid, TLCGet(tid) \cup Final)
ASSUME \A i \in 1..Len(Traces) : TLCSet(i, {})
Verdicts == \A i \in 1..Len(Traces) : PrintT("@@J@@" \o ToJson([tid |-> i, bad |-> TLCGet(i)]))
==========================================================================================
