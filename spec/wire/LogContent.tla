------------------------------------ MODULE LogContent ------------------------------------
(* C08 (a), content half -- "with its level, text and extra fields preserved": the product of what a method can pass
   to client_log / emit_client_log, each emitted once at every kind of emission point and carried over both transports.

     lvl    ERROR | WARN | INFO | DEBUG | TRACE          (EXCEPTION is the wire's error marker, not a log level a
                                                          method logs at)
     txt    "ascii" | "empty" | "unicode" | "multiline" | "jsonish" | "long"
     extra  "none" | "plain" | "many" | "unicode" | "emptykey" | "level" | "message" | "self" | "both"
            ("level" / "message" / "self" are extras named like Message's own arguments; a Python method sets them
            through Message.extra, a non-Python server simply writes them)
     at     "unary" (before the result) | "init" (method body of a stream, no header) | "init_hdr" (method body, header
            declared: travels in the header stream) | "pre_prod" / "pre_exch" (in a process() step of a producer /
            an exchange, before the batch) | "post_prod" / "post_exch" (in a step, after the batch)
     tr     "pipe" | "http"
   Every case must be delivered exactly once with level, text and user extras equal to what was emitted.             *)
EXTENDS Naturals, Sequences, FiniteSets

Lvls == {"ERROR", "WARN", "INFO", "DEBUG", "TRACE"}
Txts == {"ascii", "empty", "unicode", "multiline", "jsonish", "long"}
Extras == {"none", "plain", "many", "unicode", "emptykey", "level", "message", "self", "both"}
Ats == {"unary", "init", "init_hdr", "pre_prod", "post_prod", "pre_exch", "post_exch"}
Cases == {[lvl |-> l, txt |-> t, extra |-> x, at |-> a, tr |-> r] : l \in Lvls, t \in Txts, x \in Extras, a \in Ats, r \in {"pipe", "http"}}
Expected(c) == [delivered |-> 1, intact |-> TRUE]

ReservedNames(c) == c.extra \in {"level", "message", "self", "both"}
AlwaysDelivered(c) == Expected(c).delivered = 1 /\ Expected(c).intact

(* o = [failed, delivered, level_ok, text_ok, extra_ok, before_payload]
     before_payload: the callback ran before the result / batch the message precedes was returned to the caller
     (a message logged after the batch precedes the NEXT item: not asserted for the two post emission points)                  *)
Conforms(c, o) ==
       {"CallSucceeds"   : x \in {1} \cap (IF ~o.failed THEN {} ELSE {1})}
  \cup {"DeliveredOnce"  : x \in {1} \cap (IF o.failed \/ o.delivered = 1 THEN {} ELSE {1})}
  \cup {"LevelPreserved" : x \in {1} \cap (IF o.delivered >= 1 => o.level_ok THEN {} ELSE {1})}
  \cup {"TextPreserved"  : x \in {1} \cap (IF o.delivered >= 1 => o.text_ok THEN {} ELSE {1})}
  \cup {"ExtraPreserved" : x \in {1} \cap (IF o.delivered >= 1 => o.extra_ok THEN {} ELSE {1})}
  \cup {"BeforeWhatItPrecedes" : x \in {1} \cap (IF (o.delivered >= 1 /\ c.at \notin {"post_prod", "post_exch"}) => o.before_payload THEN {} ELSE {1})}
============================================================================================
