"""Standalone reproductions (no harness imports) of the X01 / X02 findings.
Run:  cd /verif && PYTHONPATH=${VERIF_REPO:-/repo} /venv/bin/python -m drivers._extra1_repro
Each block prints what the real code does; 'DEFECT' lines disappear with the corresponding proposed_fixes/X0*.diff applied."""
import logging
import warnings
from dataclasses import dataclass
from typing import Protocol

import pyarrow as pa

from vgi_rpc.http import http_connect
from vgi_rpc.http._testing import make_sync_client
from vgi_rpc.rpc import (AnnotatedBatch, CallContext, ExchangeState, OutputCollector, ProducerState, RpcConnection,
                         RpcError, RpcServer, Stream, make_pipe_pair)
from vgi_rpc.rpc._common import _register_dispatch_hook

warnings.filterwarnings("ignore")
logging.getLogger("vgi_rpc").addHandler(logging.NullHandler())
logging.getLogger("vgi_rpc").propagate = False
OUT = pa.schema([pa.field("v", pa.int64())])
INP = pa.schema([pa.field("a", pa.int64())])


@dataclass
class P(ProducerState):
    n: int = 0

    def produce(self, out: OutputCollector, ctx: CallContext) -> None:
        self.n += 1
        if self.n == 2:
            raise ValueError("producer step 2 failed")
        out.emit_pydict({"v": [self.n]})


@dataclass
class X(ExchangeState):
    n: int = 0

    def exchange(self, input: AnnotatedBatch, out: OutputCollector, ctx: CallContext) -> None:
        self.n += 1
        if self.n == 2:
            raise ValueError("exchange step 2 failed")
        out.emit_pydict({"v": [self.n]})


class Svc(Protocol):
    def prod(self) -> Stream[ProducerState]: ...
    def exch(self) -> Stream[ExchangeState]: ...
    def bad_init(self) -> Stream[ProducerState]: ...


class Impl:
    def prod(self) -> Stream[P]:
        return Stream(output_schema=OUT, state=P())

    def exch(self) -> Stream[X]:
        return Stream(output_schema=OUT, state=X(), input_schema=INP)

    def bad_init(self) -> Stream[P]:
        raise ValueError("init failed")


class Hook:
    """What vgi_rpc.otel / vgi_rpc.sentry see: (method, error passed to on_dispatch_end, stats.output_batches)."""

    def __init__(self) -> None:
        self.ends: list = []

    def on_dispatch_start(self, info, auth, transport_metadata, kwargs):
        return object()

    def on_dispatch_end(self, token, info, error, *, stats=None):
        self.ends.append((info.name, None if error is None else f"{type(error).__name__}({str(error)!r})",
                          None if stats is None else stats.output_batches))


class AccessRecords(logging.Handler):
    def __init__(self) -> None:
        super().__init__()
        self.recs: list = []

    def emit(self, r: logging.LogRecord) -> None:
        self.recs.append((r.__dict__.get("method"), r.__dict__.get("status"), r.__dict__.get("output_batches")))


def drive(px, http: bool) -> list:
    seen = []
    s = px.prod()
    try:
        it = iter(s) if http else None
        for _ in range(3):
            seen.append(("prod", (next(it) if http else s.tick()).batch.column("v")[0].as_py()))
    except RpcError as e:
        seen.append(("prod", "RpcError", e.error_type))
    s = px.exch()
    try:
        for _ in range(3):
            seen.append(("exch", s.exchange(AnnotatedBatch(batch=pa.RecordBatch.from_pydict({"a": [1]}, schema=INP))).batch.column("v")[0].as_py()))
    except RpcError as e:
        seen.append(("exch", "RpcError", e.error_type))
    try:
        s = px.bad_init()
        s.tick() if not http else next(iter(s))
    except RpcError as e:
        seen.append(("bad_init", "RpcError", e.error_type))
    return seen


def main() -> None:
    acc = logging.getLogger("vgi_rpc.access")
    acc.setLevel(logging.INFO)
    acc.propagate = False
    for http in (False, True):
        cap = AccessRecords()
        acc.addHandler(cap)
        hook = Hook()
        server = RpcServer(Svc, Impl())
        server._dispatch_hook = _register_dispatch_hook(server._dispatch_hook, hook)
        if http:
            with http_connect(Svc, client=make_sync_client(server, token_key=b"k" * 32)) as px:
                seen = drive(px, True)
        else:
            import threading

            ct, st = make_pipe_pair()
            th = threading.Thread(target=lambda: server.serve(st), daemon=True)
            th.start()
            with RpcConnection(Svc, ct) as px:
                seen = drive(px, False)
            ct.close()
            th.join(5)
        acc.removeHandler(cap)
        name = "HTTP" if http else "pipe"
        print(f"--- {name}: client saw {seen}")
        for (m, err, ob), rec in zip(hook.ends, [r for r in cap.recs]):
            print(f"    dispatch end  method={m:9s} hook error={err!s:45s} access-log status={rec[1]:5s} output_batches={ob}")
        # X01: every failed dispatch must hand the hook the exception the method raised
        failed = [(m, err) for (m, err, _), rec in zip(hook.ends, cap.recs) if rec[1] == "error"]
        for m, err in failed:
            if err is None:
                print(f"DEFECT X01 ({name}): {m} failed (access log says error) but on_dispatch_end got error=None")
            elif not err.startswith("ValueError"):
                print(f"DEFECT X01 ({name}): {m} raised ValueError but on_dispatch_end got {err}")
        # X02: a failed dispatch's statistics include the error batch written to the client (README, Call Statistics)
        for (m, err, ob), rec in zip(hook.ends, cap.recs):
            if rec[1] == "error" and ob == 0:
                print(f"DEFECT X02 ({name}): {m} failed and an error batch was sent, but output_batches == 0")


def vanish() -> None:
    """X01 (socket family): the client goes away after a stream call was dispatched, before it opened the input stream."""
    import threading

    acc = logging.getLogger("vgi_rpc.access")
    for ticks in (0, 1):
        cap = AccessRecords()
        acc.addHandler(cap)
        hook = Hook()
        starts: list = []
        orig = hook.on_dispatch_start
        hook.on_dispatch_start = lambda *a, **k: (starts.append(a[0].name), orig(*a, **k))[1]
        server = RpcServer(Svc, Impl())
        server._dispatch_hook = _register_dispatch_hook(server._dispatch_hook, hook)
        ct, st = make_pipe_pair()
        th = threading.Thread(target=lambda: server.serve(st), daemon=True)
        th.start()
        conn = RpcConnection(Svc, ct)
        px = conn.__enter__()
        s = px.prod()
        for _ in range(ticks):
            s.tick()
        ct.writer.close()           # the client process dies: no close(), no cancel()
        ct.reader.close()
        th.join(5)
        acc.removeHandler(cap)
        print(f"--- pipe, client vanishes after {ticks} tick(s): hook starts={starts} hook ends={hook.ends} "
              f"access-log records={cap.recs}")
        if len(hook.ends) != len(starts):
            print(f"DEFECT X01 (pipe): on_dispatch_start was called {len(starts)}x, on_dispatch_end {len(hook.ends)}x "
                  f"(and {len(cap.recs)} access-log record(s)) for a stream call whose method ran")


if __name__ == "__main__":
    main()
    vanish()
