"""Helpers shared by the fault-engine drivers (c38, c31, c30).

Not part of vf/: batch trace validation in the StickyTrace idiom (many traces per JVM start, per-trace TLC
registers, verdicts printed from a POSTCONDITION, -workers 1) and a tiny cfg writer that knows `<-`.
"""
from __future__ import annotations

import json
from pathlib import Path

from vf.core import Ctx
from vf.tlc import MachineryError, TlcResult, require_ok, run_tlc, sany, tla_value

# Short TLC runs (a few 10^4..10^5 states) are dominated by JIT warm-up on a busy machine: C1-only is ~2x faster.
FAST_JVM = {"JAVA_TOOL_OPTIONS": "-XX:TieredStopAtLevel=1"}


def _jvm(ctx: Ctx) -> dict:
    return dict(FAST_JVM) if ctx.quick else {}


def cfg_text(*, spec: str = "Spec", constants: dict | None = None, invariants=(), constraint=(),
             postcondition: str | None = None, deadlock: bool = False) -> str:
    lines = [f"SPECIFICATION {spec}"]
    if constants:
        lines.append("CONSTANTS")
        for k, v in constants.items():
            lines.append(f"  {k} = {tla_value(v)}")
    lines += [f"INVARIANT {i}" for i in invariants]
    lines += [f"CONSTRAINT {c}" for c in constraint]
    if postcondition:
        lines.append(f"POSTCONDITION {postcondition}")
    lines.append(f"CHECK_DEADLOCK {'TRUE' if deadlock else 'FALSE'}")
    return "\n".join(lines) + "\n"


def strset(*xs: str) -> frozenset:
    return frozenset(xs)


def model_check(ctx: Ctx, wd: Path, module: str, name: str, constants: dict, invariants, *, timeout: int = 900,
                spec: str = "Spec", constraint=(), deadlock: bool = False, workers: int | str = "auto") -> TlcResult:
    """Exhaustive TLC run of the intended model; failure of its own invariants is a machinery failure."""
    r = run_tlc(wd, module, cfg_text(spec=spec, constants=constants, invariants=invariants, constraint=constraint,
                                     deadlock=deadlock),
                timeout=timeout, cfg_name=f"{module}_{name}.cfg", workers=workers, env=_jvm(ctx))
    ctx.add_tlc(f"{module}:{name}", r)
    require_ok(r, f"{module} model checking ({name})")
    return r


def validate_traces(ctx: Ctx, wd: Path, module: str, traces: list[dict], constants: dict, *, chunk: int = 15000,
                    timeout: int = 1800, spec: str = "TraceSpec", constraint=("Constr",),
                    postcondition: str = "Report") -> list[dict]:
    """TLC validates every trace against <module> (a *Trace spec).  Returns one verdict per trace that was not
    (accepted and clause-clean): {i (0-based), matched, len, accepted, bad:[clauses]}."""
    sany(wd, module)
    out: list[dict] = []
    for off in range(0, len(traces), chunk):
        part = traces[off:off + chunk]
        f = wd / f"traces_{module}_{off}.json"
        f.write_text(json.dumps(part))
        r = run_tlc(wd, module, cfg_text(spec=spec, constants=constants, constraint=constraint,
                                         postcondition=postcondition),
                    workers=1, timeout=timeout, env={"TRACE_FILE": str(f), **_jvm(ctx)},
                    cfg_name=f"{module}_trace.cfg")
        ctx.add_tlc(f"{module}:traces[{off}:{off + len(part)}]", r)
        require_ok(r, f"{module} trace validation")
        seen = set()
        for j in r.json_lines:
            i = off + int(j["i"]) - 1
            seen.add(i)
            out.append({"i": i, "matched": j["matched"], "len": j["len"], "accepted": bool(j["accepted"]),
                        "bad": sorted(j["bad"])})
        ctx.traces_validated += len(part) - len([1 for j in r.json_lines if not j["accepted"]])
        f.unlink()
    return out
