----------------------------------- MODULE Xfcc -----------------------------------
(* C43 -- x-forwarded-client-cert: reference tokenizer and the identity-extraction oracle.

   Header values are sequences over the delimiter alphabet
        ","  ";"  "="  "q" (double quote)  "b" (backslash)  "k" (key letter)  "v" (value character)
   plus the percent-escapes of the delimiters as single symbols
        "E," = %2C   "E;" = %3B   "E=" = %3D   "Eq" = %22   "Eb" = %5C        (upper or lower case hex)
   and "w", one whitespace character (space or tab).  Inside a quoted value "w" is an ordinary character (a DN such as
   "CN=John Smith, O=x"); directly before a key it is optional white space after the "," / ";" that precedes it (HTTP
   list syntax, what a proxy that joins two header lines with ", " produces) -- a header using that is still
   grammar-valid but judged with the one-sided clauses only ("valid_ows"); anywhere else it is outside the grammar.
   The percent-escapes are ORDINARY VALUE CHARACTERS: a percent-escape never separates elements or pairs, never opens or closes a
   quoted value and never escapes anything, in whatever field it occurs (Cert/URI/By are URL-decoded only after the
   header has been split).  The grammar (Envoy XFCC) is defined on the characters themselves, by a left-to-right scanner:

        header  ::= element ("," element)*            element ::= pair (";" pair)*
        pair    ::= key "=" value                     key     ::= "k"+
        value   ::= unquoted | quoted                 unquoted::= ("k" | "v" | "=" | ESC)*
        quoted  ::= q ( "k" | "v" | "=" | "," | ";" | ESC | b ANY )* q    (b ANY: an escaped character)

   A value is reported as a sequence of tokens: a letter at position i is the token ToString(i) (so every letter of
   the header has its own identity and "which element did this come from" is decidable), a delimiter is itself, the
   enclosing quotes and every escaping backslash are removed (an escaped backslash contributes nothing: values
   are compared modulo backslashes because the statement does not define unescaping beyond the escaped quote).
   A percent-escape is reported as the delimiter it encodes (values are compared modulo URL-decoding, which the
   statement does not assign to particular fields); %5C, an encoded backslash, contributes nothing.

   Only grammar-valid headers are compared field by field ("never split or merge"); every other string must merely
   never raise anything but AuthFailure (decided by the driver as a harness-level fact).                         *)
EXTENDS Naturals, Sequences, FiniteSets, TLC

CONSTANTS MaxLen,         \* every string over Alphabet up to this length is a case
          TailLen,        \* ... and every string  k = t  with t over Alphabet up to this length (every grammar-valid
                          \*     header starts with a key; this reaches valid headers two characters longer)
          Alphabet,       \* the delimiter alphabet used for those two exhaustive parts
          EscAlphabet,    \* percent-escape symbols (subset of Esc) ...
          EscTailLen,     \* ... every string  k = t  with t over Alphabet \cup EscAlphabet up to this length
          FamilyDepth     \* 0: no structured family; 1: one/two elements; 2: also three elements

Letter(ch) == ch \in {"k", "v"}
Esc == {"E,", "E;", "E=", "Eq", "Eb"}
EscTok(ch) == CASE ch = "E," -> "," [] ch = "E;" -> ";" [] ch = "E=" -> "=" [] ch = "Eq" -> "q" [] OTHER -> "b"
Tok(ch, i) == IF Letter(ch) THEN ToString(i) ELSE IF ch \in Esc THEN EscTok(ch) ELSE ch
Add(val, ch, i) == IF ch = "Eb" THEN val ELSE Append(val, Tok(ch, i))      \* value after one more ordinary character

\* ------------------------------------------------------------------ the scanner
St0 == [ok |-> TRUE, mode |-> "key0", elems |-> <<>>, pairs |-> <<>>, kpos |-> 0, klen |-> 0, val |-> <<>>, ows |-> FALSE]
Fail(st)      == [st EXCEPT !.ok = FALSE]
ClosePair(st) == [st EXCEPT !.pairs = Append(@, [kpos |-> st.kpos, klen |-> st.klen, val |-> st.val]),
                            !.val = <<>>, !.mode = "key0"]
CloseElem(st) == LET p == ClosePair(st) IN [p EXCEPT !.elems = Append(@, p.pairs), !.pairs = <<>>]

Step(st, ch, i) ==
  CASE st.mode = "key0" -> IF ch = "k" THEN [st EXCEPT !.mode = "key", !.kpos = i, !.klen = 1]
                           ELSE IF ch = "w" THEN [st EXCEPT !.ows = TRUE]              \* optional white space before a key
                           ELSE Fail(st)
    [] st.mode = "key"  -> IF ch = "k" THEN [st EXCEPT !.klen = @ + 1]
                           ELSE IF ch = "=" THEN [st EXCEPT !.mode = "val0", !.val = <<>>]
                           ELSE Fail(st)
    [] st.mode = "val0" -> IF ch = "q" THEN [st EXCEPT !.mode = "qval"]
                           ELSE IF ch \in {"k", "v", "="} \cup Esc THEN [st EXCEPT !.mode = "uval", !.val = Add(<<>>, ch, i)]
                           ELSE IF ch = ";" THEN ClosePair(st)
                           ELSE IF ch = "," THEN CloseElem(st)
                           ELSE Fail(st)                                         \* backslash outside quotes
    [] st.mode = "uval" -> IF ch \in {"k", "v", "="} \cup Esc THEN [st EXCEPT !.val = Add(@, ch, i)]
                           ELSE IF ch = ";" THEN ClosePair(st)
                           ELSE IF ch = "," THEN CloseElem(st)
                           ELSE Fail(st)                                         \* quote / backslash inside an unquoted value
    [] st.mode = "qval" -> IF ch = "q" THEN [st EXCEPT !.mode = "qend"]
                           ELSE IF ch = "b" THEN [st EXCEPT !.mode = "qesc"]
                           ELSE [st EXCEPT !.val = Add(@, ch, i)]                \* "," ";" "=" and escapes are ordinary here
    [] st.mode = "qesc" -> [st EXCEPT !.mode = "qval", !.val = IF ch = "b" THEN @ ELSE Add(@, ch, i)]
    [] st.mode = "qend" -> IF ch = ";" THEN ClosePair(st)
                           ELSE IF ch = "," THEN CloseElem(st)
                           ELSE Fail(st)                                         \* junk after the closing quote
    [] OTHER -> Fail(st)

RECURSIVE Scan(_, _, _)
Scan(s, i, st) == IF ~st.ok \/ i > Len(s) THEN st ELSE Scan(s, i + 1, Step(st, s[i], i))
Parse(s) == LET st == Scan(s, 1, St0) IN
            IF st.ok /\ st.mode \in {"val0", "uval", "qend"} THEN [ok |-> TRUE, elems |-> CloseElem(st).elems, ows |-> st.ows]
            ELSE [ok |-> FALSE, elems |-> <<>>, ows |-> FALSE]

\* ------------------------------------------------------------------ case space
RECURSIVE StrUpToA(_, _)
StrUpToA(n, A) == IF n = 0 THEN {<<>>}
                  ELSE LET prev == StrUpToA(n - 1, A) IN prev \cup {Append(s, ch) : s \in prev, ch \in A}
StrUpTo(n) == StrUpToA(n, Alphabet)

\* structured family: longer grammar-valid headers than the exhaustive bound reaches -- quoted values that contain
\* what looks like further pairs / elements, escaped quotes, escaped backslashes before the closing quote
ValsA == { <<"v">>, <<"v", "=", "v">>, <<"q", "q">>, <<"q", "v", "q">>,
           <<"q", "v", ",", "k", "=", "v", "q">>,            \* "v,k=v"     looks like a second element
           <<"q", "v", ";", "k", "=", "v", "q">>,            \* "v;k=v"     looks like a second pair
           <<"q", "v", "b", "q", ",", "k", "=", "v", "q">>,  \* "v\",k=v"   escaped quote then a fake element
           <<"q", "v", "b", "b", "q">>,                      \* "v\\"       escaped backslash right before the closing quote
           <<"q", "b", "q", "q">>,                           \* "\""
           <<"q", "k", "=", "v", ",", "k", "=", "v", "q">>,  \* "k=v,k=v"   a DN-like value
           \* percent-escaped delimiters inside a value (an attacker-chosen URI SAN / DN): never live delimiters
           <<"v", "E;", "k", "E=", "Eq", "k", "E=", "v", "Eq">>,   \* v%3Bk%3D%22k%3Dv%22   would inject a pair  k="k=v"
           <<"v", "E,", "k", "E=", "v">>,                          \* v%2Ck%3Dv             would inject an element
           <<"q", "v", "Eq", "E,", "k", "E=", "v", "q">>,          \* "v%22%2Ck%3Dv"        would close the quote early
           <<"q", "v", "Eb", "q">> }                               \* "v%5C"                would escape the closing quote
ValsB == { <<"v">>, <<"q", "v", ",", "v", "q">>, <<"q", "b", "q", ";", "v", "q">>, <<>> }
PairOf(v) == <<"k", "=">> \o v
E1 == {PairOf(v) : v \in ValsA}
E2 == {PairOf(a) \o <<";">> \o PairOf(b) : a \in ValsB, b \in ValsB}
Elems == E1 \cup E2
E3 == {PairOf(<<"v">>), PairOf(<<"q", "v", ",", "v", "q">>), PairOf(<<"q", "b", "q", "q">>)}
\* white space: inside quoted values (interior and at the edges), and as optional space after a separator
EW == {PairOf(<<"q", "v", "w", "v", "q">>), PairOf(<<"q", "w", "v", ",", "w", "v", "w", "q">>), PairOf(<<"v">>)}
Family == IF FamilyDepth = 0 THEN {}
          ELSE Elems \cup {a \o <<",">> \o b : a \in Elems, b \in Elems}
               \cup {a \o <<",">> \o b \o <<",">> \o c : a \in E3, b \in E3, c \in E3}    \* first / middle / last differ
               \cup EW \cup {a \o <<",", "w">> \o b : a \in EW, b \in EW} \cup {a \o <<";", "w">> \o b : a \in EW, b \in EW}
               \cup (IF FamilyDepth >= 2 THEN {a \o <<",">> \o b \o <<",">> \o c : a \in E1, b \in E2, c \in E1} ELSE {})

KeyedTails == {<<"k", "=">> \o t : t \in StrUpTo(TailLen) \cup StrUpToA(EscTailLen, Alphabet \cup EscAlphabet)}
Cases == {[k |-> "absent", s |-> <<>>]} \cup {[k |-> "str", s |-> s] : s \in StrUpTo(MaxLen) \cup KeyedTails \cup Family}

OnlyCommas(s) == Len(s) >= 1 /\ \A i \in 1..Len(s) : s[i] = ","
ClassP(c, P) == IF c.k = "absent" THEN "absent"
                ELSE IF c.s = <<>> THEN "emptystr"
                ELSE IF OnlyCommas(c.s) THEN "noelem"
                ELSE IF P.ok THEN (IF P.ows THEN "valid_ows" ELSE "valid") ELSE "invalid"
Class(c) == ClassP(c, Parse(c.s))
Expected(c) == LET P == Parse(c.s) IN [cls |-> ClassP(c, P), elems |-> P.elems]

\* ------------------------------------------------------------------ table sanity: an independent reading of quoting
RECURSIVE QState(_, _)        \* lexical state just before position i, by quote parity with escapes
QState(s, i) == IF i = 1 THEN "out"
                ELSE LET p == QState(s, i - 1)  ch == s[i - 1] IN
                     IF p = "esc" THEN "in"
                     ELSE IF p = "in" THEN (IF ch = "q" THEN "out" ELSE IF ch = "b" THEN "esc" ELSE "in")
                     ELSE (IF ch = "q" THEN "in" ELSE "out")
Top(s, d) == {i \in 1..Len(s) : s[i] = d /\ QState(s, i) = "out"}
Valid(c) == c.k = "str" /\ Parse(c.s).ok
NPairs(es) == LET RECURSIVE Sum(_) Sum(j) == IF j = 0 THEN 0 ELSE Len(es[j]) + Sum(j - 1) IN Sum(Len(es))
IsPos(t) == t \notin {",", ";", "=", "q", "b", "w", "?"}
ValPos(p) == {p.val[j] : j \in {x \in 1..Len(p.val) : IsPos(p.val[x])}}
KeyPos(p) == {ToString(i) : i \in p.kpos..(p.kpos + p.klen - 1)}
ElemPos(e) == UNION {ValPos(e[j]) \cup KeyPos(e[j]) : j \in 1..Len(e)}

\* (each invariant parses once: P == Parse(c.s))
\* elements are separated exactly by the commas outside quotes, pairs by the semicolons outside quotes
ElemsAreTopLevelCommas(c) == c.k = "str" => LET P == Parse(c.s) IN P.ok => Len(P.elems) = Cardinality(Top(c.s, ",")) + 1
PairsAreTopLevelSemis(c)  == c.k = "str" => LET P == Parse(c.s) IN
                             P.ok => NPairs(P.elems) = Cardinality(Top(c.s, ",")) + Cardinality(Top(c.s, ";")) + 1
\* no letter is lost, none is attributed to two elements
EveryLetterOnce(c) == c.k = "str" => LET P == Parse(c.s)  es == P.elems IN P.ok =>
      /\ UNION {ElemPos(es[j]) : j \in 1..Len(es)} = {ToString(i) : i \in {x \in 1..Len(c.s) : Letter(c.s[x])}}
      /\ \A a, b \in 1..Len(es) : a # b => ElemPos(es[a]) \cap ElemPos(es[b]) = {}
NonEmptyElems(c) == c.k = "str" => LET P == Parse(c.s)  es == P.elems IN
                    P.ok => (Len(es) >= 1 /\ \A j \in 1..Len(es) : Len(es[j]) >= 1)
\* a quote never appears in a reported value unless it was escaped
QuotesOnlyEscaped(c) == c.k = "str" => LET P == Parse(c.s)  es == P.elems IN P.ok =>
    \A j \in 1..Len(es) : \A p \in 1..Len(es[j]) :
        Cardinality({x \in 1..Len(es[j][p].val) : es[j][p].val[x] = "q"})
          <= Cardinality({i \in 1..Len(c.s) : (c.s[i] = "q" /\ QState(c.s, i) = "esc") \/ c.s[i] = "Eq"})

\* ------------------------------------------------------------------ judging what the real code did
(* observation o (one per concrete header value):  [names, first, last]; first/last = [vout, el, dout, df] observed
   with select_element = "first" / "last"
     names   sequence as long as the header: names[i] = the key name the driver wrote for the key starting at i
             ("subject" "uri" "hash" "by" "cert" "dns"; "" elsewhere) -- a key longer than one letter is an unknown key
     vout    outcome of the authenticator built with validate=<capture>:  "ok" | AuthFailure reason | "raised:<Type>"
     el      captured XfccElement: [subject, uri, hash, by, cert: <<>> (None) or <<value>>, dns: sequence of values]
     dout    outcome of the default authenticator (no validate)
     df      [principal: value, subject, uri, hash, by: <<>> or <<value>>, dns: sequence of values]  from AuthContext
   values are token sequences as produced by the scanner (the driver maps every concrete chunk back to its position;
   text it cannot attribute becomes the token "?").                                                              *)
Bad(name, cond) == IF cond THEN {} ELSE {name}
Single == {"subject", "uri", "hash", "by", "cert"}
NameOf(p, o) == IF p.klen = 1 THEN o.names[p.kpos] ELSE "other"
Vals(e, n, o) == {e[j].val : j \in {x \in 1..Len(e) : NameOf(e[x], o) = n}}
DnsSeq(e, o) == LET idx == {x \in 1..Len(e) : NameOf(e[x], o) = "dns"}
                    RECURSIVE Build(_) Build(j) == IF j > Len(e) THEN <<>>
                                                   ELSE (IF j \in idx THEN <<e[j].val>> ELSE <<>>) \o Build(j + 1)
                IN Build(1)
\* a single-valued field: absent/empty when the element has no such pair; otherwise the value of one of its pairs
\* (the statement is silent on duplicate keys: any of them is admissible)
\* white space at the edges of a value may or may not be kept (the statement does not say); interior white space is content
RECURSIVE TrimL(_)
TrimL(v) == IF v # <<>> /\ v[1] = "w" THEN TrimL(Tail(v)) ELSE v
RECURSIVE TrimR(_)
TrimR(v) == IF v # <<>> /\ v[Len(v)] = "w" THEN TrimR(SubSeq(v, 1, Len(v) - 1)) ELSE v
Trim(v) == TrimR(TrimL(v))
RECURSIVE TrimAll(_)
TrimAll(q) == IF q = <<>> THEN <<>> ELSE <<Trim(Head(q))>> \o TrimAll(Tail(q))
FieldOK(e, n, f, o) == LET vs == {Trim(v) : v \in Vals(e, n, o)} IN
                       IF vs = {} THEN f = <<>> \/ f = << <<>> >>
                       ELSE (f # <<>> /\ Trim(f[1]) \in vs) \/ (f = <<>> /\ <<>> \in vs)
Range(q) == {q[j] : j \in 1..Len(q)}
PosIn(v) == {v[j] : j \in {x \in 1..Len(v) : IsPos(v[x])}}

FieldPos(f) == IF f = <<>> THEN {} ELSE PosIn(f[1])
DnsPos(d) == UNION {PosIn(d[j]) : j \in 1..Len(d)}

\* one select_element value: r = [vout, dout, el, df], o carries the key names
One(c, P, cls, o, r, sel) ==
  IF cls = "absent" THEN
         Bad("MissingIsProxyRequired", r.vout = "proxy_required" /\ r.dout = "proxy_required")
  ELSE IF cls = "emptystr" THEN      \* "" : the statement does not say whether that is "missing" or "empty"
         Bad("EmptyIsRejected", r.vout \in {"proxy_required", "invalid_credential"} /\ r.dout \in {"proxy_required", "invalid_credential"})
  ELSE IF cls = "noelem" THEN        \* present, but no element at all
         Bad("EmptyIsInvalidCredential", r.vout = "invalid_credential" /\ r.dout = "invalid_credential")
  ELSE IF cls = "valid" THEN
    LET e == IF sel = "first" THEN P.elems[1] ELSE P.elems[Len(P.elems)]
        mine == ElemPos(e)
        seenV == UNION {FieldPos(r.el[n]) : n \in Single} \cup DnsPos(r.el.dns)
        seenD == UNION {FieldPos(r.df[n]) : n \in Single \ {"cert"}} \cup DnsPos(r.df.dns) \cup PosIn(r.df.principal)
    IN   Bad("ValidAccepted",            r.vout = "ok" /\ r.dout = "ok")
    \cup Bad("OnlyFromSelectedElement",  (r.vout = "ok" => seenV \subseteq mine) /\ (r.dout = "ok" => seenD \subseteq mine))
    \cup Bad("FieldsOfSelectedElement",  r.vout = "ok" => /\ \A n \in Single : FieldOK(e, n, r.el[n], o)
                                                          /\ TrimAll(r.el.dns) = TrimAll(DnsSeq(e, o)))
    \cup Bad("ClaimsOfSelectedElement",  r.dout = "ok" => /\ \A n \in Single \ {"cert"} : FieldOK(e, n, r.df[n], o)
                                                          /\ TrimAll(r.df.dns) = TrimAll(DnsSeq(e, o)))
    \cup Bad("PrincipalFromSubject",     r.dout = "ok" => PosIn(r.df.principal) \subseteq UNION {PosIn(v) : v \in Vals(e, "subject", o)})
  ELSE IF cls = "valid_ows" THEN     \* optional white space after separators: only the one-sided clauses
    LET e == IF sel = "first" THEN P.elems[1] ELSE P.elems[Len(P.elems)]
        mine == ElemPos(e)
        seenV == UNION {FieldPos(r.el[n]) : n \in Single} \cup DnsPos(r.el.dns)
        seenD == UNION {FieldPos(r.df[n]) : n \in Single \ {"cert"}} \cup DnsPos(r.df.dns) \cup PosIn(r.df.principal)
    IN   Bad("OnlyFromSelectedElement",  (r.vout = "ok" => seenV \subseteq mine) /\ (r.dout = "ok" => seenD \subseteq mine))
    \cup Bad("PrincipalFromSubject",     r.dout = "ok" => PosIn(r.df.principal) \subseteq UNION {PosIn(v) : v \in Vals(e, "subject", o)})
  ELSE {}        \* "invalid": only "never raises anything but AuthFailure", decided by the driver

\* o = [names, first, last]; a failed clause is reported as "<clause>@first" / "<clause>@last"
Conforms(c, o) ==
  LET P == Parse(c.s)
      cls == ClassP(c, P) IN
       {x \o "@first" : x \in One(c, P, cls, o, o.first, "first")}
  \cup {x \o "@last"  : x \in One(c, P, cls, o, o.last, "last")}
=====================================================================================
