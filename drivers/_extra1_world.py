"""World for the extended-coverage checks X01 (dispatch-hook life cycle) and X02 (CallStatistics accounting).

* a service generated from the spec's method table (HookLife!Methods / CallStats!Methods as JSON) whose every
  implementation entry point appends an event to one totally ordered recorder (method body, process() step, on_cancel,
  "about to raise" faults),
* recording dispatch hooks (`RecHook`) with a chosen behaviour ("ok", "rs" start raises, "re" end raises) registered
  through the repo's own `_register_dispatch_hook` (the path vgi_rpc.otel / vgi_rpc.sentry use), which append their
  start / end calls (token identity, error type, CallStatistics snapshot) to the same recorder,
* connections: a real pipe pair served by `RpcServer.serve` in a thread, and the in-process HTTP client
  (`make_sync_client` + `http_connect`), both with a byte tap on the client side of the wire,
* `run_script`: drives one client script through the real client proxy and records the client-observable history in
  the spec vocabulary plus a detailed history (values, error types and messages) for the transparency comparison.

No source hooks: everything is observed through the hook extension point itself, the implementation classes the harness
owns, a logging.Handler and wrapper objects around the transport / HTTP client."""
import io
import logging
import re
import threading
import warnings
from dataclasses import dataclass

import pyarrow as pa

from vf import world
from vgi_rpc.log import Level
from vgi_rpc.rpc import (AnnotatedBatch, CallContext, ExchangeState, OutputCollector, ProducerState, RpcConnection,
                         RpcError, RpcServer, Stream, make_pipe_pair)
from vgi_rpc.rpc._common import _current_call_stats, _register_dispatch_hook
from vgi_rpc.rpc._transport import PipeTransport
from vgi_rpc.utils import ArrowSerializableDataclass

warnings.filterwarnings("ignore")
OUT = pa.schema([pa.field("v", pa.int64())])
INP = pa.schema([pa.field("a", pa.int64())])
_LOCK = threading.Lock()
EVENTS: list = []          # the one recorder (server thread over a pipe, caller's thread over in-process HTTP)
TABLE: dict = {}           # method name -> method record (process() steps are looked up here: HTTP states are rebuilt)
_STEP = re.compile(r"^(?:l(\d))?(?:(e)(\d)|(emit)|(fin)|(raise))$")


def ev(kind: str, h: int = 0, m: str = "", tok: int = 0, err: str = "none", raised: bool = False, **extra) -> None:
    e = {"ev": kind, "h": h, "m": m, "tok": tok, "err": err, "raised": raised}
    e.update(extra)
    with _LOCK:
        EVENTS.append(e)


def take_events() -> list:
    with _LOCK:
        out = list(EVENTS)
        del EVENTS[:]
    return out


def parse_step(s: str) -> dict:
    """"emit" | "fin" | "raise" | "l<j>e<r>" | "l<j>fin" | "l<j>raise" | "e<r>" -> {logs, act, rows}"""
    mt = _STEP.match(s)
    if not mt:
        raise ValueError(f"bad step {s!r}")
    logs = int(mt.group(1) or 0)
    if mt.group(2):
        return {"logs": logs, "act": "emit", "rows": int(mt.group(3))}
    if mt.group(4):
        return {"logs": logs, "act": "emit", "rows": 1}
    return {"logs": logs, "act": "fin" if mt.group(5) else "raise", "rows": 0}


def step_of(m: dict, k: int) -> str:
    steps = m["steps"]
    return steps[k - 1] if k <= len(steps) else ("fin" if m["k"] == "prod" else "emit")


def stats_snapshot() -> dict | None:
    s = _current_call_stats.get()
    if s is None:
        return None
    return {"ib": s.input_batches, "ob": s.output_batches, "ir": s.input_rows, "orows": s.output_rows,
            "iby": s.input_bytes, "oby": s.output_bytes, "id": id(s)}


# ------------------------------------------------------------------------------------------ service
@dataclass
class Hdr(ArrowSerializableDataclass):
    n: int


def _process(state, out: OutputCollector, ctx: CallContext, inp) -> None:
    state.k += 1
    m = TABLE[state.m]
    sp = parse_step(step_of(m, state.k))
    ev("proc", m=state.m, tok=state.k, stats=stats_snapshot())
    for j in range(sp["logs"]):
        ctx.client_log(Level.INFO, f"log {j + 1} of step {state.k} for {state.x}")
    if sp["act"] == "raise":
        ev("fault", m=state.m, err="ValueError")
        raise ValueError(f"process boom x={state.x} step={state.k}")
    if sp["act"] == "emit":
        state.nd += 1
        out.emit_pydict({"v": [state.x * 100 + state.nd] * sp["rows"]})
    else:
        out.finish()


@dataclass
class PS(ProducerState):
    x: int
    m: str
    k: int = 0
    nd: int = 0

    def produce(self, out: OutputCollector, ctx: CallContext) -> None:
        _process(self, out, ctx, None)

    def on_cancel(self, ctx: CallContext) -> None:
        ev("cancel", m=self.m)


@dataclass
class XS(ExchangeState):
    x: int
    m: str
    k: int = 0
    nd: int = 0

    def exchange(self, input: AnnotatedBatch, out: OutputCollector, ctx: CallContext) -> None:
        _process(self, out, ctx, input)

    def on_cancel(self, ctx: CallContext) -> None:
        ev("cancel", m=self.m)


def build(methods: list[dict], version_mismatch: bool = False):
    """methods: the spec's Methods as JSON.  Returns (ServerProtocol, Impl instance, ClientProtocol)."""
    TABLE.clear()
    src_s, src_c, src_i = [], [], []
    for m in sorted(methods, key=lambda z: z["n"]):
        n = m["n"]
        TABLE[n] = m
        if n == "__describe__":     # built into the framework, not part of the generated protocol
            continue
        if m["k"] == "unary":
            ret_p = ret_i = "int"
        else:
            base = "ProducerState" if m["k"] == "prod" else "ExchangeState"
            conc = "PS" if m["k"] == "prod" else "XS"
            ret_p = f"Stream[{base}, Hdr]" if m["hdr"] else f"Stream[{base}]"
            ret_i = f"Stream[{conc}, Hdr]" if m["hdr"] else f"Stream[{conc}]"
        cparam = "x: str" if m["badp"] else "x: int"
        src_c.append(f"    def {n}(self, {cparam}) -> {ret_p}: ...")
        if not m["known"]:
            continue
        src_s.append(f"    def {n}(self, x: int) -> {ret_p}: ...")
        body = [f"    def {n}(self, x: int, ctx: CallContext) -> {ret_i}:", f"        EV('body', m='{n}', stats=SNAP())"]
        if m["k"] == "unary":
            if m["u"] in ("logok", "lograise"):
                body += ["        ctx.client_log(LEVEL, f'log1 for {x}')", "        ctx.client_log(LEVEL, f'log2 for {x}')"]
            if m["u"] in ("raise", "lograise"):
                body += [f"        EV('fault', m='{n}', err='ValueError')", "        raise ValueError(f'unary boom x={x}')"]
            else:
                body.append("        return x")
        else:
            if m["init"] in ("logok", "lograise"):
                body.append("        ctx.client_log(LEVEL, f'init log for {x}')")
            if m["init"] in ("raise", "lograise"):
                body += [f"        EV('fault', m='{n}', err='ValueError')", "        raise ValueError(f'init boom x={x}')"]
            else:
                st = "PS" if m["k"] == "prod" else "XS"
                hdr = "Hdr(n=x)" if m["hdr"] else "None"
                inp = "" if m["k"] == "prod" else ", input_schema=INP"
                body.append(f"        return Stream(output_schema=OUT, state={st}(x=x, m='{n}'){inp}, header={hdr})")
        src_i += body
    ver_s = "    protocol_version: ClassVar[str] = '2.0.0'\n" if version_mismatch else ""
    ver_c = "    protocol_version: ClassVar[str] = '1.0.0'\n" if version_mismatch else ""
    code = ("from typing import ClassVar, Protocol\n"
            "class ExtSvc(Protocol):\n" + ver_s + "\n".join(src_s) + "\n"
            "class ExtClientSvc(Protocol):\n" + ver_c + "\n".join(src_c) + "\n"
            "class Impl:\n" + "\n".join(src_i) + "\n")
    ns = {"Stream": Stream, "ProducerState": ProducerState, "ExchangeState": ExchangeState, "Hdr": Hdr,
          "CallContext": CallContext, "PS": PS, "XS": XS, "OUT": OUT, "INP": INP, "EV": ev, "SNAP": stats_snapshot,
          "LEVEL": Level.INFO}
    exec(compile(code, "<extra1-world>", "exec"), ns)  # noqa: S102 - generated from the spec's method table
    ns["ExtClientSvc"].__name__ = "ExtSvc"   # same protocol name on the wire
    return ns["ExtSvc"], ns["Impl"](), ns["ExtClientSvc"]


# ------------------------------------------------------------------------------------------ hooks
class _Tok:
    __slots__ = ("hook", "serial")

    def __init__(self, hook, serial: int) -> None:
        self.hook, self.serial = hook, serial


class HookBoom(RuntimeError):
    pass


class RecHook:
    """A dispatch hook that records how it is called.  beh: "ok" | "rs" (start raises) | "re" (end raises)."""

    def __init__(self, idx: int, beh: str, counter: list) -> None:
        self.idx, self.beh, self.counter = idx, beh, counter

    def on_dispatch_start(self, info, auth, transport_metadata, kwargs):
        self.counter[0] += 1
        serial = self.counter[0]
        ev("start", h=self.idx, m=info.name, tok=serial, raised=self.beh == "rs", stats=stats_snapshot())
        if self.beh == "rs":
            raise HookBoom(f"hook {self.idx} start failed")
        return _Tok(self, serial)

    def on_dispatch_end(self, token, info, error, *, stats=None):
        serial = token.serial if isinstance(token, _Tok) and token.hook is self else -1
        cur = _current_call_stats.get()
        ev("end", h=self.idx, m=info.name, tok=serial, err="none" if error is None else type(error).__name__,
           raised=self.beh == "re", errtext="" if error is None else str(error)[:120],
           stats=None if stats is None else {"ib": stats.input_batches, "ob": stats.output_batches,
                                            "ir": stats.input_rows, "orows": stats.output_rows,
                                            "iby": stats.input_bytes, "oby": stats.output_bytes, "id": id(stats)},
           same_as_current=cur is stats)
        if self.beh == "re":
            raise HookBoom(f"hook {self.idx} end failed")


def install_hooks(server: RpcServer, behaviours: list[str]) -> list:
    counter = [0]
    hooks = [RecHook(i + 1, b, counter) for i, b in enumerate(behaviours)]
    for h in hooks:
        server._dispatch_hook = _register_dispatch_hook(server._dispatch_hook, h)
    return counter


# ------------------------------------------------------------------------------------------ wire taps
class _TeeReader(io.RawIOBase):
    def __init__(self, inner, sink: bytearray) -> None:
        self._inner, self._sink = inner, sink

    def readable(self) -> bool:
        return True

    def read(self, n: int = -1) -> bytes:
        b = self._inner.read(n)
        if b:
            self._sink += b
        return b

    def readinto(self, buf) -> int:
        b = self._inner.read(len(buf))
        if not b:
            return 0
        buf[:len(b)] = b
        self._sink += b
        return len(b)

    def close(self) -> None:
        try:
            self._inner.close()
        finally:
            super().close()


class _TeeWriter(io.RawIOBase):
    def __init__(self, inner, sink: bytearray) -> None:
        self._inner, self._sink = inner, sink

    def writable(self) -> bool:
        return True

    def write(self, b) -> int:
        data = bytes(b)
        self._sink += data
        self._inner.write(data)
        return len(data)

    def flush(self) -> None:
        if not self.closed:
            self._inner.flush()

    def close(self) -> None:
        try:
            self._inner.close()
        finally:
            super().close()


class AccessCapture(logging.Handler):
    """Handler on the ``vgi_rpc.access`` logger: keeps the stats fields of every record, in the event recorder."""

    def emit(self, record: logging.LogRecord) -> None:
        d = record.__dict__
        if "input_batches" not in d:
            st = None
        else:
            st = {"ib": d["input_batches"], "ob": d["output_batches"], "ir": d["input_rows"], "orows": d["output_rows"],
                  "iby": d["input_bytes"], "oby": d["output_bytes"]}
        ev("alog", m=str(d.get("method", "")), err=str(d.get("status", "")), stats=st,
           cancelled=bool(d.get("cancelled", False)), mtype=str(d.get("method_type", "")))


_CAP = AccessCapture(level=logging.DEBUG)


def install_logging(access: bool) -> None:
    root = logging.getLogger("vgi_rpc")
    if not getattr(install_logging, "_done", False):
        root.addHandler(logging.NullHandler())
        root.propagate = False
        install_logging._done = True
    acc = logging.getLogger("vgi_rpc.access")
    acc.propagate = False
    if access:
        if _CAP not in acc.handlers:
            acc.addHandler(_CAP)
        acc.setLevel(logging.INFO)
    else:
        if _CAP in acc.handlers:
            acc.removeHandler(_CAP)
        acc.setLevel(logging.WARNING)


# ------------------------------------------------------------------------------------------ connections
class PipeConn:
    """One fresh real pipe connection served by RpcServer.serve in a thread (client side of the wire tapped)."""

    http = False

    def __init__(self, server_proto, impl, client_proto, behaviours: list[str], tap: bool = False) -> None:
        self.server = RpcServer(server_proto, impl, enable_describe=True)
        self.counter = install_hooks(self.server, behaviours)
        ct, self.st = make_pipe_pair()
        self.c2s, self.s2c = bytearray(), bytearray()
        self.ct = PipeTransport(_TeeReader(ct.reader, self.s2c), _TeeWriter(ct.writer, self.c2s)) if tap else ct
        self.died: list = []

        def serve():
            try:
                self.server.serve(self.st)
            except BaseException as e:  # noqa: BLE001
                self.died.append(repr(e))

        self.th = threading.Thread(target=serve, daemon=True)
        self.th.start()
        self.conn = RpcConnection(client_proto, self.ct)
        self.px = self.conn.__enter__()

    def marks(self) -> tuple[int, int]:
        return len(self.c2s), len(self.s2c)

    def drop(self) -> None:
        for f in (self.ct.writer, self.ct.reader):
            try:
                f.close()
            except Exception:  # noqa: BLE001
                pass

    def describe(self):
        from vgi_rpc.introspect import introspect

        return introspect(self.ct)

    def close(self, join_timeout: float = 10.0) -> bool:
        """Close the client side; returns whether the serve loop ended (EOF) within join_timeout."""
        try:
            self.conn.__exit__(None, None, None)
        except Exception:  # noqa: BLE001
            pass
        try:
            self.ct.writer.close()
        except Exception:  # noqa: BLE001
            pass
        self.th.join(join_timeout)
        if self.th.is_alive():
            return False
        for t in (self.ct, self.st):
            try:
                t.close()
            except Exception:  # noqa: BLE001
                pass
        return True


class _TapClient:
    """Wrapper around the in-process sync client: records request / response bodies of every POST."""

    def __init__(self, inner) -> None:
        self._inner = inner
        self.prefix = inner.prefix
        self.log: list = []

    def post(self, url, **kw):
        r = self._inner.post(url, **kw)
        self.log.append({"url": url, "req": kw.get("content", b""), "status": r.status_code, "resp": r.content,
                         "req_headers": dict(kw.get("headers") or {})})
        return r

    def __getattr__(self, name):
        return getattr(self._inner, name)


class HttpConn:
    """In-process HTTP deployment (one worker); reusable across scripts (every request is independent)."""

    http = True

    def __init__(self, server_proto, impl, client_proto, behaviours: list[str], **kw) -> None:
        from vgi_rpc.http import http_connect
        from vgi_rpc.http._testing import make_sync_client

        self.server = RpcServer(server_proto, impl, enable_describe=True)
        self.counter = install_hooks(self.server, behaviours)      # token serials; reset per script by the driver
        kw.setdefault("compression_level", None)
        self.inner = make_sync_client(self.server, token_key=b"k" * 32, **kw)
        self.client = _TapClient(self.inner)
        self._cm = http_connect(client_proto, client=self.client, compression_level=None)
        self.px = self._cm.__enter__()
        self.died: list = []

    def marks(self) -> int:
        return len(self.client.log)

    def drop(self) -> None:
        """Stateless HTTP: a client that vanishes just stops sending requests."""

    def describe(self):
        from vgi_rpc.http import http_introspect

        return http_introspect(client=self.client)

    def close(self, join_timeout: float = 0.0) -> bool:
        try:
            self._cm.__exit__(None, None, None)
        except Exception:  # noqa: BLE001
            pass
        return True


# ------------------------------------------------------------------------------------------ running a script
def _err_entry(tag: str, e: BaseException) -> str:
    if isinstance(e, RpcError):
        return f"{tag}:err:{e.error_type}:{e.error_message}"
    return f"{tag}:exc:{type(e).__name__}:{e}"


def run_script(conn, script: list, xs: list[int], rows_of=None) -> dict:
    """Run one client script through conn.px.  Returns {"hist": [[op, outcome]..], "obsd": [str..], "marks": [...]}.

    ops of a stream call: "t" tick / exchange (one input row), "t2"/"t3" exchange with 2 / 3 input rows, "i" iterate
    to the end, "c" close, "x" cancel; a script that does not end its stream leaves through close()."""
    hist: list = []
    obsd: list = []
    marks: list = [conn.marks()]
    px = conn.px
    http = conn.http
    dropped = False
    for call, x in zip(script, xs):
        m = TABLE[call["m"]]
        arg = str(x) if m["badp"] else x
        try:
            if m["n"] == "__describe__":
                try:
                    d = conn.describe()
                    names = sorted(d.methods) if isinstance(d.methods, dict) else sorted(md.name for md in d.methods)
                    hist.append(["call", "ok"])
                    obsd.append("describe:" + ",".join(names))
                except Exception as e:  # noqa: BLE001
                    hist.append(["call", "err" if isinstance(e, RpcError) else "exc"])
                    obsd.append(_err_entry("describe", e))
                continue
            if m["k"] == "unary":
                try:
                    r = getattr(px, m["n"])(x=arg)
                    hist.append(["call", "ok"])
                    obsd.append(f"result:{r!r}")
                except Exception as e:  # noqa: BLE001
                    hist.append(["call", "err" if isinstance(e, RpcError) else "exc"])
                    obsd.append(_err_entry("call", e))
                continue
            try:
                sess = getattr(px, m["n"])(x=arg)
            except Exception as e:  # noqa: BLE001
                hist.append(["call", "err" if isinstance(e, RpcError) else "exc"])
                obsd.append(_err_entry("call", e))
                continue
            hist.append(["call", "ok"])
            obsd.append("opened:" + (repr(sess.header) if m["hdr"] else "-"))
            it = None
            ended = False

            def one_tick(nrows: int = 1):
                nonlocal it
                try:
                    if m["k"] == "prod":
                        if http:
                            if it is None:
                                it = iter(sess)
                            ab = next(it)
                        else:
                            ab = sess.tick()
                    else:
                        ab = sess.exchange(AnnotatedBatch(batch=pa.RecordBatch.from_pydict({"a": list(range(nrows))},
                                                                                           schema=INP)))
                except StopIteration:
                    hist.append(["tick", "stop"])
                    obsd.append("stop")
                    return True
                except Exception as e:  # noqa: BLE001
                    hist.append(["tick", "err" if isinstance(e, RpcError) else "exc"])
                    obsd.append(_err_entry("tick", e))
                    return True
                hist.append(["tick", "data"])
                obsd.append("data:" + ",".join(str(v) for v in ab.batch.column("v").to_pylist()))
                return False

            for op in call["ops"]:
                if ended:
                    break
                if op[0] == "t":
                    ended = one_tick(int(op[1:] or 1))
                elif op == "i":
                    n = 0
                    while not ended and n < 12:
                        ended = one_tick()
                        n += 1
                elif op == "c":
                    sess.close()
                    hist.append(["close", "ok"])
                    obsd.append("closed")
                    ended = True
                elif op == "x":
                    sess.cancel()
                    hist.append(["cancel", "ok"])
                    obsd.append("cancelled")
                    ended = True
                elif op == "d":
                    # the client vanishes: no close(), no cancel(); on a socket both ends of its transport close
                    conn.drop()
                    hist.append(["drop", "ok"])
                    obsd.append("dropped")
                    dropped = True
                    break
            if dropped:
                break
            if not ended:
                sess.close()
                hist.append(["close", "ok"])
                obsd.append("closed")
            elif hist[-1][0] == "tick":
                try:
                    sess.close()            # leaving a session that ended by itself: nothing observable
                except Exception as e:  # noqa: BLE001
                    obsd.append(_err_entry("close", e))
        except Exception as e:  # noqa: BLE001 - e.g. close()/cancel() letting something escape
            hist.append(["client", "exc"])
            obsd.append(_err_entry("client", e))
        finally:
            marks.append(conn.marks())
    return {"hist": hist, "obsd": obsd, "marks": marks, "dropped": dropped}


def with_watchdog(fn, timeout: float):
    box: list = []

    def body():
        try:
            box.append(("ok", fn()))
        except BaseException as e:  # noqa: BLE001
            box.append(("raise", e))

    th = threading.Thread(target=body, daemon=True)
    th.start()
    th.join(timeout)
    if th.is_alive():
        return None, True
    kind, val = box[0]
    if kind == "raise":
        raise val
    return val, False


def wire_batches(data: bytes) -> list[dict]:
    """Decode consecutive IPC streams -> [{rows, cols, md_keys, log, err, tick, cancel, token}] per batch, in order."""
    out = []
    for s in world.read_streams(bytes(data)):
        for b, md in s["batches"]:
            lvl = md.get(world.K_LEVEL)
            out.append({"rows": b.num_rows, "cols": b.num_columns, "bytes": b.get_total_buffer_size(),
                        "log": lvl is not None and lvl != b"EXCEPTION", "err": lvl == b"EXCEPTION",
                        "cancel": b"vgi_rpc.cancel" in md, "req": world.K_METHOD in md,
                        "token": b"vgi_rpc.stream_state#b64" in md})
        if "error" in s and not s["batches"]:
            out.append({"undecodable": s["error"]})
    return out
