#!/bin/bash
# tools/seed_sweep.sh "<seeds>" [parallel] -- run every claimed quick check under several VERIF_SEED values; any non-zero exit is listed
par=${2:-5}; cd /verif
ids=$(/venv/bin/python -c "import json;print(' '.join(json.load(open('drivers/claimed.json'))))")
mkdir -p /tmp/seedsweep
one() { s=$1; p=$2; VERIF_SEED=$s ./check $p --tier quick > /tmp/seedsweep/$p.$s.log 2>&1; rc=$?; echo "seed=$s $p rc=$rc viol=$(grep -c '^VIOLATION' /tmp/seedsweep/$p.$s.log)"; }
export -f one
for s in $1; do for p in $ids; do echo "$s $p"; done; done | xargs -P $par -L 1 bash -c 'one $0 $1'
