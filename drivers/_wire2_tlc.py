"""vf.table's enumerate/judge with two additions needed by the wire-2 tables (C05, C06): a `workers` parameter (these
models consist of initial states only; `-workers auto` = 16 threads is several times slower on them than 4) and
judging each *distinct* (case, observation) pair once.  The generated wrapper modules are vf.table's own templates."""
import json

from vf import table
from vf.tlc import MachineryError, render_cfg, require_ok, run_tlc, sany

WORKERS = 4


def enumerate_cases(ctx, engine: str, module: str, *, constants=None, invariants=(), timeout: int = 1500,
                    workers: int = WORKERS, emit: bool = True, name: str | None = None, cases: str = "Cases",
                    expected: str = "Expected", only: str | None = None) -> list[dict]:
    """`only`: name of a predicate over c; the initial-state predicate becomes  c \\in Cases /\\ only(c)  so that TLC
    filters while it enumerates instead of first building (and normalising) the filtered set."""
    wd = ctx.wd.stage(engine)
    invs = "\n".join(f"Inv_{x} == {x}(c)" for x in invariants)
    (wd / f"{module}_Enum.tla").write_text(table.ENUM.format(
        m=module, cases=cases + (f" /\\ {only}(c)" if only else ""), expected=expected, invs=invs))
    sany(wd, f"{module}_Enum")
    cfg = render_cfg(init_next=("EnumInit", "EnumNext"), constants=constants,
                     invariants=[f"Inv_{x}" for x in invariants] + (["Emit"] if emit else []))
    r = run_tlc(wd, f"{module}_Enum", cfg, timeout=timeout, cfg_name=f"{module}_{abs(hash(name)) % 10**6}.cfg",
                workers=workers)
    ctx.add_tlc(name or f"{module}:enumerate", r)
    require_ok(r, f"{module} table enumeration / table invariants {list(invariants)}")
    if emit and len(r.json_lines) != r.distinct:
        raise MachineryError(f"{module}: {r.distinct} cases but {len(r.json_lines)} emitted")
    return r.json_lines if emit else [r.distinct]


def walk(ctx, engine: str, module: str, *, constants=None, invariants=(), emit: str | None = "Emit", name: str,
         workers: int = 8, timeout: int = 1500) -> tuple[int, list[dict]]:
    """Reachability run of an enumeration-vehicle module (INIT WalkInit / NEXT WalkNext): every reachable state is one
    table case; `invariants` are checked in each, `emit` prints case + oracle.  -> (number of cases, emitted json)"""
    wd = ctx.wd.stage(engine)
    sany(wd, module)
    cfg = render_cfg(init_next=("WalkInit", "WalkNext"), constants=constants,
                     invariants=list(invariants) + ([emit] if emit else []))
    r = run_tlc(wd, module, cfg, timeout=timeout, cfg_name=f"{module}_{abs(hash(name)) % 10**6}.cfg", workers=workers)
    ctx.add_tlc(name, r)
    require_ok(r, f"{module}: {name} / invariants {list(invariants)}")
    return r.distinct, (r.json_lines if emit else [])


def judge(ctx, engine: str, module: str, records: list[dict], *, constants=None, conforms: str = "Conforms",
          timeout: int = 1500, chunk: int = 20000, workers: int = WORKERS, count: bool = True):
    """TLC evaluates `conforms(case, obs)` for every distinct (case, obs) pair among the records; the verdict is mapped
    back to every concrete execution that produced the pair.  Returns [(record index, [clause names])]."""
    groups: dict[str, list[int]] = {}
    order: list[str] = []
    for i, r in enumerate(records):
        k = json.dumps([r["case"], r["obs"]], sort_keys=True)
        if k not in groups:
            groups[k] = []
            order.append(k)
        groups[k].append(i)
    uniq = []
    for k in order:
        c, o = json.loads(k)
        uniq.append({"case": c, "obs": o})
    wd = ctx.wd.stage(engine)
    (wd / f"{module}_Obs.tla").write_text(table.OBS.format(m=module, conforms=conforms))
    sany(wd, f"{module}_Obs")
    bad: list[tuple[int, list[str]]] = []
    for off in range(0, len(uniq), chunk):
        part = uniq[off:off + chunk]
        f = wd / f"obs_{module}_{conforms}_{off}.json"
        f.write_text(json.dumps(part))
        cfg = render_cfg(init_next=("ObsInit", "ObsNext"), constants=constants, invariants=["Judge"])
        r = run_tlc(wd, f"{module}_Obs", cfg, timeout=timeout, env={"OBS_FILE": str(f)},
                    cfg_name=f"{module}_obs.cfg", workers=workers)
        ctx.add_tlc(f"{module}:{conforms}[{off}:{off + len(part)}]", r)
        require_ok(r, f"{module} observation judging ({conforms})")
        if r.distinct != len(part):
            raise MachineryError(f"{module}: judged {r.distinct} of {len(part)} observations")
        for j in r.json_lines:
            bad.append((off + j["i"] - 1, list(j["bad"])))
        f.unlink()
    bad_u = {i for i, _ in bad}
    if count:
        ctx.traces_validated += sum(len(groups[order[i]]) for i in range(len(order)) if i not in bad_u)
        ctx.extra["distinct_case_obs_pairs_judged_by_tlc"] = ctx.extra.get("distinct_case_obs_pairs_judged_by_tlc", 0) + len(uniq)
    out = []
    for ui, clauses in bad:
        for ri in groups[order[ui]]:
            out.append((ri, clauses))
    return sorted(out)
