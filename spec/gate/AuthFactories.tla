------------------------------- MODULE AuthFactories -------------------------------
(* X03 (extended coverage) -- the authenticator factories of vgi_rpc.http, as decision tables transcribed from their
   docstrings and docs/api/{oauth,mtls}.md, docs/unauthorized-spec.md section 3.1:

     bearer_authenticate / bearer_authenticate_static   (family "bearer")
     _combine_reasons                                   (family "combine")
     chain_authenticate over stub members               (family "chain";  every permutation of the members is executed too)
     constructors                                       (family "ctor")
     mtls_authenticate / _fingerprint / _subject        (family "mtls";   certificates generated offline)
     jwt_authenticate                                   (family "jwt";    JWKS served by a loopback HTTP server through the
                                                                           public jwks_uri parameter)
     chain_authenticate over the real factories         (family "realchain")

   A result is  [k, reason, exc, who]:
       k = "accept"  who = tag of the AuthContext returned
       k = "reject"  an AuthFailure, reason = its code
       k = "raise"   any other exception propagated, exc = its type name
   The documented rules: a bearer credential is a header that starts with the literal "Bearer " and the raw remainder is
   the token; the static map is an exact lookup; a chain tries its members in order, ValueError-class outcomes fall
   through, the first acceptance wins and stops the chain, any other exception propagates immediately; the combined
   reason is missing_credential iff every alternative said so, otherwise the first code that is not; PEM factories:
   absent header => proxy_required, not PEM / unparseable => invalid_credential, validity window (when check_expiry)
   before validate => expired_credential, fingerprint keys are lowercase hex without colons (exact), subject CN must
   be in allowed_subjects (exact) else insufficient_scope; JWT: expired => expired_credential, every other token fault
   => invalid_credential, keys fetched lazily once, refreshed once on an unknown kid, no other round trips.

   Dev_ switches name the places where the code knowingly differs from a wider reading:
     Dev_SchemeCaseSensitive            RFC 7235 makes the scheme case-insensitive; the factories match "Bearer " literally
     Dev_FingerprintDomainParamIgnored  mtls_authenticate_fingerprint documents a `domain` parameter "for the returned
                                        AuthContext" but returns the mapped AuthContext unchanged
     Dev_JwksOutageRaw                  AuthUnavailableError's docstring asks authenticators to raise it for transport
                                        failures of a remote authority; jwt_authenticate lets the transport error out raw *)
EXTENDS Naturals, Sequences, FiniteSets, TLC

CONSTANTS Deep,                                \* TRUE: thorough case space
          Dev_SchemeCaseSensitive, Dev_FingerprintDomainParamIgnored, Dev_JwksOutageRaw

Closed == {"missing_credential", "invalid_credential", "expired_credential", "insufficient_scope",
           "proxy_required", "unauthorized"}
Viol(name, ok) == IF ok THEN {} ELSE {name}

Acc(who)  == [k |-> "accept", reason |-> "", exc |-> "", who |-> who, n |-> 0]
Rej(r)    == [k |-> "reject", reason |-> r, exc |-> "AuthFailure", who |-> "", n |-> 0]
Raise(x)  == [k |-> "raise", reason |-> "", exc |-> x, who |-> "", n |-> 0]

\* ================================================================ member outcomes and chain semantics
(* outcome alphabet of a member on one request:
     ok                                           returns its own AuthContext
     anon                                         returns its own AuthContext with authenticated = FALSE (still an acceptance:
                                                  "Credentials accepted: returns AuthContext, stops chain")
     miss inv exp scope proxy unauth              AuthFailure(reason)            (ValueError class: falls through)
     ve  ve_sub                                   bare ValueError / a ValueError subclass (falls through, "unauthorized")
     pe  rt  down                                 PermissionError / RuntimeError / AuthUnavailableError (propagate)      *)
AllOuts == {"ok", "anon", "miss", "inv", "exp", "scope", "proxy", "unauth", "ve", "ve_sub", "pe", "rt", "down"}
IsAcc(o) == o \in {"ok", "anon"}
VEClass(o) == o \in {"miss", "inv", "exp", "scope", "proxy", "unauth", "ve", "ve_sub"}
ReasonOf(o) == CASE o = "miss" -> "missing_credential" [] o = "inv" -> "invalid_credential"
                 [] o = "exp" -> "expired_credential"  [] o = "scope" -> "insufficient_scope"
                 [] o = "proxy" -> "proxy_required"    [] OTHER -> "unauthorized"
ExcOf(o) == CASE o = "pe" -> "PermissionError" [] o = "rt" -> "RuntimeError" [] o = "down" -> "AuthUnavailableError"
              [] o = "ve" -> "ValueError" [] o = "ve_sub" -> "UnicodeDecodeError" [] OTHER -> "AuthFailure"

Combine(codes) == IF Len(codes) = 0 THEN "unauthorized"
                  ELSE IF \A i \in 1..Len(codes) : codes[i] = "missing_credential" THEN "missing_credential"
                  ELSE codes[CHOOSE j \in 1..Len(codes) :
                               codes[j] # "missing_credential" /\ \A l \in 1..(j - 1) : codes[l] = "missing_credential"]

\* what a single member does when called directly
LeafRes(o, who) == IF IsAcc(o) THEN Acc(who)
                   ELSE IF o \in {"ve", "ve_sub", "pe", "rt", "down"} THEN Raise(ExcOf(o))
                   ELSE Rej(ReasonOf(o))

RECURSIVE ChainFrom(_, _, _, _)
\* outs: sequence of member outcomes; whos: the tag of each member's context; n = number of members invoked
ChainFrom(outs, whos, i, codes) ==
  IF i > Len(outs) THEN [Rej(Combine(codes)) EXCEPT !.n = Len(outs)]
  ELSE IF IsAcc(outs[i]) THEN [Acc(whos[i]) EXCEPT !.n = i]
  ELSE IF VEClass(outs[i]) THEN ChainFrom(outs, whos, i + 1, Append(codes, ReasonOf(outs[i])))
  ELSE [Raise(ExcOf(outs[i])) EXCEPT !.n = i]
Idx(n) == [i \in 1..n |-> ToString(i)]
ChainEval(outs) == ChainFrom(outs, Idx(Len(outs)), 1, <<>>)

\* ================================================================ family "bearer"
HdrShapes == {"absent", "empty", "ok", "lower", "upper", "mixed", "basic", "noscheme", "nospace", "schemeonly",
              "emptytok", "twospace", "tab", "leadsp", "trailsp", "comma", "colon", "quoted"}
HdrKind(h) == CASE h \in {"absent", "empty"} -> "missing"
                [] h \in {"ok", "emptytok", "twospace", "trailsp", "comma", "quoted"} -> "bearer"
                [] h \in {"lower", "upper", "mixed"} -> (IF Dev_SchemeCaseSensitive THEN "notbearer" ELSE "bearer")
                [] OTHER -> "notbearer"
\* how the raw token handed to validate relates to the token T the header was built from
RawMod(h) == CASE h = "emptytok" -> "empty" [] h = "twospace" -> "lead_sp" [] h = "trailsp" -> "trail_sp"
               [] h = "comma" -> "comma_list" [] h = "quoted" -> "quoted" [] OTHER -> "exact"
Known == {"known1", "known2", "known3"}            \* known3 is a non-ASCII token
TokClasses == Known \cup {"unknown", "prefix1", "ext1", "case1"}
ValBehaviours == {"ret", "ve", "ve_sub", "af_miss", "af_inv", "af_exp", "af_scope", "pe", "rt", "down"}
ValRes(v) == CASE v = "ret" -> Acc("v") [] v = "ve" -> Raise("ValueError") [] v = "ve_sub" -> Raise("UnicodeDecodeError")
               [] v = "af_miss" -> Rej("missing_credential") [] v = "af_inv" -> Rej("invalid_credential")
               [] v = "af_exp" -> Rej("expired_credential") [] v = "af_scope" -> Rej("insufficient_scope")
               [] v = "pe" -> Raise("PermissionError") [] v = "rt" -> Raise("RuntimeError")
               [] v = "down" -> Raise("AuthUnavailableError")
BearerCases ==
  [fam : {"bearer"}, factory : {"static"}, hdr : HdrShapes, tok : (IF Deep THEN TokClasses ELSE {"known1", "known3", "unknown", "ext1"}),
   map : {"plain", "withempty"}, val : {"none"}]
  \cup [fam : {"bearer"}, factory : {"custom"}, hdr : HdrShapes, tok : {"known1"}, map : {"none"},
        val : (IF Deep THEN ValBehaviours ELSE {"ret", "ve", "af_exp", "pe", "down"})]
BearerExpected(c) ==
  LET kind == HdrKind(c.hdr) IN
  IF kind = "missing" THEN Rej("missing_credential")
  ELSE IF kind = "notbearer" THEN Rej("invalid_credential")
  ELSE IF c.factory = "custom" THEN ValRes(c.val)
  ELSE IF RawMod(c.hdr) = "exact" /\ c.tok \in Known THEN Acc(c.tok)
  ELSE IF RawMod(c.hdr) = "empty" /\ c.map = "withempty" THEN Acc("emptykey")
  ELSE Rej("invalid_credential")
(* o = [k, reason, exc, who, same, calls, arg]:  same = the returned object is the configured one;  calls = number of
   times the user's validate ran ("0", "1", ...; "-" for the static factory);  arg = how its argument relates to T *)
Same(e, o) == o.k = e.k /\ o.reason = e.reason /\ o.exc = e.exc
BearerConforms(c, o) ==
  LET e == BearerExpected(c) IN
       Viol("AcceptIffDocumented", (o.k = "accept") <=> (e.k = "accept"))
  \cup Viol("IdentityOfAcceptingMember", (e.k = "accept" /\ o.k = "accept") => (o.who = e.who /\ o.same))
  \cup Viol("RejectReasonAsDocumented", (e.k = "reject" => (o.k = "reject" /\ o.reason = e.reason))
                                        /\ (o.k = "reject" => o.reason \in Closed))
  \cup Viol("NoExceptionOtherThanDocumented", IF e.k = "raise" THEN o.k = "raise" /\ o.exc = e.exc ELSE o.k # "raise")
  \cup Viol("ValidateCalledIffBearerWithRawToken",
            c.factory = "custom" => (IF HdrKind(c.hdr) = "bearer" THEN o.calls = "1" /\ o.arg = RawMod(c.hdr)
                                     ELSE o.calls = "0"))

\* ================================================================ family "combine"
RECURSIVE SeqsUpTo(_, _)
SeqsUpTo(S, n) == IF n = 0 THEN {<<>>} ELSE LET P == SeqsUpTo(S, n - 1) IN P \cup {Append(s, x) : s \in {q \in P : Len(q) = n - 1}, x \in S}
CombineCases == [fam : {"combine"}, codes : SeqsUpTo(Closed, IF Deep THEN 4 ELSE 3)]
CombineExpected(c) == [code |-> Combine(c.codes)]
CombineConforms(c, o) == Viol("RejectReasonAsDocumented", o.code = Combine(c.codes))

\* ================================================================ family "chain" (stub members)
QuickOuts == {"ok", "anon", "miss", "inv", "exp", "ve", "pe", "rt", "down"}
FourOuts == {"ok", "miss", "inv", "exp", "ve", "pe"}
ChainCases == [fam : {"chain"}, ms : SeqsUpTo(IF Deep THEN AllOuts ELSE QuickOuts, 3) \ {<<>>}]
              \cup (IF Deep THEN [fam : {"chain"}, ms : {s \in SeqsUpTo(FourOuts, 4) : Len(s) = 4}] ELSE {})
ChainExpected(c) == ChainEval(c.ms)
Quiet(ms) == \A i \in 1..Len(ms) : IsAcc(ms[i]) \/ VEClass(ms[i])
NAccepters(ms) == Cardinality({i \in 1..Len(ms) : IsAcc(ms[i])})
Substantive(ms) == {ReasonOf(ms[i]) : i \in {j \in 1..Len(ms) : VEClass(ms[j]) /\ ms[j] # "miss"}}
(* the order of the members may change the answer only as documented: which accepter wins when there are several,
   which substantive reason is reported when there are several, and whether an acceptance or a propagating exception
   comes first.  a, b = results of two orders of the same members (who = original member index) *)
OrderRel(ms, a, b) ==
     (Quiet(ms) => ((a.k = "accept") <=> (b.k = "accept")) /\ a.k # "raise" /\ b.k # "raise")
  /\ ((Quiet(ms) /\ NAccepters(ms) = 1) => a.who = b.who)
  /\ ((Quiet(ms) /\ NAccepters(ms) = 0) => ((a.reason = "missing_credential") <=> (b.reason = "missing_credential")))
  /\ ((Quiet(ms) /\ NAccepters(ms) = 0 /\ Cardinality(Substantive(ms)) <= 1) => a.reason = b.reason)
(* o = [k, reason, exc, who, same, called, detail_all, perms]: called = member indices in invocation order;
   detail_all = the combined failure's text names every member's own text;
   perms = <<[p |-> order (original indices), k, reason, exc, who (original index)]>> for every order of the members *)
ChainConforms(c, o) ==
  LET e == ChainEval(c.ms) IN
       Viol("AcceptIffDocumented", (o.k = "accept") <=> (e.k = "accept"))
  \cup Viol("IdentityOfAcceptingMember", (e.k = "accept" /\ o.k = "accept") => (o.who = e.who /\ o.same))
  \cup Viol("RejectReasonAsDocumented", (e.k = "reject" => (o.k = "reject" /\ o.reason = e.reason))
                                        /\ (o.k = "reject" => o.reason \in Closed))
  \cup Viol("NoExceptionOtherThanDocumented", IF e.k = "raise" THEN o.k = "raise" /\ o.exc = e.exc ELSE o.k # "raise")
  \cup Viol("MembersTriedInOrderUntilDecision", o.called = [i \in 1..e.n |-> i])
  \cup Viol("OrderSensitivityOnlyWhereDocumented", \A q \in 1..Len(o.perms) : OrderRel(c.ms, o, o.perms[q]))
  \cup Viol("Note_DetailListsEveryReason", o.k = "reject" => o.detail_all)
\* table sanity: the documented rules themselves have the order properties, under every permutation
PermOf(ms, f) == [i \in 1..Len(ms) |-> ms[f[i]]]
EvalPerm(ms, f) == LET r == ChainFrom(PermOf(ms, f), [i \in 1..Len(ms) |-> ToString(f[i])], 1, <<>>) IN r
T_OrderOnlyWhereDocumented(c) ==
  c.fam = "chain" => \A f \in Permutations(1..Len(c.ms)) : OrderRel(c.ms, ChainEval(c.ms), EvalPerm(c.ms, f))
T_ReasonClosed(c) == c.fam = "chain" => (ChainEval(c.ms).k = "reject" => ChainEval(c.ms).reason \in Closed)
T_MissingIffAllMissing(c) ==
  c.fam = "chain" => LET e == ChainEval(c.ms) IN
     (e.k = "reject" /\ e.reason = "missing_credential") <=> (\A i \in 1..Len(c.ms) : c.ms[i] = "miss")
T_AcceptIffAccepterBeforePropagation(c) ==
  c.fam = "chain" => ((ChainEval(c.ms).k = "accept") <=>
                      \E i \in 1..Len(c.ms) : IsAcc(c.ms[i]) /\ \A j \in 1..(i - 1) : VEClass(c.ms[j]))

\* ================================================================ family "ctor"
FpAlgs == {"sha256", "sha1", "sha384", "sha512"}
\* chain: n members, the gate-th of them a PreconditionGate (0 = none)
CtorCases == {x \in {[fam |-> "ctor", what |-> "chain", n |-> n, gate |-> g, alg |-> "-"] : n \in 0..3, g \in 0..3} : x.gate <= x.n}
             \cup {[fam |-> "ctor", what |-> "fpalg", n |-> 0, gate |-> 0, alg |-> a] :
                       a \in FpAlgs \cup {"md5", "SHA256", "sha-256", "sha3_256", "sha224", ""}}
             \cup {[fam |-> "ctor", what |-> w, n |-> 0, gate |-> 0, alg |-> "-"] : w \in {"jwt_no_issuer", "jwt_no_audience", "jwt_ok"}}
CtorExpected(c) ==
  CASE c.what = "chain" -> (IF c.n = 0 THEN Raise("ValueError") ELSE IF c.gate > 0 THEN Raise("TypeError") ELSE Acc("callable"))
    [] c.what = "fpalg" -> (IF c.alg \in FpAlgs THEN Acc("callable") ELSE Raise("ValueError"))
    [] c.what = "jwt_ok" -> Acc("callable")
    [] OTHER -> Raise("ValueError")
CtorConforms(c, o) == LET e == CtorExpected(c) IN Viol("ConstructionAsDocumented", o.k = e.k /\ o.exc = e.exc)

\* ================================================================ family "mtls"
(* header shapes: quoted / quoted_all / aws = the PEM URL-encoded three ways; raw = unencoded; hdrcase = header name in
   another letter case; custom = factory configured with another header name, certificate sent there; otherhdr = factory
   configured with another header name, certificate sent in the default one (so the configured header is absent);
   two = two certificates concatenated in one header value (undocumented: set-valued) *)
MHdr == {"absent", "empty", "quoted", "quoted_all", "aws", "raw", "hdrcase", "custom", "otherhdr", "leadsp", "garbage",
         "pubkey", "truncated", "corrupt", "two"}
MHdrKind(h) == CASE h \in {"absent", "empty", "otherhdr"} -> "absent"
                 [] h \in {"leadsp", "garbage", "pubkey", "truncated", "corrupt"} -> "bad"
                 [] h = "two" -> "two"
                 [] OTHER -> "cert"
Validity == {"valid", "barely", "expired", "just_expired", "notyet"}
InWindow(v) == v \in {"valid", "barely"}
(* subjects: a = CN svc-a (allowed); b = CN svc-b; a_upper = SVC-A; a_ext = svc-a2; a_pre = svc-; nocn = no CN;
   ab / ba = two CN attributes in that order; comma = CN "svc,a" (allowed, needs RFC 4514 escaping) *)
Subjects == {"a", "b", "a_upper", "a_ext", "a_pre", "nocn", "ab", "ba", "comma"}
CNs(s) == CASE s = "ab" -> {"a", "b"} [] s = "ba" -> {"a", "b"} [] OTHER -> {s}
AllowedTags == {"a", "c", "comma"}
CertClasses == [sub : {"a", "b"}, val : Validity] \cup [sub : Subjects, val : {"valid"}]
AllowCfg == {"none", "set", "emptyset"}
Permitted(allow, cn) == allow = "none" \/ (allow = "set" /\ cn \in AllowedTags)
KeyForms == {"exact", "upper", "colons", "colons_upper", "truncated", "otheralg", "absent"}
MtlsCases ==
  \* subject factory
       {x \in [fam : {"mtls"}, factory : {"subject"}, hdr : MHdr, cert : CertClasses, exp : BOOLEAN, allow : AllowCfg,
                dom : {"default"}, val : {"none"}, alg : {"-"}, form : {"-"}, present : {"A"}] :
            x.hdr = "two" => x.cert.sub \in {"a", "b"}}
  \cup [fam : {"mtls"}, factory : {"subject"}, hdr : {"quoted"}, cert : [sub : {"a", "b"}, val : {"valid", "expired"}], exp : BOOLEAN,
        allow : AllowCfg, dom : {"custom"}, val : {"none"}, alg : {"-"}, form : {"-"}, present : {"A"}]
  \* generic factory with a user validate
  \cup [fam : {"mtls"}, factory : {"generic"}, hdr : (IF Deep THEN MHdr \ {"two"} ELSE {"absent", "quoted", "garbage", "corrupt", "custom", "otherhdr"}),
        cert : [sub : {"a"}, val : Validity], exp : BOOLEAN, allow : {"none"}, dom : {"default"},
        val : (IF Deep THEN ValBehaviours ELSE {"ret", "ve", "af_scope", "pe", "rt"}), alg : {"-"}, form : {"-"}, present : {"A"}]
  \* fingerprint factory: map = {form(fingerprint(A)) -> F1, fingerprint(B) -> F2}; certificate presented: A, B or C (unknown)
  \cup [fam : {"mtls"}, factory : {"fp"}, hdr : (IF Deep THEN {"quoted", "absent", "garbage", "custom"} ELSE {"quoted", "absent"}),
        cert : [sub : {"a"}, val : {"valid", "expired"}],
        exp : BOOLEAN, allow : {"none"}, dom : {"default", "custom"}, val : {"none"}, alg : (IF Deep THEN FpAlgs ELSE {"sha256", "sha1"}), form : KeyForms,
        present : {"A", "B", "C"}]
Unspec(why) == [k |-> "any", reason |-> "", exc |-> "", who |-> why, n |-> 0]
MtlsExpected(c) ==
  LET hk == MHdrKind(c.hdr) IN
  IF hk = "absent" THEN Rej("proxy_required")
  ELSE IF hk = "bad" THEN Rej("invalid_credential")
  ELSE IF hk = "two" THEN Unspec("two")                      \* which of two concatenated certificates counts is not documented
  ELSE IF c.exp /\ ~InWindow(c.cert.val) THEN Rej("expired_credential")
  ELSE IF c.factory = "generic" THEN ValRes(c.val)
  ELSE IF c.factory = "fp" THEN
         (IF c.present = "B" THEN Acc("F2")
          ELSE IF c.present = "A" /\ c.form = "exact" THEN Acc("F1")
          ELSE Rej("invalid_credential"))
  ELSE \* subject: deterministic when the certificate has one CN (or none); which of two CNs counts is not documented
       IF \A cn \in CNs(c.cert.sub) : Permitted(c.allow, cn) THEN Acc("cn")
       ELSE IF \A cn \in CNs(c.cert.sub) : ~Permitted(c.allow, cn) THEN Rej("insufficient_scope")
       ELSE Unspec("twocn")
(* o = [k, reason, exc, who, same, calls, arg, principal, domain, authed, claims_keys, dn_ok, serial_ok, nva_ok, whole2]
     who        fp: "F1" / "F2" / "other";  generic: "v";  subject: "cn"
     principal  subject factory: tag of the returned principal among the known CNs ("a", "b", ..., "nocn" for "", "other")
     domain     "default" = "mtls", "custom" = the configured custom domain, "mapped" = the mapped context's own, "other"
     claims_keys  the claims have exactly the three documented keys;  dn_ok / serial_ok / nva_ok = each documented value
                  equals the harness's own rendering of the (first) certificate it put in the header;
     whole2     header shape "two": principal and all three claims are those of the second certificate
     calls / arg  generic factory: times validate ran, which certificate it received ("A", ...)                      *)
OtherSub(s) == IF s = "a" THEN "b" ELSE "a"                  \* shape "two": the second certificate in the header
MtlsConforms(c, o) ==
  LET e == MtlsExpected(c) IN
  IF e.k = "any" /\ e.who = "two" THEN
       \* any documented outcome is admissible, but an accepted identity is one certificate's, never a mixture
       Viol("NoExceptionOtherThanDocumented", o.k # "raise")
       \cup Viol("RejectReasonAsDocumented",
                 o.k = "reject" => (o.reason \in {"invalid_credential", "insufficient_scope"} \/ (c.exp /\ o.reason = "expired_credential")))
       \cup Viol("IdentityOfAcceptingMember",
                 o.k = "accept" => (   (o.principal = c.cert.sub /\ o.dn_ok /\ o.serial_ok /\ o.nva_ok)
                                    \/ (o.principal = OtherSub(c.cert.sub) /\ o.whole2))
                                   /\ Permitted(c.allow, o.principal) /\ o.claims_keys /\ o.domain = c.dom /\ o.authed)
  ELSE IF e.k = "any" THEN
       Viol("NoExceptionOtherThanDocumented", o.k # "raise")
       \cup Viol("RejectReasonAsDocumented", o.k = "reject" => o.reason = "insufficient_scope")
       \cup Viol("IdentityOfAcceptingMember",
                 o.k = "accept" => (o.principal \in CNs(c.cert.sub) /\ Permitted(c.allow, o.principal) /\ o.domain = c.dom /\ o.authed))
       \cup Viol("SubjectClaimsAsDocumented", o.k = "accept" => (o.claims_keys /\ o.dn_ok /\ o.serial_ok /\ o.nva_ok))
  ELSE
       Viol("AcceptIffDocumented", (o.k = "accept") <=> (e.k = "accept"))
  \cup Viol("RejectReasonAsDocumented", (e.k = "reject" => (o.k = "reject" /\ o.reason = e.reason))
                                        /\ (o.k = "reject" => o.reason \in Closed))
  \cup Viol("NoExceptionOtherThanDocumented", IF e.k = "raise" THEN o.k = "raise" /\ o.exc = e.exc ELSE o.k # "raise")
  \cup Viol("IdentityOfAcceptingMember",
            (e.k = "accept" /\ o.k = "accept") =>
               CASE c.factory = "fp" -> o.who = e.who /\ (IF Dev_FingerprintDomainParamIgnored THEN o.same /\ o.domain = "mapped"
                                                          ELSE o.domain = c.dom)
                 [] c.factory = "generic" -> o.who = "v" /\ o.same
                 [] c.factory = "subject" -> o.principal \in CNs(c.cert.sub) /\ o.domain = c.dom /\ o.authed)
  \cup Viol("SubjectClaimsAsDocumented",
            (c.factory = "subject" /\ o.k = "accept") => (o.claims_keys /\ o.dn_ok /\ o.serial_ok /\ o.nva_ok))
  \cup Viol("ValidateCalledOnlyAfterParseAndExpiry",
            c.factory = "generic" => (IF MHdrKind(c.hdr) = "cert" /\ (~c.exp \/ InWindow(c.cert.val))
                                      THEN o.calls = "1" /\ o.arg = c.present ELSE o.calls = "0"))
T_ExpiryOnlyWhenAsked(c) == (c.fam = "mtls" /\ c.factory # "generic") => (MtlsExpected(c).reason = "expired_credential" => c.exp)
T_FingerprintExact(c) == (c.fam = "mtls" /\ c.factory = "fp" /\ c.present = "A" /\ MtlsExpected(c).k = "accept") => c.form = "exact"
T_SubjectExact(c) == (c.fam = "mtls" /\ c.factory = "subject" /\ c.allow = "set" /\ MtlsExpected(c).k = "accept")
                        => CNs(c.cert.sub) \subseteq AllowedTags

\* ================================================================ family "jwt"
(* token classes (signed by key k1 = kid known to the JWKS unless said otherwise; iss1/aud1 = first configured values) *)
JToks == {"ok", "ok_rsa", "iss2", "aud2", "aud_list", "aud_list_bad", "expired", "iss_bad", "iss_missing", "iss_slash",
          "aud_bad", "aud_missing", "aud_case", "nbf_future", "badsig", "unk_kid", "rotated", "none_alg", "hs_conf",
          "garbage", "three_parts", "empty_segs", "trunc", "ext", "payload_swap", "no_kid", "exp_missing", "sub_missing",
          "iat_future"}
JUnspec == {"no_kid", "exp_missing", "sub_missing", "iat_future"}       \* the documentation does not say
JOut(t, cfg) == CASE t \in {"ok", "ok_rsa", "aud_list", "rotated"} -> "ok"
                  [] t \in {"iss2", "aud2"} -> (IF cfg = "multi" THEN "ok" ELSE "inv")
                  [] t = "expired" -> "exp"
                  [] t \in JUnspec -> "unspec"
                  [] OTHER -> "inv"
JHdr == {"absent", "empty", "ok", "lower", "basic", "schemeonly", "twospace"}
JHdrKind(h) == CASE h \in {"absent", "empty"} -> "missing" [] h \in {"ok", "twospace"} -> "bearer"
                 [] h = "lower" -> (IF Dev_SchemeCaseSensitive THEN "notbearer" ELSE "bearer") [] OTHER -> "notbearer"
\* jwks: how the JWKS endpoint behaves ("good" or an outage class)
Outages == {"http500", "http404", "refused", "html200", "empty200", "json_error_object", "keys_null"}
JwtCases ==
       [fam : {"jwt"}, cfg : {"single", "multi"}, hdr : {"ok"}, tok : JToks, primed : BOOLEAN, pclaim : {"sub"}, jwks : {"good"}]
  \cup [fam : {"jwt"}, cfg : {"single"}, hdr : JHdr, tok : {"ok", "expired"}, primed : BOOLEAN, pclaim : {"sub"}, jwks : {"good"}]
  \cup [fam : {"jwt"}, cfg : {"single", "multi"}, hdr : {"ok"}, tok : {"ok", "sub_missing", "iss_bad"}, primed : {FALSE}, pclaim : {"email"}, jwks : {"good"}]
  \cup [fam : {"jwt"}, cfg : {"single"}, hdr : {"ok", "absent", "basic"}, tok : {"ok", "unk_kid", "expired"}, primed : BOOLEAN, pclaim : {"sub"}, jwks : Outages]
\* does answering this case need a round trip to the JWKS endpoint that hits the outage?
NeedsFetch(c) == JHdrKind(c.hdr) = "bearer" /\ (~c.primed \/ c.tok = "unk_kid")
JwtExpected(c) ==
  LET hk == JHdrKind(c.hdr) out == JOut(c.tok, c.cfg) IN
  IF hk = "missing" THEN Rej("missing_credential")
  ELSE IF hk = "notbearer" THEN Rej("invalid_credential")
  ELSE IF c.hdr = "twospace" THEN Rej("invalid_credential")           \* raw token = " " \o T is not a JWS
  ELSE IF c.jwks # "good" /\ NeedsFetch(c) THEN Raise(IF Dev_JwksOutageRaw THEN "any-non-ValueError" ELSE "AuthUnavailableError")
  ELSE IF out = "ok" THEN Acc("token")
  ELSE IF out = "exp" THEN Rej("expired_credential")
  ELSE IF out = "inv" THEN Rej("invalid_credential")
  ELSE Unspec("unspecified")
\* round trips to the JWKS endpoint caused by the request of the case (the priming request is not counted)
JwtFetches(c) == IF JHdrKind(c.hdr) # "bearer" THEN 0
                 ELSE (IF c.primed THEN 0 ELSE 1) + (IF c.tok \in {"unk_kid", "rotated"} /\ c.hdr = "ok" THEN 1 ELSE 0)
(* o = [k, reason, exc, is_ve, who, principal_ok, domain_ok, claims_same, authed, fetches]
     is_ve = the exception that came out is a ValueError (what a chain swallows and the middleware answers 401 to) *)
JwtConforms(c, o) ==
  LET e == JwtExpected(c) IN
  IF e.k = "any" THEN
       Viol("NoExceptionOtherThanDocumented", o.k # "raise")
       \cup Viol("RejectReasonAsDocumented", o.k = "reject" => o.reason \in {"invalid_credential", "expired_credential"})
       \cup Viol("IdentityOfAcceptingMember", o.k = "accept" => (o.principal_ok /\ o.domain_ok /\ o.claims_same /\ o.authed))
  ELSE IF e.k = "raise" THEN
       \* the authority could not be asked: that is not an answer about the credential
       Viol("OutageIsNotARejection", o.k = "raise" /\ ~o.is_ve)
       \cup Viol("Doc_OutageIsAuthUnavailable", Dev_JwksOutageRaw \/ o.exc = "AuthUnavailableError")
  ELSE
       Viol("AcceptIffDocumented", (o.k = "accept") <=> (e.k = "accept"))
  \cup Viol("RejectReasonAsDocumented", (e.k = "reject" => (o.k = "reject" /\ o.reason = e.reason))
                                        /\ (o.k = "reject" => o.reason \in Closed))
  \cup Viol("NoExceptionOtherThanDocumented", o.k # "raise")
  \cup Viol("IdentityOfAcceptingMember",
            (e.k = "accept" /\ o.k = "accept") => (o.principal_ok /\ o.domain_ok /\ o.claims_same /\ o.authed))
  \cup Viol("JwksFetchedLazilyOnceAndRefreshedOnUnknownKidOnly",
            (c.jwks = "good" /\ c.tok \notin JUnspec) => o.fetches = JwtFetches(c))
T_JwtMultiOnlyWidens(c) == (c.fam = "jwt" /\ c.cfg = "single" /\ c.jwks = "good" /\ JwtExpected(c).k = "accept")
                              => JwtExpected([c EXCEPT !.cfg = "multi"]).k = "accept"
T_JwtUnsignedNeverAccepted(c) == (c.fam = "jwt" /\ c.tok \in {"none_alg", "hs_conf", "badsig", "payload_swap", "trunc", "ext"})
                                    => JwtExpected(c).k # "accept"

\* ================================================================ family "realchain": the real factories composed
(* members: "static" bearer_authenticate_static, "jwt" jwt_authenticate (both read Authorization),
            "subject" mtls_authenticate_subject(allowed {svc-a}, check_expiry) (reads X-SSL-Client-Cert)                *)
Authz == {"absent", "apikey_ok", "apikey_unknown", "jwt_ok", "jwt_expired", "basic"}
CertHdr == {"absent", "a_valid", "b_valid", "a_expired", "garbage"}
RealOut(m, az, ch) ==
  CASE m = "static" -> (CASE az = "absent" -> "miss" [] az = "apikey_ok" -> "ok" [] OTHER -> "inv")
    [] m = "jwt" -> (CASE az = "absent" -> "miss" [] az = "jwt_ok" -> "ok" [] az = "jwt_expired" -> "exp" [] OTHER -> "inv")
    [] m = "subject" -> (CASE ch = "absent" -> "proxy" [] ch = "a_valid" -> "ok" [] ch = "b_valid" -> "scope"
                           [] ch = "a_expired" -> "exp" [] OTHER -> "inv")
Members == {"static", "jwt", "subject"}
Orders == {s \in SeqsUpTo(Members, 3) : Len(s) >= 1 /\ \A i, j \in 1..Len(s) : i # j => s[i] # s[j]}
RealCases == [fam : {"realchain"}, ms : Orders, authz : Authz, cert : CertHdr]
RealEval(c) == ChainFrom([i \in 1..Len(c.ms) |-> RealOut(c.ms[i], c.authz, c.cert)], c.ms, 1, <<>>)
Declared(ms) == SelectSeq(ms, LAMBDA m : m = "subject")          \* only the mTLS member reads a proxy-injected header
(* o = [k, reason, exc, who, same, declared]: who = which member's identity came back ("static" / "jwt" / "subject" /
   "mixed"); declared = the proxy headers the composed callable declares, as the members that declared them *)
RealConforms(c, o) ==
  LET e == RealEval(c) IN
       Viol("AcceptIffDocumented", (o.k = "accept") <=> (e.k = "accept"))
  \cup Viol("IdentityOfAcceptingMember", (e.k = "accept" /\ o.k = "accept") => o.who = e.who)
  \cup Viol("RejectReasonAsDocumented", (e.k = "reject" => (o.k = "reject" /\ o.reason = e.reason))
                                        /\ (o.k = "reject" => o.reason \in Closed))
  \cup Viol("NoExceptionOtherThanDocumented", o.k # "raise")
  \cup Viol("ProxyHeaderDeclarationsCarried", o.declared = Declared(c.ms))
T_RealOrderOnlyWhereDocumented(c) ==
  c.fam = "realchain" =>
     \A s \in Orders : ({s[i] : i \in 1..Len(s)} = {c.ms[i] : i \in 1..Len(c.ms)}) =>
        LET a == RealEval(c) b == RealEval([c EXCEPT !.ms = s])
            outs == [i \in 1..Len(c.ms) |-> RealOut(c.ms[i], c.authz, c.cert)] IN OrderRel(outs, a, b)

\* ================================================================ one enumeration, one judging run
AllCases == BearerCases \cup CombineCases \cup ChainCases \cup CtorCases \cup MtlsCases \cup JwtCases \cup RealCases
AllExpected(c) == CASE c.fam = "bearer" -> BearerExpected(c) [] c.fam = "combine" -> CombineExpected(c)
                    [] c.fam = "chain" -> ChainExpected(c)   [] c.fam = "ctor" -> CtorExpected(c)
                    [] c.fam = "mtls" -> MtlsExpected(c)     [] c.fam = "jwt" -> JwtExpected(c)
                    [] c.fam = "realchain" -> RealEval(c)
AllConforms(c, o) == CASE c.fam = "bearer" -> BearerConforms(c, o) [] c.fam = "combine" -> CombineConforms(c, o)
                       [] c.fam = "chain" -> ChainConforms(c, o)   [] c.fam = "ctor" -> CtorConforms(c, o)
                       [] c.fam = "mtls" -> MtlsConforms(c, o)     [] c.fam = "jwt" -> JwtConforms(c, o)
                       [] c.fam = "realchain" -> RealConforms(c, o)
Cases == AllCases
Expected(c) == AllExpected(c)
Conforms(c, o) == AllConforms(c, o)
T_ExpectedWellFormed(c) == LET e == AllExpected(c) IN
  c.fam \notin {"combine"} => (e.k \in {"accept", "reject", "raise", "any"} /\ (e.k = "reject" => e.reason \in Closed))
=====================================================================================
