--------------------------------- MODULE ConnIso ---------------------------------
(* Concurrent socket connections served by `_serve_socket_threaded` (vgi_rpc/rpc/_transport.py): one accept loop, one
   thread per accepted connection, an optional semaphore of max_connections permits, the real RpcServer.serve loop per
   connection (lock-step request/response, with its per-connection bookkeeping), clients that run a call script and
   then close.

   Granularity = one scheduler step of one real thread (it runs from its park point to the next):
     loop   start -> accept (parked in accept(): enabled iff a connection is pending or the listener was closed)
            accept -> acq1 (conn.settimeout, about to take the state lock) -> acq2 (conn_count += 1; Thread created)
            -> accept (active.add; t.start())            closed: accept -> acqF -> done (join)
     h[c]   start -> sem (only with max_connections; parked before semaphore.acquire, enabled iff a permit is free)
            -> [transport built = the connection starts being served] read what the client has written:
               io  (parked in recv: enabled iff the client has written something more or closed)
               m   (parked inside the method body / process(); `pt`/`xe` = open + first turn park twice)
            EOF -> [transport.close = stops being served; semaphore.release] fin (about to take the state lock) -> done
     cl[c]  start -> connected (connect() done: the connection sits in the kernel backlog) -> wait (something written,
            parked in recv until a response is there) | opened (a header-less stream was opened, nothing read yet)
            ... -> done (transport closed)
   The state lock is never held across a park point, so it is free at every step boundary and is not a variable.

   Channels are FIFOs of framing items.  c2s: [t |-> "R", i] the request stream of op number i (for t / e / c inside an
   open stream: that turn's input), "SP" the schema + first batch of a stray input stream, "SE" its EOS, "S0" an empty
   stray input stream.  s2c: one item per response, already in the client's vocabulary <<kind, value>>.

   Ops: u | pt (open producer + first tick) | t | xe (open exchange + first exchange) | e | c (close) |
        pr / xr: open a header-less producer / exchange whose init raises.  The call is REJECTED before its input stream
        opens, but the client learns that only at its next t / e / c, whose input stream therefore arrives where the
        server expects a request.  RpcServer.serve keeps, PER CONNECTION, the mark "the next stream may be such a stray
        input" (_ConnectionState.stray_input_possible): set by the rejection, read and cleared at the entry of every
        serve_one; a stream without a method key is swallowed silently iff the mark was set, otherwise it is answered
        with an error stream -- which shifts every later response of that connection by one call.

        g: the client writes a malformed stream (a record batch without a schema message) as its last act: pyarrow
        raises an OSError that RpcServer.serve lets escape, so the per-connection thread leaves through its exception
        path (transport closed without an answer, permit returned) -- a connection that ends abnormally must not cost
        the others anything.  The client observes the end of the connection: <<"x", 0>>.
   sh     the connections whose client brings its own shared-memory segment (any transport object with a `.shm` is
          used that way by the client; the serve loop attaches the segment named in the requests and keeps the
          attachment PER CONNECTION in _ConnectionShm, dropping it when another name shows up or the connection ends).
          att[slot] = whose segment that cache is attached to.  A result / stream batch of such a connection is written
          through the attachment taken at the call's entry; it reaches the client iff the cache still holds that
          connection's segment when it is written.
   Entry point: the public serve_unix(server, path, threaded=True, max_connections=mx); mx is what the caller asked for.

   Service (per connection tag = 101 * c):  u -> tag*1000 + i;  producer: k-th output tag*1000 + k;
   exchange: running sum of the inputs (input of op number i is i); a rejected open answers <<"e", tag>>.
   SharedState = TRUE is the design error "one state for all connections" (stream state AND the stray mark in one
   shared cell), kept to show that the clauses bite.                                                                  *)
EXTENDS Integers, Sequences, FiniteSets, TLC

CONSTANTS Worlds,          \* set of [s |-> function conn -> sequence of ops, mx |-> max_connections, sh |-> set of conns];
                           \* mx = 0 stands for None (no semaphore), otherwise the number of permits
          SharedState      \* design error switch (FALSE = intended)

VARIABLES script, mx, sh, att, loop, acc, backlog, closed, cl, ip, pend, c2s, s2c, eof, dead, h, ml, cur, mid, hs, flag, permits,
          serving, sk, sa, obs
vars == <<script, mx, sh, att, loop, acc, backlog, closed, cl, ip, pend, c2s, s2c, eof, dead, h, ml, cur, mid, hs, flag, permits,
          serving, sk, sa, obs>>

Conns == DOMAIN script
Tag(c) == 101 * c
Slot(c) == IF SharedState THEN 0 ELSE c
NM(op) == CASE op \in {"pt", "xe"} -> 2 [] op = "c" -> 0 [] OTHER -> 1      \* method-body park points of one client op
Rejected(op) == op \in {"pr", "xr"}
Enters(op) == op \in {"u", "pt", "xe", "pr", "xr"}                          \* ops that arrive at a serve_one entry
Rq(i) == [t |-> "R", i |-> i]
SP == [t |-> "SP", i |-> 0]
SE == [t |-> "SE", i |-> 0]
S0 == [t |-> "S0", i |-> 0]
GB == [t |-> "G", i |-> 0]
AfterReject(c, i) == i > 1 /\ Rejected(script[c][i - 1])

InitWith(s, m, shs) ==
        /\ script = s /\ mx = m /\ sh = shs /\ att = [x \in {0} \cup DOMAIN s |-> 0]
        /\ loop = "start" /\ acc = 0 /\ backlog = <<>> /\ closed = FALSE
        /\ cl = [c \in DOMAIN s |-> "start"] /\ ip = [c \in DOMAIN s |-> 0] /\ pend = [c \in DOMAIN s |-> "n"]
        /\ c2s = [c \in DOMAIN s |-> <<>>] /\ s2c = [c \in DOMAIN s |-> <<>>] /\ eof = [c \in DOMAIN s |-> FALSE]
        /\ dead = [c \in DOMAIN s |-> FALSE]
        /\ h = [c \in DOMAIN s |-> "none"] /\ ml = [c \in DOMAIN s |-> 0] /\ cur = [c \in DOMAIN s |-> 0]
        /\ mid = [c \in DOMAIN s |-> FALSE] /\ hs = [c \in DOMAIN s |-> FALSE]
        /\ flag = [x \in {0} \cup DOMAIN s |-> FALSE]
        /\ permits = m /\ serving = {}
        /\ sk = [x \in {0} \cup DOMAIN s |-> 0] /\ sa = [x \in {0} \cup DOMAIN s |-> 0]
        /\ obs = [c \in DOMAIN s |-> <<>>]
Init == \E w \in Worlds : InitWith(w.s, w.mx, w.sh)

\* ------------------------------------------------------------------------------ accept loop
L == /\ CASE loop = "start" -> loop' = "accept" /\ UNCHANGED <<acc, backlog, h>>
          [] loop = "accept" /\ ~closed /\ backlog # <<>> ->
                 loop' = "acq1" /\ acc' = Head(backlog) /\ backlog' = Tail(backlog) /\ UNCHANGED h
          [] loop = "accept" /\ closed -> loop' = "acqF" /\ UNCHANGED <<acc, backlog, h>>
          [] loop = "acq1" -> loop' = "acq2" /\ UNCHANGED <<acc, backlog, h>>
          [] loop = "acq2" -> loop' = "accept" /\ h' = [h EXCEPT ![acc] = "start"] /\ UNCHANGED <<acc, backlog>>
          [] loop = "acqF" -> loop' = "done" /\ UNCHANGED <<acc, backlog, h>>
          [] OTHER -> FALSE
     /\ UNCHANGED <<script, mx, sh, att, closed, cl, ip, pend, c2s, s2c, eof, dead, ml, cur, mid, hs, flag, permits, serving, sk, sa, obs>>
LEnabled == \/ loop \in {"start", "acq1", "acq2", "acqF"}
            \/ loop = "accept" /\ (closed \/ backlog # <<>>)

\* ------------------------------------------------------------------------------ client of connection c
\* Issue ops until the client parks or its script ends.  st = [q (c2s), r (s2c), o (obs), i (ip), cl, pend, eof].
\* After a rejected open the session's first t / e / c writes its input stream and then reads the *rejection*; if that
\* is already there the client does not park at all (t / e: RpcError -> close() writes the EOS) and goes on.
RECURSIVE CIssue(_, _)
CIssue(c, st) ==
  IF st.i = Len(script[c]) THEN [st EXCEPT !.cl = "done", !.eof = TRUE]              \* close the transport
  ELSE LET i == st.i + 1  op == script[c][i] IN
       IF op = "g" THEN [st EXCEPT !.i = i, !.q = Append(@, GB), !.cl = "wait", !.pend = "g"]
       ELSE IF Rejected(op) THEN [st EXCEPT !.i = i, !.q = Append(@, Rq(i)), !.cl = "opened"]
       ELSE IF AfterReject(c, i) /\ op \in {"t", "e", "c"}
       THEN LET q1 == Append(st.q, IF op = "c" THEN S0 ELSE SP) IN
            IF st.r # <<>>
            THEN CIssue(c, [st EXCEPT !.i = i, !.q = IF op = "c" THEN q1 ELSE Append(q1, SE), !.r = Tail(@),
                                      !.o = Append(@, IF op = "c" THEN <<"c", 0>> ELSE Head(st.r))])
            ELSE [st EXCEPT !.i = i, !.q = q1, !.cl = "wait", !.pend = IF op = "c" THEN "d" ELSE "s"]
       ELSE [st EXCEPT !.i = i, !.q = Append(@, Rq(i)), !.cl = "wait", !.pend = IF op = "c" THEN "d" ELSE "n"]
CState(c) == [q |-> c2s[c], r |-> s2c[c], o |-> obs[c], i |-> ip[c], cl |-> cl[c], pend |-> pend[c], eof |-> eof[c]]
CSet(c, st) == /\ c2s' = [c2s EXCEPT ![c] = st.q] /\ s2c' = [s2c EXCEPT ![c] = st.r] /\ obs' = [obs EXCEPT ![c] = st.o]
               /\ ip' = [ip EXCEPT ![c] = st.i] /\ cl' = [cl EXCEPT ![c] = st.cl] /\ pend' = [pend EXCEPT ![c] = st.pend]
               /\ eof' = [eof EXCEPT ![c] = st.eof]
C(c) ==
  /\ c \in Conns
  /\ CASE cl[c] = "start" /\ loop # "start" ->      \* connect(): possible once serve_unix has bound the path; the kernel queues it
            /\ cl' = [cl EXCEPT ![c] = "connected"] /\ backlog' = Append(backlog, c)
            /\ UNCHANGED <<ip, pend, c2s, s2c, eof, obs>>
       [] cl[c] \in {"connected", "opened"} -> CSet(c, CIssue(c, CState(c))) /\ UNCHANGED backlog
       [] cl[c] = "wait" /\ pend[c] = "g" /\ dead[c] ->          \* the server closed the connection without an answer
            CSet(c, CIssue(c, [CState(c) EXCEPT !.o = Append(@, <<"x", 0>>)])) /\ UNCHANGED backlog
       [] cl[c] = "wait" /\ s2c[c] # <<>> ->
            \* the awaited response: close() reports nothing ("d"); "s": the rejection, then close() sends the stray EOS
            LET st == CState(c)
                st1 == [st EXCEPT !.r = Tail(@), !.o = Append(@, IF st.pend = "d" THEN <<"c", 0>> ELSE Head(st.r)),
                                  !.q = IF st.pend = "s" THEN Append(@, SE) ELSE @] IN
            CSet(c, CIssue(c, st1)) /\ UNCHANGED backlog
       [] OTHER -> FALSE
  /\ UNCHANGED <<script, mx, sh, att, loop, acc, closed, dead, h, ml, cur, mid, hs, flag, permits, serving, sk, sa>>
CEnabled(c) == \/ (cl[c] = "start" /\ loop # "start") \/ cl[c] \in {"connected", "opened"} \/ (cl[c] = "wait" /\ s2c[c] # <<>>)
               \/ (cl[c] = "wait" /\ pend[c] = "g" /\ dead[c])

\* ------------------------------------------------------------------------------ per-connection server thread
\* RpcServer.serve: consume what the client has written until a method body is entered, nothing is left (park in recv)
\* or the client has closed.  st = [q, r, mid, hs, fl (the stray mark this connection sees), pc, ml, cur, end].
RECURSIVE HRun(_, _)
HRun(c, st) ==
  IF st.mid                             \* in the middle of a stream without a method key: its EOS is still to come
  THEN IF st.q = <<>> THEN [st EXCEPT !.pc = "io"]
       ELSE HRun(c, [st EXCEPT !.q = Tail(@), !.mid = FALSE, !.r = IF st.hs THEN @ ELSE Append(@, <<"e", 0>>)])
  ELSE IF st.q = <<>>
  THEN IF eof[c] THEN [st EXCEPT !.pc = "fin", !.end = TRUE, !.at = 0] ELSE [st EXCEPT !.pc = "io"]   \* conn_shm.close()
  ELSE LET x == Head(st.q) IN
       CASE x.t = "R" ->
              LET op == script[c][x.i]  f == IF Enters(op) THEN FALSE ELSE st.fl IN      \* serve_one entry clears the mark
              IF NM(op) = 0 THEN HRun(c, [st EXCEPT !.q = Tail(@), !.fl = f, !.r = Append(@, <<"c", 0>>)])
              ELSE [st EXCEPT !.q = Tail(@), !.fl = f, !.pc = "m", !.ml = NM(op), !.cur = x.i,
                              !.at = IF Enters(op) /\ c \in sh THEN c ELSE @]          \* _ConnectionShm.refresh
         [] x.t = "G" -> [st EXCEPT !.q = Tail(@), !.pc = "fin", !.end = TRUE, !.dead = TRUE, !.at = 0]   \* serve() raises
         [] x.t = "SP" -> HRun(c, [st EXCEPT !.q = Tail(@), !.hs = st.fl, !.fl = FALSE, !.mid = TRUE])
         [] OTHER -> HRun(c, [st EXCEPT !.q = Tail(@), !.fl = FALSE, !.r = IF st.fl THEN @ ELSE Append(@, <<"e", 0>>)])
HState(c) == [q |-> c2s[c], r |-> s2c[c], mid |-> mid[c], hs |-> hs[c], fl |-> flag[Slot(c)], pc |-> h[c], ml |-> ml[c],
              cur |-> cur[c], end |-> FALSE, dead |-> dead[c], at |-> att[Slot(c)]]
HSet(c, st, sv, pm) ==
  /\ c2s' = [c2s EXCEPT ![c] = st.q] /\ s2c' = [s2c EXCEPT ![c] = st.r] /\ mid' = [mid EXCEPT ![c] = st.mid]
  /\ hs' = [hs EXCEPT ![c] = st.hs] /\ flag' = [flag EXCEPT ![Slot(c)] = st.fl] /\ h' = [h EXCEPT ![c] = st.pc]
  /\ ml' = [ml EXCEPT ![c] = st.ml] /\ cur' = [cur EXCEPT ![c] = st.cur] /\ dead' = [dead EXCEPT ![c] = st.dead]
  /\ att' = [att EXCEPT ![Slot(c)] = st.at]
  \* EOF: transport.close(); semaphore.release(); next: the state lock
  /\ serving' = IF st.end THEN sv \ {c} ELSE sv
  /\ permits' = IF st.end /\ mx > 0 THEN pm + 1 ELSE pm
Op(c) == script[c][cur[c]]
Result(c) ==          \* what the method / process() call that now returns hands back (i = 0-based op number)
  LET op == Op(c)  i == cur[c] - 1  s == Slot(c) IN
  CASE op = "u" -> [v |-> <<"r", Tag(c) * 1000 + i>>, k |-> sk, a |-> sa]
    [] op \in {"pt", "t"} -> [v |-> <<"d", Tag(c) * 1000 + sk[s] + 1>>, k |-> [sk EXCEPT ![s] = @ + 1], a |-> sa]
    [] Rejected(op) -> [v |-> <<"e", Tag(c)>>, k |-> sk, a |-> sa]
    [] OTHER -> [v |-> <<"d", Tag(c) * 1000 + sa[s] + i + 1>>, k |-> sk, a |-> [sa EXCEPT ![s] = @ + i + 1]]
H(c) ==
  /\ c \in Conns
  /\ CASE h[c] = "start" /\ mx > 0 ->
            h' = [h EXCEPT ![c] = "sem"] /\ UNCHANGED <<att, c2s, s2c, dead, ml, cur, mid, hs, flag, permits, serving, sk, sa>>
       [] (h[c] = "start" /\ mx = 0) \/ (h[c] = "sem" /\ permits > 0) ->
            /\ HSet(c, HRun(c, HState(c)), serving \cup {c}, IF mx > 0 THEN permits - 1 ELSE permits)
            /\ UNCHANGED <<sk, sa>>
       [] h[c] = "io" /\ (c2s[c] # <<>> \/ eof[c]) ->
            HSet(c, HRun(c, HState(c)), serving, permits) /\ UNCHANGED <<sk, sa>>
       [] h[c] = "m" /\ ml[c] > 1 ->      \* init returned: a fresh state object; the first turn's process() parks next
            /\ ml' = [ml EXCEPT ![c] = @ - 1]
            /\ sk' = IF Op(c) = "pt" THEN [sk EXCEPT ![Slot(c)] = 0] ELSE sk
            /\ sa' = IF Op(c) = "xe" THEN [sa EXCEPT ![Slot(c)] = 0] ELSE sa
            /\ UNCHANGED <<att, h, c2s, s2c, dead, cur, mid, hs, flag, permits, serving>>
       [] h[c] = "m" /\ ml[c] = 1 ->
            \* the call returns (or init raises: error stream, and the connection's stray mark is set): response written,
            \* back to reading
            \* (a data-carrying answer of a connection with a segment travels through the cache's attachment)
            LET lost == c \in sh /\ ~Rejected(Op(c)) /\ att[Slot(c)] # c
                st == [HState(c) EXCEPT !.r = Append(@, IF lost THEN <<"e", 0>> ELSE Result(c).v), !.ml = 0,
                                        !.fl = IF Rejected(Op(c)) THEN TRUE ELSE @] IN
            /\ HSet(c, HRun(c, st), serving, permits)
            /\ sk' = Result(c).k /\ sa' = Result(c).a
       [] h[c] = "fin" -> h' = [h EXCEPT ![c] = "done"] /\ UNCHANGED <<att, c2s, s2c, dead, ml, cur, mid, hs, flag, permits, serving, sk, sa>>
       [] OTHER -> FALSE
  /\ UNCHANGED <<script, mx, sh, loop, acc, backlog, closed, cl, ip, pend, eof, obs>>
HEnabled(c) == \/ h[c] \in {"start", "m", "fin"} \/ (h[c] = "sem" /\ permits > 0)
               \/ (h[c] = "io" /\ (c2s[c] # <<>> \/ eof[c]))

\* the harness closes the listening socket once every connection has been served to its end
AllDone == \A c \in Conns : cl[c] = "done" /\ h[c] = "done"
CloseListener == /\ ~closed /\ AllDone /\ loop = "accept" /\ closed' = TRUE
                 /\ UNCHANGED <<script, mx, sh, att, loop, acc, backlog, cl, ip, pend, c2s, s2c, eof, dead, h, ml, cur, mid, hs, flag, permits,
                                serving, sk, sa, obs>>

\* (quantified over a constant range so that TLC labels every step with its thread; C / H check c \in Conns themselves)
Next == L \/ (\E c \in 1..3 : C(c)) \/ (\E c \in 1..3 : H(c)) \/ CloseListener
Spec == Init /\ [][Next]_vars

\* ------------------------------------------------------------------------------ property clauses (C41)
\* what connection c observes when it is served alone: a function of its script only
RECURSIVE SoloFrom(_, _, _, _, _)
SoloFrom(s, c, i, k, a) ==
  IF i > Len(s) THEN <<>>
  ELSE LET op == s[i]  rej == i > 1 /\ Rejected(s[i - 1]) IN
       CASE op = "u" -> <<<<"r", Tag(c) * 1000 + (i - 1)>>>> \o SoloFrom(s, c, i + 1, k, a)
         [] op = "g" -> <<<<"x", 0>>>> \o SoloFrom(s, c, i + 1, k, a)
         [] Rejected(op) -> SoloFrom(s, c, i + 1, k, a)                       \* nothing is read when the stream is opened
         [] rej /\ op \in {"t", "e"} -> <<<<"e", Tag(c)>>>> \o SoloFrom(s, c, i + 1, k, a)
         [] op = "pt" -> <<<<"d", Tag(c) * 1000 + 1>>>> \o SoloFrom(s, c, i + 1, 1, a)
         [] op = "t" -> <<<<"d", Tag(c) * 1000 + k + 1>>>> \o SoloFrom(s, c, i + 1, k + 1, a)
         [] op = "xe" -> <<<<"d", Tag(c) * 1000 + i>>>> \o SoloFrom(s, c, i + 1, k, i)
         [] op = "e" -> <<<<"d", Tag(c) * 1000 + a + i>>>> \o SoloFrom(s, c, i + 1, k, a + i)
         [] OTHER -> <<<<"c", 0>>>> \o SoloFrom(s, c, i + 1, k, a)
Solo(c) == SoloFrom(script[c], c, 1, 0, 0)
IsPrefix(p, s) == Len(p) <= Len(s) /\ \A i \in 1..Len(p) : p[i] = s[i]
\* never more connections served at once than max_connections
ConcLimit == mx > 0 => Cardinality(serving) <= mx
\* each connection observes exactly what it would observe alone (stream states and serve-loop bookkeeping never shared)
IsoHistory == \A c \in Conns : IsPrefix(obs[c], Solo(c))
\* a connection beyond the limit waits and is served later: nothing is ever stuck or dropped
NoStarvation == (~LEnabled /\ (\A c \in Conns : ~CEnabled(c) /\ ~HEnabled(c)) /\ ~closed)
                   => (\A c \in Conns : cl[c] = "done" /\ h[c] = "done" /\ obs[c] = Solo(c))
Finished == loop = "done" => \A c \in Conns : obs[c] = Solo(c)
PermitsSane == permits >= 0 /\ (mx > 0 => permits + Cardinality(serving) = mx)
\* every response is consumed by the call it answers: nothing is left over on either channel
NoLeftover == AllDone => \A c \in Conns : s2c[c] = <<>> /\ c2s[c] = <<>>
Clauses == {x \in {"ConcLimit", "IsoHistory", "NoStarvation"} :
              \/ (x = "ConcLimit" /\ ~ConcLimit) \/ (x = "IsoHistory" /\ ~IsoHistory) \/ (x = "NoStarvation" /\ ~NoStarvation)}
===================================================================================
