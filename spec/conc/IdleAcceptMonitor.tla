------------------------------ MODULE IdleAcceptMonitor ------------------------------
(* The second sentence of C33 as a monitor over the *observable* history of one threaded socket worker,
   independent of how the accept loop is coded.  Events, in the real total order (one thread runs at a time):

     Arm(t, k)      a Timer object t was started; k = interval class: "grace" = max(idle_timeout, 60),
                    "idle" = idle_timeout, "long" > idle_timeout, "short" < idle_timeout
     Fire(t)        t's wait elapsed without a cancel() having reached it (its callback thread starts)
     Accept(c, sr)  accept() returned connection c; sr = shutdown_requested at that moment (0/1, -1 = unobservable)
     ServeBegin(c) / ServeEnd(c)    server.serve() for c entered / left
     Stop           the accept loop took its first step after its last accept() call and then ended on its own:
                    the moment the worker stops accepting

   The monitor accepts every history; clauses are evaluated at Stop and collected per trace.  This is what
   decides VIOLATION for the accept loop; IdleAcceptTrace decides drift.                                       *)
EXTENDS Integers, FiniteSets, Sequences, TLC, Json, IOUtils
Traces == JsonDeserialize(IOEnv.TRACE_FILE)      \* array of [ev |-> <<[e, c, t, k, sr], ...>>]
VARIABLES tid, l, live, late, quiet, kind, idleElapsed, bad
mvars == <<tid, l, live, late, quiet, kind, idleElapsed, bad>>
MInit == /\ tid \in 1..Len(Traces) /\ l = 1 /\ live = {} /\ late = {} /\ quiet = {} /\ kind = <<>>
         /\ idleElapsed = FALSE /\ bad = {}
Ev == Traces[tid].ev[l]
MNext ==
  /\ l <= Len(Traces[tid].ev) /\ l' = l + 1 /\ UNCHANGED tid
  /\ CASE Ev.e = "Arm" ->        \* an idle period can only start while nothing is connected
            /\ quiet' = IF live = {} THEN quiet \cup {Ev.t} ELSE quiet \ {Ev.t}
            /\ kind' = (Ev.t :> Ev.k) @@ kind
            /\ UNCHANGED <<live, late, idleElapsed, bad>>
       [] Ev.e = "Fire" ->
            /\ idleElapsed' = (idleElapsed \/ (Ev.t \in quiet /\ kind[Ev.t] # "short"))
            /\ UNCHANGED <<live, late, quiet, kind, bad>>
       [] Ev.e = "Accept" ->
            /\ live' = live \cup {Ev.c} /\ quiet' = {} /\ idleElapsed' = FALSE
            /\ late' = IF Ev.sr = 1 THEN late \cup {Ev.c} ELSE late
            /\ UNCHANGED <<kind, bad>>
       [] Ev.e = "ServeEnd" ->
            /\ live' = live \ {Ev.c} /\ UNCHANGED <<late, quiet, kind, idleElapsed, bad>>
       [] Ev.e = "Stop" ->
            /\ bad' = bad \cup (IF live # {} THEN {"NoExitWhileServing"} ELSE {})
                          \cup (IF ~idleElapsed /\ DOMAIN kind # {} THEN {"ExitOnlyAfterIdlePeriod"} ELSE {})
                          \cup (IF late \cap live # {} THEN {"NoLateAcceptAbandoned"} ELSE {})
            /\ UNCHANGED <<live, late, quiet, kind, idleElapsed>>
       [] OTHER -> UNCHANGED <<live, late, quiet, kind, idleElapsed, bad>>
MSpec == MInit /\ [][MNext]_mvars
Track == TLCSet(tid, TLCGet(tid) \cup bad)
ASSUME \A i \in 1..Len(Traces) : TLCSet(i, {})
Verdicts == \A i \in 1..Len(Traces) : PrintT("@@J@@" \o ToJson([tid |-> i, bad |-> TLCGet(i)]))
=========================================================================================
