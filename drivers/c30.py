"""C30 -- external-storage offload is transparent and integrity-checked.

Spec: spec/fault/External.tla (producer threshold decision -> storage with a corruption alphabet and pointer
checksum kept/stripped/forged -> consumer pipeline fetch/checksum/walk/count/schema) + spec/fault/ExternalTrace.tla.

Pipeline: (1) TLC model-checks External with the clauses as invariants and enumerates every case with its
behaviour; (2) every case is executed on the real code -- `_write_result_batch` / `_write_stream_header` /
`_flush_collector` / `_build_pointer_request_body` produce, an in-memory ExternalStorage with a tampering hook
stores, `_read_batch_with_log_check` / `_read_stream_header` / `_read_request` (-> resolve_external_location ->
real fetch_url over a fake aiohttp session) consume; whole calls through `serve_pipe` (unary, producer stream with
logs, stream header) and through the real HTTP client/server pair (client-uploaded request, 413 -> upload-URL
flow) are compared with their inline twins; (3) the recorded logs are validated by TLC against
ExternalTrace and judged with External!Violated.
"""
import contextlib
import hashlib
import io
import os
import random
import sys
import warnings
from dataclasses import dataclass
from io import BytesIO
from pathlib import Path
from typing import Protocol

_SHIMS = str(Path(__file__).resolve().parent / "_shims_fault")
if _SHIMS not in sys.path:
    sys.path.insert(0, _SHIMS)          # harness stand-in for the missing `tenacity` (trusted base)

import pyarrow as pa
from pyarrow import ipc

from vgi_rpc.log import Level
from vgi_rpc.rpc import AnnotatedBatch, CallContext, ExchangeState, OutputCollector, ProducerState, Stream
from vgi_rpc.utils import ArrowSerializableDataclass

from drivers._fault_util import model_check, strset, validate_traces
from drivers._fetch_fake import FakeSession, Rec, Reply
from vf.core import Ctx
from vf.tlc import MachineryError

META = {
    "engine": "fault",
    "text": "External.tla models pointer production (threshold, compression, sha256) and resolution (fetch -> sha "
            "check -> walk batches: nested-pointer check, log dispatch -> batch count -> schema check) with "
            "storage-side corruptions {byte flip, truncation, substituted object (plain / with its own log batches / "
            "with an EXCEPTION batch), nested pointer before/after/instead of "
            "the data batch, extra "
            "data batch, zero data batches, schema change} and the pointer checksum kept/stripped/forged; TLC checks "
            "the clauses and enumerates all cases; each runs on the real produce/resolve functions (unary result, "
            "collector cycle with logs, stream header, client-uploaded request) and through serve_pipe end to end; "
            "TLC validates and judges the recorded logs.",
    "note": "Trusted: drivers/_shims_fault/tenacity.py (stand-in for the uninstalled dependency), the in-memory "
            "ExternalStorage/UploadUrlProvider and the fake aiohttp session behind the real fetch_url, the rebuild of "
            "tampered IPC streams with pyarrow, classification of rejection reasons by message text (conformance "
            "only). Byte-level corruption is judged where the pointer carries a checksum (client-vended request "
            "pointers carry none: only structural corruptions apply there). A byte flip that decodes to the "
            "identical payload (codec padding / header bytes) is reclassified as 'no corruption'. Schema changes "
            "that touch metadata only are outside the grammar (pyarrow schema equality ignores them).",
}

ALL_KINDS = ("unary", "collector", "header", "request", "initreq", "xinput", "xupload")
ALL_LAYOUTS = ("D", "LD", "LLD", "LDL")
ALL_CORS = ("none", "flip", "trunc", "subst", "subst_logs", "subst_exc", "nested_before", "nested_after", "nested_only", "extra", "zero",
            "schema")
INVS = ["InvTransparent", "InvShaEnforced", "InvNothingDeliveredBeforeAuthenticated", "InvNoNestedPointer", "InvSingleDataBatch", "InvSchemaEnforced",
        "InvCorruptNeverDelivered", "InvSane"]
FORGED = "FORGED-BY-STORAGE"      # marks every log / error text that exists only inside a substituted object
LAYOUT = {"D": ["D"], "LD": ["L", "D"], "LLD": ["L", "L", "D"], "LDL": ["L", "D", "L"]}


# ---------------------------------------------------------------------------------------------- storage
class MemStorage:
    """ExternalStorage + UploadUrlProvider kept in memory; `objects[id] = [bytes, content_encoding]`."""

    def __init__(self) -> None:
        self.objects: dict[str, list] = {}
        self.uploads: list[tuple[str, str | None, int]] = []
        self.n = 0
        self.on_upload = None       # hook(oid) called after every upload (end-to-end tampering)
        self.flaky: set = set()     # object ids whose next request is answered with a transient 503
        self.flaky_served = 0
        self.on_flaky = None

    def _new(self) -> str:
        self.n += 1
        return f"o{self.n}"

    def url(self, oid: str) -> str:
        return f"https://store.test/bucket/{oid}?X-Sig=SIGSECRET{oid}"

    def upload(self, data: bytes, schema: pa.Schema, *, content_encoding: str | None = None) -> str:
        oid = self._new()
        self.objects[oid] = [bytes(data), content_encoding]
        self.uploads.append((oid, content_encoding, len(data)))
        if self.on_upload is not None:
            self.on_upload(oid)
        return self.url(oid)

    def generate_upload_url(self, schema: pa.Schema):
        import datetime as dt

        from vgi_rpc.external import UploadUrl

        oid = self._new()
        return UploadUrl(upload_url=f"https://store.test/put/{oid}?X-Sig=PUTSECRET{oid}", download_url=self.url(oid),
                         expires_at=dt.datetime(2037, 1, 1, tzinfo=dt.UTC))

    def put(self, upload_url: str, data: bytes) -> None:
        oid = upload_url.split("/put/")[1].split("?")[0]
        self.objects[oid] = [bytes(data), None]
        self.uploads.append((oid, None, len(data)))
        if self.on_upload is not None:
            self.on_upload(oid)

    # origin behind the fake aiohttp session
    def origin(self, rec: Rec, headers: dict) -> Reply:
        import re

        m = re.search(r"/bucket/(o\d+)", rec.url)
        obj = self.objects.get(m.group(1)) if m else None
        if obj is None:
            return Reply(404, {}, b"", "Not Found")
        if m.group(1) in self.flaky:
            self.flaky.discard(m.group(1))
            self.flaky_served += 1
            if self.on_flaky is not None:
                self.on_flaky()
            return Reply(503, {"Retry-After": "0"}, b"busy", "Service Unavailable")
        data, enc = obj
        h = {"Accept-Ranges": "bytes"}
        if enc:
            h["Content-Encoding"] = enc
        if rec.method == "HEAD":
            return Reply(200, {**h, "Content-Length": str(len(data))})
        if rec.range:
            mm = re.match(r"bytes=(\d+)-(\d+)$", rec.range)
            a, b = int(mm[1]), int(mm[2])
            if a >= len(data):
                return Reply(416, {"Content-Range": f"bytes */{len(data)}"}, b"", "Range Not Satisfiable")
            body = data[a:b + 1]
            return Reply(206, {**h, "Content-Range": f"bytes {a}-{a + len(body) - 1}/{len(data)}"}, body, "Partial Content")
        return Reply(200, {**h, "Content-Length": str(len(data))}, data)


class _World:
    """Patches the session factory of vgi_rpc.external_fetch so the real fetch_url reads from MemStorage."""

    def __init__(self) -> None:
        import tenacity

        from vgi_rpc import external_fetch as ef
        from vgi_rpc.external_fetch import FetchConfig

        if not getattr(tenacity, "__file__", "").startswith(_SHIMS):
            self.real_tenacity = True
        else:
            self.real_tenacity = False
            tenacity.sleep = lambda s: None
        self.ef = ef
        self.storage = MemStorage()
        self.saved = ef._create_session
        world = self

        async def create(timeout):
            return FakeSession(lambda rec, h: world.storage.origin(rec, h))

        ef._create_session = create
        # single-GET and parallel-range fetch paths
        self.fetch_cfgs = [FetchConfig(), FetchConfig(parallel_threshold_bytes=512, chunk_size_bytes=300,
                                                     max_parallel_requests=4)]

    def close(self) -> None:
        for c in self.fetch_cfgs:
            c.close()
        self.ef._create_session = self.saved


# ---------------------------------------------------------------------------------------------- codecs / streams
def _encode(raw: bytes, enc: str | None) -> bytes:
    from vgi_rpc._codec import Encoding, compress

    return raw if not enc else compress(Encoding(enc), raw)


def _decode(data: bytes, enc: str | None) -> bytes | None:
    from vgi_rpc._codec import Encoding, decompress

    if not enc:
        return data
    try:
        return decompress(Encoding(enc), data, max_output_size=1 << 28)
    except Exception:  # noqa: BLE001
        return None


def _parse(raw: bytes):
    r = ipc.open_stream(BytesIO(raw))
    out = []
    while True:
        try:
            b, cm = r.read_next_batch_with_custom_metadata()
        except StopIteration:
            break
        out.append((b, cm))
    return r.schema, out


def _build(schema: pa.Schema, batches) -> bytes:
    buf = BytesIO()
    with ipc.new_stream(buf, schema) as w:
        for b, cm in batches:
            if cm is not None:
                w.write_batch(b, custom_metadata=cm)
            else:
                w.write_batch(b)
    return buf.getvalue()


def _is_data(b: pa.RecordBatch, cm) -> bool:
    from vgi_rpc.metadata import LOG_LEVEL_KEY

    return not (b.num_rows == 0 and cm is not None and cm.get(LOG_LEVEL_KEY) is not None)


def _schema_variant(schema: pa.Schema, b: pa.RecordBatch, v: int):
    """The data batch under a different schema (type / name / nullability / extra column / column order)."""
    v %= 5
    cols = [b.column(i) for i in range(b.num_columns)]
    fields = list(schema)
    if v == 0:      # rename the first field
        fields[0] = pa.field(fields[0].name + "_x", fields[0].type, fields[0].nullable)
    elif v == 1:    # add a column
        fields.append(pa.field("extra", pa.int32()))
        cols.append(pa.array([7] * b.num_rows, pa.int32()))
    elif v == 2:    # nullability
        fields[0] = pa.field(fields[0].name, fields[0].type, not fields[0].nullable)
    elif v == 3:    # type of the first column: binary -> large_binary / other -> string of it
        t = pa.large_binary() if pa.types.is_binary(fields[0].type) else pa.string()
        cols[0] = pa.array([x.as_py() if pa.types.is_binary(fields[0].type) else str(x.as_py()) for x in cols[0]], t)
        fields[0] = pa.field(fields[0].name, t, fields[0].nullable)
    else:           # column order (or, for one column, a leading extra one)
        if len(fields) > 1:
            fields.reverse()
            cols.reverse()
        else:
            fields.insert(0, pa.field("lead", pa.int8()))
            cols.insert(0, pa.array([1] * b.num_rows, pa.int8()))
    ns = pa.schema(fields)
    return ns, pa.RecordBatch.from_arrays(cols, schema=ns)


def tamper(stored: bytes, enc: str | None, cor: str, variant: int, rng: random.Random) -> tuple[bytes, bytes | None]:
    """Storage-side corruption.  Returns (new stored bytes, decoded payload of the new object or None)."""
    from vgi_rpc.metadata import LOCATION_KEY

    if cor == "none":
        return stored, _decode(stored, enc)
    if cor == "flip":
        pos = [0, len(stored) // 2, len(stored) - 1, 5, len(stored) // 3][variant % 5] if variant % 7 else \
            rng.randrange(len(stored))
        pos = min(max(pos, 0), len(stored) - 1)
        new = stored[:pos] + bytes([stored[pos] ^ (1 << (variant % 8))]) + stored[pos + 1:]
        return new, _decode(new, enc)
    if cor == "trunc":
        k = [0, len(stored) // 2, len(stored) - 1, 8][variant % 4]
        new = stored[:min(k, len(stored) - 1)]
        return new, _decode(new, enc)
    raw = _decode(stored, enc)
    schema, batches = _parse(raw)
    di = next(i for i, (b, cm) in enumerate(batches) if _is_data(b, cm))
    db, dcm = batches[di]
    if cor in ("subst", "subst_logs", "subst_exc"):
        cols = [pa.array([(x.as_py() or b"")[::-1] + b"!" for x in col], col.type)
                if pa.types.is_binary(col.type) else col for col in db.columns]
        nb = [(pa.RecordBatch.from_arrays(cols, schema=db.schema), dcm)]
        ns = schema
        if cor != "subst":      # the other object is a whole cycle of its own: log / EXCEPTION batches around the data
            from vgi_rpc.log import Message
            from vgi_rpc.metadata import encode_metadata

            def lb(level, text):
                empty = pa.RecordBatch.from_arrays([pa.array([], f.type) for f in schema], schema=schema)
                return empty, encode_metadata(Message(level, text, origin="storage").add_to_metadata())

            if cor == "subst_logs":
                nb = [lb(Level.WARN if variant % 2 else Level.INFO, f"{FORGED} note {variant}"), nb[0],
                      lb(Level.INFO, f"{FORGED} trailer {variant}")]
            else:
                nb = [lb(Level.EXCEPTION, f"{FORGED} failure {variant}"), nb[0]]
    elif cor in ("nested_before", "nested_after", "nested_only"):
        ptr = pa.RecordBatch.from_arrays([pa.array([], f.type) for f in schema], schema=schema)
        pmd = {LOCATION_KEY: b"https://store.test/bucket/o1?X-Sig=loop"}
        if dcm is not None and cor == "nested_only":      # keep the dispatch metadata of a request batch
            pmd = {**dict(dcm.items()), **pmd}
        pcm = pa.KeyValueMetadata(pmd)
        nb = list(batches)
        if cor == "nested_only":
            nb[di] = (ptr, pcm)
        else:
            nb.insert(di if cor == "nested_before" else di + 1, (ptr, pcm))
        ns = schema
    elif cor == "extra":
        nb = list(batches) + [(db, None if variant % 2 else dcm)]
        ns = schema
    elif cor == "zero":
        nb = [x for i, x in enumerate(batches) if i != di]
        ns = schema
    elif cor == "schema":
        ns, sb = _schema_variant(schema, db, variant)
        nb = []
        for i, (b, cm) in enumerate(batches):
            if i == di:
                nb.append((sb, dcm))
            else:
                nb.append((pa.RecordBatch.from_arrays([pa.array([], f.type) for f in ns], schema=ns), cm))
    else:
        raise MachineryError(f"unknown corruption {cor}")
    new_raw = _build(ns, nb)
    return _encode(new_raw, enc), new_raw


def rewrite_pointer(wire: bytes, psha: str, new_raw: bytes | None) -> bytes:
    """The pointer batch inside a wire stream with its checksum kept / stripped / forged."""
    from vgi_rpc.metadata import LOCATION_KEY, LOCATION_SHA256_KEY

    if psha == "kept":
        return wire
    # a header / request wire may consist of several concatenated IPC streams: only the first carries the pointer
    src = BytesIO(wire)
    r = ipc.open_stream(src)
    out = []
    while True:
        try:
            b, cm = r.read_next_batch_with_custom_metadata()
        except StopIteration:
            break
        if cm is not None and cm.get(LOCATION_KEY) is not None and b.num_rows == 0:
            md = {k: v for k, v in cm.items() if k != LOCATION_SHA256_KEY}
            if psha == "forged":
                md[LOCATION_SHA256_KEY] = hashlib.sha256(new_raw or b"").hexdigest().encode()
            cm = pa.KeyValueMetadata(md)
        out.append((b, cm))
    rest = src.read()
    return _build(r.schema, out) + rest


# ---------------------------------------------------------------------------------------------- one case
def _app_md(cm) -> dict:
    """Application metadata of a batch: everything outside the framework's vgi_rpc.* keys."""
    if cm is None:
        return {}
    return {k: v for k, v in cm.items() if not k.startswith(b"vgi_rpc.")}


def _why(exc: BaseException) -> str:
    s = str(exc)
    if FORGED in s or FORGED in repr(getattr(exc, "args", "")):
        return "forged_error"
    for key, why in (("SHA-256 checksum mismatch", "sha"), ("Failed to decompress", "decode"),
                     ("Redirect loop detected", "loop"), ("No data batch", "nodata"),
                     ("Multiple data batches", "multi"), ("Schema mismatch", "schema")):
        if key in s:
            return why
    return "other:" + type(exc).__name__


def _logs_key(msgs) -> list:
    return [(m.level.name, m.message, sorted((k, str(v)) for k, v in (m.extra or {}).items()
                                             if k not in ("server_id", "request_id"))) for m in msgs]


@dataclass(frozen=True)
class BigHeader(ArrowSerializableDataclass):
    blob: bytes
    n: int


_HDR = BigHeader


def run_case(world: _World, case: dict, variant: int, rng: random.Random) -> tuple[dict, dict]:
    """Execute one External case on the real produce / resolve functions."""
    from vgi_rpc.external import Compression, ServerExternalConfig
    from vgi_rpc.http._client import _build_pointer_request_body
    from vgi_rpc.rpc._wire import (_flush_collector, _read_batch_with_log_check, _read_request, _read_stream_header,
                                   _write_request, _write_result_batch, _write_stream_header)
    from vgi_rpc.utils import IpcValidation, ValidatedReader

    st = world.storage
    st.on_upload = None
    n_before = len(st.uploads)
    kind, cor, psha = case["kind"], case["cor"], case["psha"]
    size = [64, 700, 5000, 1][variant % 4]
    blob = rng.randbytes(size)
    comp = None if case["comp"] == "none" else Compression(algorithm=case["comp"], level=[3, 1, 6][variant % 3])
    fetch_cfg = world.fetch_cfgs[variant % 2]
    log: list[dict] = []
    inline_logs: list = []
    got_logs: list = []

    # -- the payload and its inline twin
    if kind == "unary":
        schema = pa.schema([pa.field("result", pa.binary())])
        probe = pa.RecordBatch.from_arrays([pa.array([blob], pa.binary())], schema=schema)
    elif kind == "header":
        hdr = _HDR(blob=blob, n=variant)
        probe = hdr._serialize()
    elif kind == "collector":
        schema = pa.schema([pa.field("v", pa.binary()), pa.field("k", pa.int64())])
        rows = 1 + variant % 3
        probe = pa.RecordBatch.from_arrays([pa.array([blob] * rows, pa.binary()), pa.array(list(range(rows)), pa.int64())],
                                           schema=schema)
    else:
        schema = pa.schema([pa.field("payload", pa.binary()), pa.field("k", pa.int64())])
        kwargs = {"payload": blob, "k": variant}
        body = BytesIO()
        _write_request(body, "put_blob", schema, kwargs)
        body = body.getvalue()
        probe = None
    psize = probe.get_total_buffer_size() if probe is not None else len(body)
    thr = {"zero": 0, "at": psize, "above": psize + 1}[case["thr"]]
    cfg = ServerExternalConfig(storage=st, externalize_threshold_bytes=thr, compression=comp, fetch_config=fetch_cfg,
                               retry_delay_seconds=0.0)

    # -- produce
    wire = BytesIO()
    if kind == "unary":
        with ipc.new_stream(wire, schema) as w:
            _write_result_batch(w, schema, blob, cfg)
        expected = probe
    elif kind == "header":
        _write_stream_header(wire, hdr, cfg)
        expected = hdr
    elif kind == "collector":
        out = OutputCollector(schema, server_id="srv")
        for j, x in enumerate(LAYOUT[case["layout"]]):
            if x == "L":
                out.client_log(Level.INFO if j % 2 == 0 else Level.WARN, f"note {j} of {variant}", step=str(j))
            else:
                out.emit(probe, metadata={"app.tag": f"t{variant}", "app.unit": "rows"} if case["md"] else None)
        inline_logs = [(("INFO" if j % 2 == 0 else "WARN"), f"note {j} of {variant}", [("step", str(j))])
                       for j, x in enumerate(LAYOUT[case["layout"]]) if x == "L"]
        with ipc.new_stream(wire, schema) as w:
            _flush_collector(w, out, cfg)
        expected = probe
    else:
        if case["thr"] == "above":
            wire.write(body)
        else:   # the upload-URL flow of http/_client.py:_externalize_via_upload_url, minus the HTTP hops
            u = st.generate_upload_url(schema)
            st.put(u.upload_url, body)
            wire.write(_build_pointer_request_body(body, u.download_url))
        expected = ("put_blob", kwargs)
    wire = wire.getvalue()
    ups = st.uploads[n_before:]
    if len(ups) > 1:
        raise MachineryError(f"case produced {len(ups)} uploads")
    log.append({"e": "route", "r": "external" if ups else "inline"})
    effective = dict(case)
    if ups:
        oid, enc, _ = ups[0]
        log.append({"e": "upload", "enc": enc or "none"})
        stored = st.objects[oid][0]
        orig_raw = _decode(stored, enc)
        new, new_raw = tamper(stored, enc, cor, variant, rng)
        if cor in ("flip", "trunc") and new_raw is not None and new_raw == orig_raw:
            effective["cor"] = "none"       # the change did not reach the payload (codec header / padding bits)
        st.objects[oid][0] = new
        wire = rewrite_pointer(wire, psha, new_raw)
        log.append({"e": "tamper", "cor": effective["cor"], "psha": psha})
        if case["flaky"]:
            st.flaky.add(oid)
            st.on_flaky = lambda: log.append({"e": "retry"})

    # -- consume
    md_ok = True

    def on_log(m) -> None:
        got_logs.append(m)
        log.append({"e": "log", "forged": FORGED in m.message})

    try:
        if kind == "header":
            got = _read_stream_header(BytesIO(wire), _HDR, IpcValidation.FULL, on_log, cfg)
            what = "D" if got == expected else "O"
        elif kind == "request":
            got = _read_request(BytesIO(wire), IpcValidation.FULL, cfg)
            what = "D" if (got[0] == expected[0] and got[1] == expected[1]) else "O"
        else:
            reader = ValidatedReader(ipc.open_stream(BytesIO(wire)), IpcValidation.FULL)
            ab = _read_batch_with_log_check(reader, on_log, cfg)
            while True:     # the rest of the cycle (trailing log batches); a second data batch would be a wire bug
                try:
                    more = _read_batch_with_log_check(reader, on_log, cfg)
                except StopIteration:
                    break
                raise MachineryError(f"second data batch on the wire: {more.batch.num_rows} rows")
            what = "D" if (ab.batch.equals(expected) and ab.batch.schema.equals(expected.schema)) else "O"
            want_md = {b"app.tag": f"t{variant}".encode(), b"app.unit": b"rows"} if case["md"] else {}
            md_ok = _app_md(ab.custom_metadata) == want_md
        logs_ok = _logs_key(got_logs) == [(a, b, c) for a, b, c in inline_logs]
        log.append({"e": "deliver", "what": what, "logs": len(got_logs), "logs_ok": logs_ok, "md_ok": md_ok})
        err = None
    except MachineryError:
        raise
    except Exception as exc:  # noqa: BLE001 -- any failure is "not delivered"; the reason is conformance only
        log.append({"e": "reject", "why": _why(exc)})
        err = f"{type(exc).__name__}: {str(exc)[:200]}"
    finally:
        st.flaky.clear()
        st.on_flaky = None
    return {"case": effective, "log": log}, {"level": "functions", "variant": variant, "size": size, "error": err,
                                            "requested_case": case}


# ---------------------------------------------------------------------------------------------- end to end
OUT = pa.schema([pa.field("v", pa.binary()), pa.field("k", pa.int64())])
IN = pa.schema([pa.field("v", pa.binary()), pa.field("k", pa.int64())])
MAX_REQUEST = 2000          # advertised / enforced request cap of the HTTP leg: larger bodies take the upload-URL flow


@dataclass
class Prod(ProducerState):
    size: int           # the blob is regenerated from (size, seed): the state travels in HTTP state tokens
    seed: int
    layout: str
    md: bool
    warm: int           # small cycles before the big one (the big one is then fetched by a continuation request)
    done: bool = False

    def produce(self, out: OutputCollector, ctx: CallContext) -> None:
        if self.warm > 0:
            self.warm -= 1
            out.emit(pa.RecordBatch.from_arrays([pa.array([b"w"], pa.binary()), pa.array([0], pa.int64())], schema=OUT))
            return
        if self.done:
            out.finish()
            return
        self.done = True
        for j, x in enumerate(LAYOUT[self.layout]):
            if x == "L":
                out.client_log(Level.INFO if j % 2 == 0 else Level.WARN, f"note {j}", step=str(j))
            else:
                blob = random.Random(self.seed).randbytes(self.size)
                out.emit(pa.RecordBatch.from_arrays([pa.array([blob], pa.binary()), pa.array([1], pa.int64())],
                                                    schema=OUT),
                         metadata={"app.tag": "t", "app.unit": "rows"} if self.md else None)


@dataclass
class Quiet(ProducerState):
    def produce(self, out: OutputCollector, ctx: CallContext) -> None:
        out.finish()


SEEN: list = []             # what application code (method bodies / exchange steps) was handed, per run


@dataclass
class Echo(ExchangeState):
    def exchange(self, input: AnnotatedBatch, out: OutputCollector, ctx: CallContext) -> None:
        SEEN.append(("ex", input.batch.to_pydict()))
        out.emit(pa.RecordBatch.from_arrays([pa.array([b"ok"], pa.binary()), pa.array([input.batch.num_rows], pa.int64())],
                                            schema=OUT))


class Svc(Protocol):
    def blob(self, size: int, seed: int) -> bytes: ...
    def prod(self, size: int, seed: int, layout: str, md: bool, warm: int) -> Stream[ProducerState]: ...
    def head(self, size: int, seed: int) -> Stream[ProducerState, BigHeader]: ...
    def ex(self) -> Stream[ExchangeState]: ...
    def put_blob(self, payload: bytes, k: int) -> int: ...
    def feed(self, payload: bytes, k: int) -> Stream[ProducerState]: ...


class Impl:
    def blob(self, size: int, seed: int) -> bytes:
        return random.Random(seed).randbytes(size)

    def prod(self, size: int, seed: int, layout: str, md: bool, warm: int) -> Stream[Prod]:
        return Stream(output_schema=OUT, state=Prod(size=size, seed=seed, layout=layout, md=md, warm=warm))

    def head(self, size: int, seed: int) -> Stream[Quiet, BigHeader]:
        return Stream(output_schema=OUT, state=Quiet(), header=BigHeader(blob=random.Random(seed).randbytes(size), n=seed))

    def ex(self) -> Stream[Echo]:
        return Stream(output_schema=OUT, state=Echo(), input_schema=IN)

    def put_blob(self, payload: bytes, k: int) -> int:
        SEEN.append(("put", payload, k))
        return len(payload) + k

    def feed(self, payload: bytes, k: int) -> Stream[Quiet]:
        SEEN.append(("feed", payload, k))
        return Stream(output_schema=OUT, state=Quiet())


def _rows(sess, token_api: bool) -> list:
    rows = []
    if token_api:
        while True:
            ab, _tok = sess.next_with_token()
            if ab is None:
                break
            rows.append((ab.batch.to_pydict(), _app_md(ab.custom_metadata)))
    else:
        for ab in sess:
            rows.append((ab.batch.to_pydict(), _app_md(ab.custom_metadata)))
    return rows


def _call(proxy, case: dict, size: int, seed: int, flavour: dict, pointer=None):
    """One whole call; returns a comparable history of what the caller / the implementation got."""
    kind = case["kind"]
    if kind == "unary":
        return ("value", proxy.blob(size=size, seed=seed))
    if kind == "collector":
        sess = proxy.prod(size=size, seed=seed, layout=case["layout"], md=case["md"], warm=flavour["warm"])
        return ("batches", _rows(sess, flavour["token"]))
    if kind == "header":
        sess = proxy.head(size=size, seed=seed)
        h = sess.header
        return ("header", (h.blob, h.n), _rows(sess, False))
    payload = random.Random(seed).randbytes(size)
    if kind == "request":
        return ("put", proxy.put_blob(payload=payload, k=seed))
    if kind == "initreq":
        sess = proxy.feed(payload=payload, k=seed)
        return ("feed", _rows(sess, False))
    # exchange input: handed over as data (inline / to be uploaded by the HTTP client) or as a ready-made pointer
    data = pa.RecordBatch.from_arrays([pa.array([payload], pa.binary()), pa.array([seed], pa.int64())], schema=IN)
    sess = proxy.ex()
    try:
        if pointer is not None:
            out = sess.exchange(AnnotatedBatch(batch=pointer[0], custom_metadata=pointer[1]))
        else:
            out = sess.exchange(AnnotatedBatch(batch=data))
        return ("ex", out.batch.to_pydict())
    finally:
        with contextlib.suppress(Exception):
            sess.close()


class _Legs:
    """Connections of the end-to-end levels: in-process pipe, and the real HTTP client (httpx2 over WSGITransport)
    against the real WSGI app with the upload-URL provider."""

    def __init__(self, world: _World) -> None:
        self.world = world

    @contextlib.contextmanager
    def connect(self, level: str, cfg, on_log):
        from vgi_rpc.rpc import RpcServer, serve_pipe

        if level == "serve_pipe":
            with serve_pipe(Svc, Impl(), on_log=on_log, external_location=cfg) as p:
                yield p
            return
        import httpx2

        from vgi_rpc.external import ClientExternalConfig
        from vgi_rpc.http import http_connect, make_wsgi_app

        st = self.world.storage
        app = make_wsgi_app(RpcServer(Svc, Impl(), external_location=cfg), upload_url_provider=st,
                            max_request_bytes=MAX_REQUEST, token_key=b"k" * 32)

        def store(req):
            if req.method == "PUT":
                st.put(str(req.url), req.content)
                return httpx2.Response(200)
            return httpx2.Response(405)

        client = httpx2.Client(base_url="http://rpc.test", mounts={"all://store.test": httpx2.MockTransport(store),
                                                                   "all://rpc.test": httpx2.WSGITransport(app=app)})
        try:
            ccfg = None if cfg is None else ClientExternalConfig(fetch_config=self.world.fetch_cfgs[0],
                                                                 retry_delay_seconds=0.0)
            with http_connect(Svc, client=client, prefix="", on_log=on_log, external_location=ccfg,
                              compression_level=None) as p:
                yield p
        finally:
            client.close()


def _psize(case: dict, size: int, seed: int) -> int:
    """get_total_buffer_size() of the batch the threshold is compared with."""
    blob = random.Random(seed).randbytes(size)
    if case["kind"] == "unary":
        return pa.RecordBatch.from_arrays([pa.array([blob], pa.binary())], names=["result"]).get_total_buffer_size()
    if case["kind"] == "header":
        return BigHeader(blob=blob, n=seed)._serialize().get_total_buffer_size()
    return pa.RecordBatch.from_arrays([pa.array([blob], pa.binary()), pa.array([1], pa.int64())],
                                      schema=OUT).get_total_buffer_size()


E2E_KINDS = {"serve_pipe": ("unary", "collector", "header", "xinput"),
             "http": ("unary", "collector", "header", "request", "initreq", "xupload")}


def run_e2e(world: _World, legs: _Legs, case: dict, variant: int, rng: random.Random, level: str) -> tuple[dict, dict]:
    """The case as one whole call through a real server and client (pipe or HTTP), compared with its inline twin."""
    from vgi_rpc.external import Compression, ServerExternalConfig, make_external_location_batch

    st = world.storage
    kind, cor, psha = case["kind"], case["cor"], case["psha"]
    to_server = kind in ("request", "initreq", "xupload", "xinput")
    uploaded = kind in ("request", "initreq", "xupload")
    seed = variant
    if uploaded:        # the HTTP client externalises what does not fit MAX_REQUEST
        size = 300 if case["thr"] == "above" else [MAX_REQUEST + 200, 6000][variant % 2]
    else:
        size = [900, 4000][variant % 2]
    flavour = {"warm": 0, "token": False}
    if kind == "collector" and case["thr"] != "zero":
        flavour = [{"warm": 0, "token": False}, {"warm": 1, "token": False},
                   {"warm": 1, "token": level == "http"}][variant % 3]

    # ---- inline twin
    SEEN.clear()
    inline_logs: list = []
    with legs.connect(level, None, inline_logs.append) as p:
        ref = _call(p, dict(case, thr="above"), size if not uploaded else 300, seed, flavour)
    ref_seen = list(SEEN)
    if uploaded:        # the twin of an uploaded request is the same call with a payload that fits inline ...
        ref, ref_seen = None, None      # ... so only the implementation's view is compared (below)

    # ---- the externalised call
    if to_server:
        cfg = ServerExternalConfig(storage=st, externalize_threshold_bytes=10**9, fetch_config=world.fetch_cfgs[variant % 2],
                                   retry_delay_seconds=0.0)
    else:
        psize = _psize(case, size, seed)
        thr = {"zero": 0, "at": psize, "above": psize + 1}[case["thr"]]
        comp = None if case["comp"] == "none" else Compression(algorithm=case["comp"])
        cfg = ServerExternalConfig(storage=st, externalize_threshold_bytes=thr, compression=comp,
                                   fetch_config=world.fetch_cfgs[variant % 2], retry_delay_seconds=0.0)
    n_before = len(st.uploads)
    effective = dict(case)
    state = {"new_raw": None, "orig_raw": None}

    def hook(oid: str) -> None:
        stored, enc = st.objects[oid]
        state["orig_raw"] = _decode(stored, enc)
        new, new_raw = tamper(stored, enc, cor, variant, rng)
        state["new_raw"] = new_raw
        if cor in ("flip", "trunc") and new_raw is not None and new_raw == state["orig_raw"]:
            effective["cor"] = "none"
        st.objects[oid][0] = new
        if case["flaky"]:
            st.flaky.add(oid)

    st.on_upload = hook
    st.flaky_served = 0
    pointer = None
    if kind == "xinput" and case["thr"] != "above":     # the caller hands over a pointer it produced itself
        payload = random.Random(seed).randbytes(size)
        data = pa.RecordBatch.from_arrays([pa.array([payload], pa.binary()), pa.array([seed], pa.int64())], schema=IN)
        raw = _build(IN, [(data, None)])
        url = st.upload(raw, IN)
        sha = {"kept": hashlib.sha256(raw).hexdigest(), "stripped": None,
               "forged": hashlib.sha256(state["new_raw"] or b"").hexdigest()}[psha]
        pointer = make_external_location_batch(IN, url, sha)
    SEEN.clear()
    got_logs: list = []
    err, got = None, None
    try:
        with legs.connect(level, cfg, got_logs.append) as p:
            got = _call(p, case, size, seed, flavour, pointer)
    except Exception as exc:  # noqa: BLE001
        err = exc
    finally:
        st.on_upload = None
        st.flaky.clear()
    seen = list(SEEN)
    ups = st.uploads[n_before:]
    if len(ups) > 1:
        raise MachineryError(f"end-to-end case produced {len(ups)} uploads: {case} {level}")
    log: list[dict] = [{"e": "route", "r": "external" if ups else "inline"}]
    if ups:
        log.append({"e": "upload", "enc": ups[0][1] or "none"})
        log.append({"e": "tamper", "cor": effective["cor"], "psha": psha if kind == "xinput" else "kept"})
        log += [{"e": "retry"}] * st.flaky_served
    log += [{"e": "log", "forged": FORGED in m.message} for m in got_logs]
    if to_server:
        # application code = the method body / exchange step: was it handed the payload, and the right one?
        payload = random.Random(seed).randbytes(size)
        want = {"request": [("put", payload, seed)], "initreq": [("feed", payload, seed)],
                "xupload": [("ex", {"v": [payload], "k": [seed]})], "xinput": [("ex", {"v": [payload], "k": [seed]})]}[kind]
        if seen:
            log.append({"e": "deliver", "what": "D" if (seen == want and err is None) else "O", "logs": len(got_logs),
                        "logs_ok": _logs_key(got_logs) == _logs_key(inline_logs), "md_ok": True})
        else:
            log.append({"e": "reject", "why": _why(err) if err is not None else "other:no-call"})
    elif err is None:
        same_data = got == ref if kind != "collector" else [r[0] for r in got[1]] == [r[0] for r in ref[1]]
        md_ok = True if kind != "collector" else [r[1] for r in got[1]] == [r[1] for r in ref[1]]
        log.append({"e": "deliver", "what": "D" if same_data else "O", "logs": len(got_logs),
                    "logs_ok": _logs_key(got_logs) == _logs_key(inline_logs), "md_ok": md_ok})
    else:
        log.append({"e": "reject", "why": _why(err)})
    return {"case": effective, "log": log}, {"level": level, "variant": variant, "size": size, "flavour": flavour,
                                            "error": None if err is None else f"{type(err).__name__}: {str(err)[:200]}",
                                            "requested_case": case}


# ---------------------------------------------------------------------------------------------- check
def _consts(kinds=ALL_KINDS, layouts=ALL_LAYOUTS, thr=("zero", "at", "above"), comps=("none", "zstd", "gzip"),
            cors=ALL_CORS) -> dict:
    return {"Kinds": strset(*kinds), "Layouts": strset(*layouts), "Thresholds": strset(*thr), "Comps": strset(*comps),
            "Corruptions": strset(*cors)}


def _sig(case: dict, m: dict) -> dict:
    return {"kind": case["kind"], "cor": case["cor"], "psha": case["psha"], "comp": case["comp"], "thr": case["thr"],
            "layout": case["layout"], "md": case.get("md", False), "flaky": case.get("flaky", 0), "level": m["level"],
            "flavour": m.get("flavour")}


def run(ctx: Ctx) -> None:
    warnings.filterwarnings("ignore")
    import logging

    logging.getLogger("vgi_rpc").setLevel(logging.CRITICAL)
    wd = ctx.wd.stage("fault")
    quick = ctx.quick
    ctx.rule = ("one evaluation = one payload (kind, collector layout, threshold, compression, corruption, pointer "
                "checksum kept/stripped/forged) with one concretisation (payload size, flip position / schema-change "
                "flavour, fetch path, first-turn / continuation / next_with_token read site) produced and resolved by the "
                "real functions, or one whole call through serve_pipe or through the real HTTP client and WSGI app; "
                "non-trivial = distinct (case, level, variant)")
    ctx.assume("drivers/_shims_fault/tenacity.py stands in for the uninstalled `tenacity` (trusted base)",
               "in-memory ExternalStorage / UploadUrlProvider; real fetch_url over the fake aiohttp session",
               "client-uploaded request: function level emulates the upload-URL flow up to _build_pointer_request_body; "
               "the http level runs the real client (httpx2 over WSGITransport, request compression off) and server",
               "a byte flip / truncation that leaves the decoded payload identical counts as no corruption")
    r = model_check(ctx, wd, "External", "mc+gen", _consts(), INVS + ["Emit"], deadlock=True, workers=4)
    behs = r.json_lines
    if not behs:
        raise MachineryError("External: no behaviours emitted")
    cases = []
    seen = set()
    for b in behs:
        k = repr(sorted(b["case"].items()))
        if k not in seen:
            seen.add(k)
            cases.append(b["case"])
    ctx.exhaustive = True
    ctx.extra["cases_enumerated_by_tlc"] = len(cases)
    if ctx.replay_record:
        cases = [ctx.replay_record["detail"]["concrete"]["requested_case"]]

    world = _World()
    ctx.extra["tenacity"] = "real package" if world.real_tenacity else "harness stand-in"
    traces, meta = [], []
    nvar = 2 if quick else 16
    legs = _Legs(world)
    rep = ctx.replay_record["detail"]["concrete"] if ctx.replay_record else None
    try:
        for ci, case in enumerate(cases):
            kind = case["kind"]
            if kind in ("unary", "collector", "header", "request") and (rep is None or rep["level"] == "functions"):
                for v in (range(nvar) if rep is None else [rep["variant"] - ci * 3]):
                    variant = ci * 3 + v
                    tr, m = run_case(world, case, variant, ctx.rng)
                    traces.append(tr)
                    meta.append(m)
                    ctx.case([case, "functions", v], sample={"case": case, "real_log": tr["log"], "concrete": m}
                             if case["cor"] != "none" and v == 0 and ci % 97 == 0 else None)
            for level in ("serve_pipe", "http"):
                if kind not in E2E_KINDS[level] or (case["psha"] != "kept" and kind != "xinput"):
                    continue
                if rep is not None:
                    if rep["level"] != level:
                        continue
                    vs = [rep["variant"]]
                else:
                    # client -> server kinds and the response-side HTTP read sites exist only end to end: every case;
                    # the server -> client kinds over the pipe repeat the function level: sampled in quick
                    dense = kind in ("initreq", "xinput", "xupload", "request") or level == "http"
                    if quick and not dense and ci % 4:
                        continue
                    if quick and dense and kind in ("unary", "collector", "header") and ci % 2:
                        continue
                    vs = [ci + 7 * j for j in range(1 if quick else 3)]
                for variant in vs:
                    tr, m = run_e2e(world, legs, case, variant, ctx.rng, level)
                    traces.append(tr)
                    meta.append(m)
                    ctx.case([case, level, variant],
                             sample={"case": case, "real_log": tr["log"], "concrete": m} if ci % 211 == 0 else None)
    finally:
        world.close()
    verdicts = validate_traces(ctx, wd, "ExternalTrace", traces, _consts())
    for v in verdicts:
        t, m = traces[v["i"]], meta[v["i"]]
        detail = {"case": t["case"], "real_log": t["log"], "concrete": m, "matched_events": v["matched"]}
        for cl in v["bad"]:
            ctx.violation(cl, _sig(t["case"], m), detail)
        if not v["bad"] and not v["accepted"]:
            ctx.drift.append({"what": "real log is not a behaviour of External.tla (no clause false)",
                              "first_unexplained_event": v["matched"] + 1, **detail})
    ctx.extra["drift_count"] = len(ctx.drift)
    _observations(ctx, world)


def _observations(ctx: Ctx, world: _World) -> None:
    """Facts outside the statement, recorded in the evidence only."""
    ctx.extra["observations_outside_statement"] = [
        "client-vended request pointers (_build_pointer_request_body) carry no vgi_rpc.location.sha256: a byte-level "
        "change of an uploaded request is only caught if it breaks IPC parsing",
        "_fetch_and_resolve hands log batches of a fetched stream to on_log before the batch-count / schema checks: a "
        "payload rejected for those reasons (pointer without checksum) has already delivered its log messages",
    ]
