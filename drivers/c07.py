"""C07 -- implementation errors reach the client faithfully.  Spec: spec/wire/ErrFaithful.tla (decision table)."""
import multiprocessing as mp
import os
import random

from drivers import _wire3_tlc as table
from vf.core import Ctx
from vf.tlc import MachineryError

META = {
    "engine": "wire",
    "text": "TLC enumerates ErrFaithful!Cases: exception class (built-in / library classes, user-defined subclasses, "
            "the four framework typed errors with error_kind and a user subclass of one) x message class (no args, "
            "empty, ASCII, unicode, >=10 kB, multi-line) x dispatch site (unary, unary after logging, stream init, "
            "init after logging, first / second / third process step, step after a log, step after an emitted batch; "
            "producer and exchange streams with and without header) x transport (pipe, HTTP in-process, HTTP with a "
            "response-size budget that packs several producer steps into one body), plus a succeeding control row per "
            "shape, and checks the table-sanity invariants (kind table total and injective on the framework "
            "classes). Every case is executed on a real service through the real clients (RpcConnection over "
            "make_pipe_pair; http_connect over make_sync_client behind a recording wrapper) with several concrete "
            "messages per class; the implementation records what it raised; RpcError attributes and every HTTP "
            "status / X-VGI-RPC-Error header / body-carries-error fact are judged by TLC with ErrFaithful!Conforms.",
    "note": "Trusted: the transcription of WIRE_PROTOCOL.md section 8 (kind table, client error fields); 'message "
            "carries the text' = str(exc) is a substring of RpcError.error_message; 'error kind exposed' = an "
            "attribute of the client error (error_kind, or any attribute holding the kind) -- a kind reachable only "
            "by parsing remote_traceback/message text is not 'exposed'; BaseException subclasses outside Exception "
            "(SystemExit, KeyboardInterrupt) are not raised; HTTP legs use the in-process falcon client.",
    "technique": "TLC-enumerated decision table; every case executed on real pipe and in-process HTTP clients; TLC "
                 "judges every recorded observation",
}

INVS = ["TypedHaveKind", "UntypedNoKind", "SiteValid", "GroupsDisjoint", "KindInjective", "FrameworkCovered",
        "CoordsValid", "OneAtATime", "CapBothSides"]
TYPED = ["MethodNotImplementedError", "ProtocolVersionError", "SessionLostError", "ServerDrainingError", "UserSessionLost"]
BUILTINS_Q = ["ValueError", "KeyError", "TypeError"]
BUILTINS_T = ["ValueError", "KeyError", "TypeError", "RuntimeError", "AttributeError", "OSError", "BrokenPipeError",
              "StopIteration", "AssertionError", "NotImplementedError", "ZeroDivisionError", "PermissionError",
              "LookupError", "ArrowInvalid", "RpcError", "VersionError", "UnicodeDecodeError", "Exception",
              "ExceptionGroup", "HTTPBadRequest"]
USER_Q = ["UserError"]
USER_T = ["UserError", "UserValueError", "UserStrError"]
SITES_Q = ["init", "init_log", "p1", "p1_emit", "p2", "p2_log"]
SITES_T = SITES_Q + ["p1_log", "p2_emit", "p3"]
TIGHT_CAP = 16384      # response caps of the "httptight" / "httptightx" deployments (ErrFaithful!CapTransports)
MSGS = ["noargs", "empty", "ascii", "unicode", "long", "multiline"]


def _marked(n: int, ch: str = "x") -> str:
    """n characters with position markers, so that a cut anywhere is visible."""
    s = "".join(f"[{i:06d}]" + ch * 8 for i in range(n // 16 + 1))
    return s[:n]


FIXED = {
    "ascii": ["x", "boom: value=%s %d {} {0}", 'quote " backslash \\ json {"a": [1, 2]}', "  leading and trailing  ",
              "colon: inside: twice", "'single' \"double\" `back`", "<html>&amp;</html>", "0", "None"],
    "unicode": ["h\u00e9llo w\u00f6rld", "\u65e5\u672c\u8a9e\u306e\u30a8\u30e9\u30fc", "astral \U0001f680\U0001f525 plane",
                "combining e\u0301 a\u030a", "rtl \u202eabc\u202c", "nul \x00 inside", "line sep \u2028 para sep \u2029 nel \x85",
                "\ufeffbom first", "\u00df\u2192\u1e9e \u0130i \ufb03", "\u00a0nbsp\u3000ideographic space"],
    "long": [_marked(10240), _marked(10241), _marked(10239), "\u00e9" * 10240, _marked(16001), _marked(20000),
             _marked(65536)],
    "multiline": ["a\nb", "\n", "line1\r\nline2\n", "trailing\n", "\n\nleading", "tab\tand\nnewline",
                  "\n".join(f"line {i}" for i in range(50)), "cr\ronly", "a\n\nb\n\n\nc"],
}
LONG_T = [_marked(200_000)]


def concretize(mclass: str, idx: int, rng: random.Random, thorough: bool) -> list[tuple[str, int]]:
    """abstract message class -> [(message, constructor arity)]"""
    if mclass == "noargs":
        return [("", 0)]
    if mclass == "empty":
        return [("", 1)]
    if mclass == "multiarg":          # C(text, 42): str(exc) is the repr of the args tuple
        return [(FIXED["ascii"][idx % len(FIXED["ascii"])], 2)] + ([(FIXED["multiline"][idx % 5], 2)] if thorough else [])
    if mclass == "nonstr":            # C(12345)
        return [("", 3)]
    if mclass == "surrogate":         # SURR_MARK + 4 hex digits = one lone surrogate, built on the server side
        pool = ["cannot open data-\uf8ffdcff.bin", "\uf8ffd800", "tail \uf8ffdfff", "\uf8ffdc80 two \uf8ffdc81 of them",
                "h\u00e9 \uf8ffdcff mixed \U0001f680"]
        return [(pool[idx % len(pool)], 1)]
    fixed = FIXED[mclass] + (LONG_T if (thorough and mclass == "long") else [])
    out = [(fixed[idx % len(fixed)], 1)]
    if thorough:
        if mclass == "ascii":
            n = rng.choice([1, 2, 7, 63, 64, 65, 255, 256, 499, 500, 501, 1000])
            out.append(("".join(chr(rng.randrange(32, 127)) for _ in range(n)), 1))
        elif mclass == "unicode":
            pools = [(0xA1, 0x24F), (0x370, 0x3FF), (0x4E00, 0x4FFF), (0x1F300, 0x1F5FF), (0x600, 0x6FF)]
            lo, hi = rng.choice(pools)
            out.append(("".join(chr(rng.randrange(lo, hi)) for _ in range(rng.randrange(1, 40))), 1))
        elif mclass == "long":
            out.append((_marked(rng.randrange(10240, 40000), rng.choice("xyz\u00e9\n")), 1))
        elif mclass == "multiline":
            out.append(("\n".join("".join(chr(rng.randrange(32, 127)) for _ in range(rng.randrange(0, 30)))
                                  for _ in range(rng.randrange(2, 12))), 1))
    return out


# ------------------------------------------------------------------------------------------ worker (own process)
_WORLDS: dict = {}


def _world(tr: str):
    from drivers import _wire3_world as W

    w = _WORLDS.get(tr)
    if w is None:
        if tr in ("pipe", "unix", "tcp", "shm"):
            w = W.PipeWorld(pair=tr)
        elif tr == "pipehook":
            w = W.PipeWorld(hook=True)
        elif tr == "http":
            w = W.HttpWorld()
        elif tr == "httpbuf":
            w = W.HttpWorld(max_response_bytes=1_000_000)
        elif tr == "httpsticky":
            w = W.HttpWorld(enable_sticky=True)
        elif tr == "httpplain":
            w = W.HttpWorld(plain=True)
        elif tr == "httphook":
            w = W.HttpWorld(hook=True)
        elif tr == "httptight":
            w = W.HttpWorld(max_response_bytes=TIGHT_CAP)
        elif tr == "httptightx":
            w = W.HttpWorld(max_response_bytes=TIGHT_CAP, max_externalized_response_bytes=TIGHT_CAP)
        else:
            raise ValueError(tr)
        _WORLDS[tr] = w
    return w


def _carried(text: str, got: str) -> bool:
    """The exception text is carried: verbatim, or -- when it holds lone surrogates, which UTF-8 cannot encode --
    every surrogate-free segment of it, in order."""
    if not any(0xD800 <= ord(ch) <= 0xDFFF for ch in text):
        return text in got
    seg, segs = "", []
    for ch in text:
        if 0xD800 <= ord(ch) <= 0xDFFF:
            segs.append(seg)
            seg = ""
        else:
            seg += ch
    segs.append(seg)
    pos = 0
    for sg in segs:
        i = got.find(sg, pos)
        if i < 0:
            return False
        pos = i + len(sg)
    return True


def _exec(job: dict, fresh: bool = False) -> dict:
    from drivers import _wire3_world as W

    c = job["case"]
    tr = c["tr"]
    http = tr.startswith("http")
    if fresh:
        _WORLDS.pop(tr, None)
    w = _world(tr)
    if not http and not w.th.is_alive():       # an earlier case ended this serve loop: never run on a dead connection
        _WORLDS.pop(tr, None)
        w = _world(tr)
    del W.TRUTH_ALL[:]
    if http:
        del w.client.log[:]
    site = c["site"]
    follow: dict = {}

    def body():
        cls = c["cls"] if c["cls"] != "none" else "ValueError"
        cls += "".join("+" + x for x in (c["chain"], c["depth"]) if x in ("cause", "context", "deep"))
        r = W.run_call(w.px, c["shape"], cls, job["msg"], job["argc"], site, ["i"], http, mode=c["mode"])
        if http and c["cls"] != "none":
            # a *successful* call of the same shape right after the failure, in the same thread / request context:
            # its responses are successful responses and must not carry the marker
            f = W.run_call(w.px, c["shape"], "ValueError", "", 1, "none", ["t", "t"], http)   # init + >=1 continuation
            follow["events"] = f["events"]
            follow["ok"] = not f["errors"] and not f["others"] and (
                f["events"] == [["result", 7]] if c["shape"] == "unary"
                else [x[0] for x in f["events"]] == ["opened", "data", "data"])
        return r

    res, hung = W.with_watchdog(body, 40.0 if fresh else 8.0, server_thread=None if http else w.th)
    if not http and (hung or not res["errors"] or res["others"]):
        w.th.join(0.5)                            # give a dying serve loop the time to say why
    server_died = (not http) and not w.th.is_alive()
    truth = [t for t in W.TRUTH_ALL if t["type"]]
    srv = truth[-1] if truth else None
    o = {"nerr": 0, "nother": 0, "hung": hung, "etype": "", "srvtype": srv["type"] if srv else "", "msg_ok": False,
         "kind": "", "done": False, "http": [], "follow": "none"}
    info: dict = {"events": None, "srv_kind": srv["kind"] if srv else None}
    if server_died:
        info["serve_loop_ended_with"] = list(w.died)
    if hung:
        if not http:
            w.reopen()
    else:
        ev = res["events"]
        info["events"] = ev
        o["nerr"], o["nother"] = len(res["errors"]), len(res["others"])
        if res["errors"]:
            e = res["errors"][0]
            o["etype"] = str(e.error_type)
            o["msg_ok"] = bool(srv is not None and _carried(srv["text"], e.error_message))
            info["error_message_len"] = len(e.error_message)
            info["error_message_head"] = e.error_message[:160]
            if hasattr(e, "error_kind"):
                k = e.error_kind
                o["kind"] = "" if k in (None, "") else str(k)
            else:
                # leniency against a differently named attribute: any attribute holding exactly the kind counts
                want = srv["kind"] if srv else None
                hit = [v for v in vars(e).values() if isinstance(v, str) and want and v == want]
                o["kind"] = hit[0] if hit else "<noattr>"
        if res["others"]:
            info["other"] = [repr(x)[:200] for x in res["others"]]
        kinds = [x[0] for x in ev]
        if c["shape"] == "unary":
            o["done"] = ev == [["result", 7]]
        elif c["shape"].startswith("prod"):
            o["done"] = kinds == ["opened"] + ["data"] * W.PROD_LEN + ["stop"]
        else:
            o["done"] = kinds == ["opened"] + ["data"] * (W.PROD_LEN + 1)
    if follow:
        o["follow"] = "ok" if follow["ok"] else "bad"
        info["follow_events"] = follow["events"]
    if http:
        for rec in w.client.log:
            f = W.http_response_facts(rec)
            o["http"].append({"status": f["status"], "marker": f["marker"], "err": f["err"]})
        info["urls"] = [r["url"] for r in w.client.log]
        info["body_bytes"] = [len(r["body"]) for r in w.client.log]
    return {"obs": o, "info": info}


def _suspicious(c: dict, o: dict) -> bool:
    if c["cls"] == "none":
        return o["nerr"] != 0 or o["nother"] != 0 or o["hung"] or not o["done"]
    return o["nerr"] != 1 or o["nother"] != 0 or o["hung"] or o["etype"] != c["cls"] or not o["msg_ok"]


def _warm() -> None:
    import logging
    import warnings

    import os
    import sys

    warnings.filterwarnings("ignore")
    logging.disable(logging.CRITICAL)
    sys.stderr = open(os.devnull, "w")      # falcon prints the traceback of every unhandled responder exception
    from drivers import _wire3_world  # noqa: F401
    import vgi_rpc.http  # noqa: F401
    from vgi_rpc.http import _testing  # noqa: F401


def work(jobs: list[dict]) -> list[dict]:
    import logging
    import warnings

    warnings.filterwarnings("ignore")
    logging.disable(logging.CRITICAL)      # the server logs every method error with a traceback: not needed here
    out = []
    for job in jobs:
        r = _exec(job)
        c = job["case"]
        sock = not c["tr"].startswith("http")
        reached = c["cls"] == "none" or r["obs"]["srvtype"] != ""      # did the implementation get to its raise site
        if r["info"].get("serve_loop_ended_with") and reached:
            _WORLDS.pop(c["tr"], None)       # this case ended the serve loop; the observation stands
        elif r["obs"]["hung"] or not reached or (sock and _suspicious(c, r["obs"])):
            # a verdict must not depend on what an earlier call left on the connection (that is C04's subject),
            # nor on a slow machine: anything odd is repeated on a fresh connection with a generous watchdog
            r2 = _exec(job, fresh=True)
            r2["info"]["first_attempt_on_shared_connection"] = r["obs"]
            r = r2
        out.append(r)
    for w in _WORLDS.values():
        w.close()
    return out


# ------------------------------------------------------------------------------------------ driver
def run(ctx: Ctx) -> None:
    quick = ctx.quick
    consts = {"Builtins": set(BUILTINS_Q if quick else BUILTINS_T), "UserClasses": set(USER_Q if quick else USER_T),
              "TypedClasses": set(TYPED[:4] if quick else TYPED), "MsgClasses": set(MSGS[1:] if quick else MSGS),
              "Transports": {"pipe", "http"} if quick else {"pipe", "http", "httpbuf"},
              "StreamSites": set(SITES_Q if quick else SITES_T),
              # one-at-a-time variations (gap review): reduced grid x {extra transports, extra message shapes,
              # exception chains, deep tracebacks, alternative client consumption}
              "VClasses": {"ValueError", "SessionLostError"} if quick
              else {"ValueError", "KeyError", "SessionLostError"},
              "VMsgClasses": {"ascii"} if quick else {"ascii", "long"},
              "XMsgClasses": {"multiarg", "nonstr", "surrogate"},
              "XTransports": {"unix", "shm", "pipehook", "httphook", "httpsticky", "httpplain"} if quick
              else {"unix", "tcp", "shm", "pipehook", "httphook", "httpsticky", "httpplain"},
              "Chains": {"none", "cause", "context"}, "Depths": {"shallow", "deep"},
              "Modes": {"iter", "foriter", "token"},
              "CapTransports": {"httptight"} if quick else {"httptight", "httptightx"}}
    nproc = int(os.environ.get("VERIF_PROCS", "8" if quick else "10"))
    pool = mp.get_context("spawn").Pool(nproc, initializer=_warm)       # imports overlap with the TLC enumeration
    try:
        cases = table.enumerate_cases(ctx, "wire", "ErrFaithful", constants=consts, invariants=INVS)
        ctx.exhaustive = True
        ctx.rule = ("case = (exception class, message class, stream shape, raise site, transport) enumerated by TLC from "
                    "ErrFaithful!Cases; one real call per (case, concrete message); non-trivial = distinct (case, concrete "
                    "message) pairs executed on the real code")
        ctx.assume("HTTP legs use the in-process falcon test client (make_sync_client) behind a recording wrapper",
                   "the exception text is str(exc) as recorded by the implementation at the raise site",
                   "stream calls are consumed by iterating until the error / the end (tick on pipes, __iter__ / exchange over HTTP)",
                   "quick runs a class subset (3 built-in, 1 user, the 4 framework typed errors), 5 of the 6 message classes and 6 of the 9 stream sites on pipe+http; thorough all 26 classes, all message classes, all sites and httpbuf")

        cases.sort(key=lambda j: (j["case"]["tr"], j["case"]["cls"], j["case"]["shape"], j["case"]["site"], j["case"]["msg"],
                              j["case"]["mode"], j["case"]["chain"], j["case"]["depth"]))
        jobs = []
        for i, cj in enumerate(cases):
            c = cj["case"]
            if c["cls"] == "none":
                jobs.append({"case": c, "exp": cj["exp"], "msg": "unused", "argc": 1})
                continue
            for msg, argc in concretize(c["msg"], i, ctx.rng, not quick):
                jobs.append({"case": c, "exp": cj["exp"], "msg": msg, "argc": argc})
        # interleave so that every worker sees every transport (each keeps one world per transport)
        shards = [jobs[k::nproc] for k in range(nproc)]
        import time as _t
        t0 = _t.time()
        try:
            parts = pool.map_async(work, shards).get(timeout=1500)
        except mp.TimeoutError as e:
            pool.terminate()
            raise MachineryError("C07 workers did not finish") from e
        pool.close()
        ctx.extra["real_code_phase_s"] = round(_t.time() - t0, 1)
        results: list = [None] * len(jobs)
        for k, part in enumerate(parts):
            for j, r in zip(range(k, len(jobs), nproc), part):
                results[j] = r

        obs = []
        for job, r in zip(jobs, results):
            c = job["case"]
            ctx.case([c, job["msg"][:64], len(job["msg"]), job["argc"]])
            obs.append({"case": c, "obs": r["obs"]})
        step = max(1, len(jobs) // 5)
        for job, r in list(zip(jobs, results))[::step][:5]:
            ctx.sample({"case": job["case"], "message": job["msg"][:80], "message_len": len(job["msg"]),
                        "observed": r["obs"], "client_events": r["info"].get("events")})
        bad = table.judge(ctx, "wire", "ErrFaithful", obs, constants=consts)
        n_kind = 0
        for idx, clauses in bad:
            job, r = jobs[idx], results[idx]
            c = job["case"]
            o = r["obs"]
            if "RaisedWhatWasAsked" in clauses and not (o["srvtype"] == "" and (o["nerr"] or o["nother"] or o["hung"])):
                # (an error / hang that reached the client before the implementation raised anything is the code's
                #  doing and is judged by NoSpuriousError; anything else here is the harness's)
                raise MachineryError(f"harness: the implementation did not raise what the case asked for: {c} {r}")
            sig_base = {"cls": c["cls"], "group": job["exp"]["group"], "msg": c["msg"], "shape": c["shape"],
                        "site": c["site"], "tr": c["tr"], "mode": c["mode"], "chain": c["chain"], "depth": c["depth"]}
            for cl in clauses:
                if cl == "RaisedWhatWasAsked":
                    continue
                if cl == "SuccessAfterFailure":      # not a clause of the statement (connection/worker reuse is C04/C14)
                    ctx.drift.append({"case": c, "follow_up_call_failed": r["info"].get("follow_events")})
                    continue
                if cl == "KindExposed":
                    n_kind += 1
                ctx.violation(cl, dict(sig_base, exposed=r["obs"]["kind"]) if cl == "KindExposed" else sig_base,
                              {"case": c, "message": job["msg"][:200], "message_len": len(job["msg"]), "argc": job["argc"],
                               "observed": r["obs"], "info": r["info"]})
        ctx.extra["typed_cases_without_exposed_kind"] = n_kind
        ctx.extra["jobs"] = len(jobs)
        ctx.extra["workers"] = nproc
    finally:
        pool.terminate()
