"""C03 -- serializable dataclasses round-trip for every supported shape.  Spec: spec/data/TypeGrammar.tla (Mode = "dc")."""
import copy
import dataclasses
import datetime as dt
import warnings
from dataclasses import InitVar, field, make_dataclass
from typing import Annotated, ClassVar

from vf import table
from vf.core import Ctx
from vf.tlc import Raw

from drivers import _data_types as T

META = {
    "engine": "data",
    "text": "TypeGrammar.tla (Mode=dc) generates the dataclass field-annotation grammar -- opt / list / frozenset / dict "
            "(str,int,bytes,Enum keys) / nested dataclass over scalars, explicit Arrow widths, Enum, decimal, temporal, "
            "pa.Schema, pa.RecordBatch, plus tuple/set as documented-unsupported -- to depth 2 exhaustively over the full "
            "alphabet and to depth 3 over a 5-constructor alphabet, with a value class per leaf (boundaries, +-0.0, NaN, "
            "empty, non-ASCII, enum value != name, out of range) x shape (None / empty / single / multi) x field variant "
            "(plain / default / transient sibling) and the oracle roundtrip | rejected | def_rejected. TLC enumerates the "
            "space and checks table sanity; each case is built with dataclasses.make_dataclass + "
            "ArrowSerializableDataclass, deserialize_from_bytes(serialize_to_bytes(x)) is compared with x "
            "(NaN/signed-zero aware, type strict), the HTTP state codec (_serialize_state_bytes/_deserialize_state_bytes) "
            "is run on StreamState subclasses of the same shapes, and TLC judges every observation with Conforms.",
    "note": "What TLA+ contributes is exhaustiveness over shapes x value classes and the accept/reject oracle; equality of "
            "concrete values is sampled inside each class (boundaries exact; bulk members drawn by hypothesis strategies seeded from VERIF_SEED). msgpack is not installed: serialize_compact() is dead code in "
            "this sandbox, the compact-vs-Arrow agreement clause is NOT covered (reported in evidence).",
}

INV = ["ShapeApplies", "NoValueNoReject", "ClassesPartition", "SetsHoldHashables", "ScopeRespected"]
ALL_CTORS = ["opt", "list", "set", "map_str", "map_int", "map_bytes", "map_enum", "dc", "dcb"]
ALL_VARIANTS = ["plain", "default", "transient", "inherited", "extras", "slots"]
ALL_LEAVES = ["int", "i8", "i16", "i32", "u8", "u16", "u32", "u64", "float", "f32", "str", "bytes", "bool", "enum", "senum", "menum", "ienum", "dec",
              "nt_int", "nt_str", "nt_bytes", "nt_enum", "nt_dc", "ann_int", "dc0", "dct", "custom", "f16", "ts_ns",
              "ts_us", "ts_tz", "date", "time", "dur", "schema", "batch", "tuple", "mset"]


def sset(xs) -> Raw:
    return Raw("{" + ", ".join('"%s"' % x for x in xs) + "}")


_CLS: dict = {}


def build_class(term: tuple, variant: str, state: bool):
    """-> (cls, error or None).  'define' = make_dataclass + ARROW_SCHEMA generation."""
    key = (term, variant, state)
    if key in _CLS:
        return _CLS[key]
    from vgi_rpc.utils import ArrowSerializableDataclass, Transient

    try:
        ann = T.annotation(term)
        fields: list = [("v", ann)]
        ns: dict = {}
        bases: tuple = (ArrowSerializableDataclass,)
        kw: dict = {}
        if variant == "transient":
            fields.append(("cache", Annotated[dict, Transient()], field(default_factory=dict)))
        elif variant == "extras":      # pseudo-fields and a property next to the real field
            fields += [("K", ClassVar[int], 5), ("seed", InitVar[int], 0)]
            ns["double"] = property(lambda self: [self.v, self.v])
        elif variant == "inherited":   # child of a serializable dataclass whose schema / plan caches are already filled
            bases = (T.WarmParent,)
        elif variant == "slots":
            kw["slots"] = True
        name = "C_" + "_".join(term) + "_" + variant + ("_st" if state else "")
        if state:
            from vgi_rpc.rpc import ProducerState

            cls = make_dataclass(name, fields, bases=(ProducerState,), namespace={"produce": lambda self, out, ctx: None})
        else:
            cls = make_dataclass(name, fields, bases=bases, namespace=ns, frozen=True, **kw)
        _ = cls.ARROW_SCHEMA
        res = (cls, None)
    except Exception as e:  # noqa: BLE001
        res = (None, f"{type(e).__name__}: {str(e)[:160]}")
    _CLS[key] = res
    return res


def build_default_class(term: tuple, default_value):
    """variant 'default': the field's default is a concrete in-class value (factory for unhashable ones)."""
    from vgi_rpc.utils import ArrowSerializableDataclass

    ann = T.annotation(term)
    cls = make_dataclass("C_" + "_".join(term) + "_dflt", [("v", ann, field(default_factory=lambda: copy.deepcopy(default_value)))],
                         bases=(ArrowSerializableDataclass,), frozen=True)
    _ = cls.ARROW_SCHEMA
    return cls


def roundtrip(cls, inst, state: bool):
    if state:
        from vgi_rpc.http.server._state_token import _deserialize_state_bytes, _serialize_state_bytes
        from vgi_rpc.utils import IpcValidation

        raw = _serialize_state_bytes(inst, cls)
        return _deserialize_state_bytes(cls, raw, IpcValidation.FULL)
    return cls.deserialize_from_bytes(inst.serialize_to_bytes())


def run(ctx: Ctx) -> None:
    warnings.filterwarnings("ignore")
    quick = ctx.quick
    rng = ctx.rng
    T.SEED = ctx.seed
    from vgi_rpc import utils as U

    ctx.rule = ("case = (field annotation term, shape, leaf value class, field variant, concrete value, codec leg); terms/classes "
                "enumerated by TLC from TypeGrammar!Cases; non-trivial = distinct (term, variant, leg, repr of the concrete "
                "instance) on which serialize+deserialize ran")
    ctx.assume("float32 values are drawn from float32's value set; lossy double->float32 narrowing is judged with the "
               "set-valued oracle (error or IEEE nearest), see TypeGrammar!Conforms",
               "Decimal and aware datetimes are compared with Python == (numeric / instant equality)",
               "transient fields are compared with their default after the round trip (they are excluded from the wire by design)",
               "NaN and -0.0 are not placed inside frozensets (hash-based equality cannot observe them)")
    ctx.extra["compact_codec_leg"] = ("NOT COVERED: msgpack is not installed (_HAVE_MSGPACK=%s), serialize_compact() returns None "
                                      "for every class, so 'compact decodes to the same object as Arrow' was not executed"
                                      % U._HAVE_MSGPACK)
    deep = ["int", "u64", "f32", "str", "enum", "dec", "schema", "batch"] if quick else ALL_LEAVES[:-2]
    deep3 = ["int", "enum", "str", "f32"] if quick else ["int", "enum", "str", "f32", "bytes", "dec", "schema"]
    runs = [("depth2", {"Mode": "dc", "MaxDepth": 2, "Ctors": sset(ALL_CTORS), "Leaves": sset(ALL_LEAVES), "DeepLeaves": sset(deep),
                        "SigLeaves": sset([]), "Variants": sset(ALL_VARIANTS)}),
            ("depth3", {"Mode": "dc", "MaxDepth": 3, "Ctors": sset(["opt", "list", "set", "map_str", "dc"]),
                        "Leaves": sset(deep3), "DeepLeaves": sset(deep3), "SigLeaves": sset([]), "Variants": sset(["plain"])})]
    seen_cases = set()
    all_cases = []
    for name, consts in runs:
        cs = table.enumerate_cases(ctx, "data", "TypeGrammar", constants=consts, invariants=INV, name=f"TypeGrammar:dc:{name}")
        fresh = []
        for cj in cs:
            c = cj["case"]
            key = (tuple(c["t"]), c["shape"], c["k"], c["variant"])
            if key in seen_cases:
                continue
            seen_cases.add(key)
            fresh.append((cj, consts))
        if name == "depth3" and quick:   # quick: depth 3 is a seeded sample of the enumerated space
            deep = [x for x in fresh if len(x[0]["case"]["t"]) == 4]
            fresh = rng.sample(deep, min(len(deep), 800))
            ctx.extra["depth3_sampled"] = {"enumerated": len(deep), "executed": len(fresh)}
        all_cases.append((name, consts, fresh))
    ctx.exhaustive = not quick
    nval = 2 if quick else 4
    per_run_obs: dict = {}
    stats = {"types": set(), "def_errors": {}, "outcomes": {}}
    for name, consts, fresh in all_cases:
        obs = per_run_obs.setdefault(name, [])
        for cj, _ in fresh:
            c, exp = cj["case"], cj["exp"]
            term = tuple(c["t"])
            leaf = term[-1]
            stats["types"].add(term)
            legs = [False] + ([True] if (c["variant"] == "plain" and len(term) <= 2) else [])
            if term in (("dc0",), ("dct",)) and c["variant"] == "plain" and c["shape"] == "single":
                # the leaf dataclass itself as the top-level object: a zero-column batch on the wire
                for inst in T.leaf_values(leaf, c["k"], rng, 2):
                    outcome, detail = "equal", {}
                    try:
                        back = type(inst).deserialize_from_bytes(inst.serialize_to_bytes())
                        if not (type(back) is type(inst) and T.same(back, inst)):
                            outcome, detail = "changed", {"sent": T.show(inst), "got": T.show(back)}
                    except Exception as e:  # noqa: BLE001
                        outcome, detail = "error", {"sent": T.show(inst), "error": f"{type(e).__name__}: {str(e)[:160]}"}
                    obs.append(_o(c, "call", outcome, False, {**detail, "leg": "standalone", "expected": exp}))
                    ctx.case([term, "standalone", T.show(inst)])
            for state in legs:
                cls, err = build_class(term, "plain" if c["variant"] == "default" else c["variant"], state)
                if err is not None:
                    obs.append(_o(c, "define", "def_error", False, {"error": err, "leg": "state" if state else "bytes"}))
                    stats["def_errors"][leaf] = err
                    ctx.case([term, c["variant"], state, "define"])
                    continue
                if c["shape"] in ("none", "empty"):
                    vals = [T.make_value(term, c["shape"], [], [])]
                else:
                    members = T.leaf_values(leaf, c["k"], rng, nval)
                    extras = []
                    if c["shape"] == "multi":
                        others = [k for k in _in_range(leaf) if k != c["k"] and not ("set" in term and k in ("nan", "negzero"))]
                        extras = [T.leaf_values(leaf, k, rng, 1)[0] for k in others[:3]]
                        vals = [T.make_value(term, "multi", members, extras)]
                    else:
                        vals = [T.make_value(term, "single", [m], []) for m in members]
                for v in vals:
                    try:
                        if c["variant"] == "default":
                            dcls = build_default_class(term, v)
                            insts = [(dcls, dcls(), v)]           # omitted -> default
                            other = T.make_value(term, "none" if term[0] == "opt" else "single",
                                                 T.leaf_values(leaf, _in_range(leaf)[0], rng, 1), [])
                            if exp == "roundtrip":
                                insts.append((dcls, dcls(v=other), other))  # explicit value different from the default
                        elif c["variant"] == "transient":
                            insts = [(cls, cls(v=v, cache={"k": 1}), v)]
                        elif c["variant"] == "inherited":
                            insts = [(cls, cls(p=11, v=v), v)]
                        elif c["variant"] == "extras":
                            insts = [(cls, cls(v=v, seed=7), v)]
                        else:
                            insts = [(cls, cls(v=v), v)]
                    except Exception as e:  # noqa: BLE001  (constructing the instance is harness work)
                        ctx.extra.setdefault("instance_build_errors", []).append(f"{term} {type(e).__name__}: {e}"[:200])
                        continue
                    for k_cls, inst, want in insts:
                        outcome, detail, nearest = "equal", {}, False
                        try:
                            back = roundtrip(k_cls, inst, state)
                            ok = type(back) is k_cls and T.same(back.v, want)
                            if ok and c["variant"] == "transient":
                                ok = back.cache == {}
                            if ok and c["variant"] == "inherited":
                                ok = back.p == 11 and [f.name for f in dataclasses.fields(back)] == ["p", "v"]
                            if ok and c["variant"] == "extras":
                                ok = type(back).K == 5 and T.same(back.double, [want, want])
                            if not ok:
                                outcome = "changed"
                                detail = {"sent": T.show(inst), "got": T.show(back)}
                                if leaf == "f32" and c["shape"] == "single" and isinstance(want, float):
                                    pass
                                nearest = _nearest_ok(term, want, getattr(back, "v", None))
                        except Exception as e:  # noqa: BLE001
                            outcome = "error"
                            detail = {"sent": T.show(inst), "error": f"{type(e).__name__}: {str(e)[:160]}"}
                        stats["outcomes"][outcome] = stats["outcomes"].get(outcome, 0) + 1
                        obs.append(_o(c, "call", outcome, nearest, {**detail, "leg": "state" if state else "bytes", "expected": exp}))
                        ctx.case([term, c["variant"], state, T.show(inst, 300)])
    ctx.extra["distinct_field_types"] = len(stats["types"])
    ctx.extra["outcomes"] = stats["outcomes"]
    if stats["def_errors"]:
        ctx.extra["definition_time_rejections_by_leaf"] = stats["def_errors"]
    sampled = 0
    for name, consts, fresh in all_cases:
        obs = per_run_obs[name]
        for o in obs[:: max(1, len(obs) // 2)][:2]:
            if sampled < 6:
                ctx.sample({"case": o["case"], "observed": o["obs"], "concrete": o["_c"]})
                sampled += 1
        bad = table.judge(ctx, "data", "TypeGrammar", [{"case": o["case"], "obs": o["obs"]} for o in obs], constants=consts)
        for idx, clauses in bad:
            o = obs[idx]
            c = o["case"]
            byfam = ctx.extra.setdefault("false_clause_by_family", {})
            for cl in clauses:
                key = f"{cl}/{family(c['t'])}/{o['obs']['outcome']}"
                byfam[key] = byfam.get(key, 0) + 1
                ctx.violation(cl, {"family": family(c["t"]), "term": "/".join(c["t"]), "shape": c["shape"], "k": c["k"],
                                   "variant": c["variant"], "newtype_over": c["t"][-1] if c["t"][-1] in ("nt_enum", "nt_dc") else "-", "leg": o["_c"].get("leg")},
                              {"observed": o["obs"], "concrete": o["_c"]})
        # a supported annotation refused at definition time, or an unrepresentable value that came back equal, is a
        # mismatch between the grammar and the code, not a violation: recorded as drift
        for o in obs:
            e = o["_c"].get("expected")
            if o["obs"]["outcome"] == "def_error" and o["case"]["t"][-1] not in ("tuple", "mset") and len(ctx.drift) < 20:
                ctx.drift.append({"term": o["case"]["t"], "note": "in-scope annotation refused at definition time", "error": o["_c"].get("error")})
            if e == "rejected" and o["obs"]["outcome"] == "equal" and len(ctx.drift) < 20:
                ctx.drift.append({"term": o["case"]["t"], "k": o["case"]["k"], "note": "value classed unrepresentable round-tripped equal"})


def _in_range(leaf: str) -> list:
    table_ = {"float": ["typical", "zero", "negzero", "nan", "inf", "max", "denorm"], "f32": ["typical", "zero", "negzero", "nan", "inf", "max", "denorm"],
              "str": ["ascii", "empty", "nonascii", "nul"], "bytes": ["nul_ff", "empty", "long"], "bool": ["true", "false"],
              "enum": ["value_ne_name", "value_is_other_name", "int_valued"], "senum": ["value_ne_name", "value_is_other_name"],
              "menum": ["value_ne_name", "value_is_other_name"], "ienum": ["int_valued"],
              "nt_enum": ["value_ne_name", "value_is_other_name", "int_valued"], "nt_dc": ["instance"], "dc0": ["instance"], "dct": ["instance"],
              "custom": ["nul_ff", "empty"], "nt_str": ["ascii", "empty", "nonascii", "nul"], "nt_bytes": ["nul_ff", "empty", "long"],
              "f16": ["typical", "zero", "negzero", "nan", "inf", "max"], "ts_ns": ["micro", "epoch"], "dec": ["neg", "zero", "max_digits"],
              "ts_us": ["micro", "epoch", "min", "max"], "ts_tz": ["utc", "offset"], "date": ["epoch", "min", "max"],
              "time": ["max", "midnight"], "dur": ["neg", "zero", "big"], "schema": ["with_metadata", "empty", "nested"],
              "batch": ["rows", "zero_rows", "with_metadata"], "tuple": ["any"], "mset": ["any"]}
    if leaf in T.INT_RANGE:
        return ["max", "zero", "min", "neg"] if T.INT_RANGE[leaf][0] < 0 else ["max", "zero", "mid"]
    return table_[leaf]


def _nearest_ok(term, sent, got) -> bool:
    """the changed value is exactly the admissible image of what was sent (T.lossy_image: IEEE nearest float of the
    declared width / naive-aware coercion), applied leaf-wise through containers and dataclasses"""
    leaf = term[-1]
    if leaf not in ("f32", "f16", "ts_us", "ts_tz"):
        return False

    def img(x):
        if isinstance(x, (float, dt.datetime)):
            return T.lossy_image(leaf, x)
        if isinstance(x, list):
            return [img(y) for y in x]
        if isinstance(x, frozenset):
            return frozenset(img(y) for y in x)
        if isinstance(x, dict):
            return {k: img(y) for k, y in x.items()}
        if dataclasses.is_dataclass(x) and not isinstance(x, type):
            return dataclasses.replace(x, **{f.name: img(getattr(x, f.name)) for f in dataclasses.fields(x)})
        return x
    try:
        return T.same(img(sent), got)
    except Exception:  # noqa: BLE001
        return False


NEEDS_CONVERSION = {"enum", "senum", "menum", "ienum", "nt_enum", "nt_dc", "dc0", "dct", "custom", "dcb", "dc", "set", "map_str", "map_int", "map_bytes", "map_enum", "schema", "batch"}


def family(term) -> str:
    """Coarse class of a term for known-finding matching: does a frozenset / dict sit above something whose decoded
    form needs a conversion step (Enum name -> member, struct -> dataclass, list -> frozenset/dict, bytes -> Schema)?"""
    t = list(term)
    tags = set()
    for i, h in enumerate(t[:-1]):
        below = set(t[i + 1:])
        if h == "set" and below & NEEDS_CONVERSION:
            tags.add("under_set")
        if h.startswith("map_"):
            if h == "map_enum":
                tags.add("enum_key")
            if below & NEEDS_CONVERSION:
                tags.add("under_map")
    if t[-1] in ("nt_enum", "nt_dc"):
        tags.add("newtype_over_converted")
    return "+".join(sorted(tags)) or "plain"


def _o(c, stage, outcome, nearest, concrete):
    return {"case": c, "obs": {"stage": stage, "outcome": outcome, "nearest": bool(nearest)}, "_c": concrete}
