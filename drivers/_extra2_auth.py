"""Worlds for X03 (authenticator factories): requests with exact header bytes, stub members, offline certificates,
offline JWTs + a loopback JWKS endpoint.  Nothing here decides a clause; it only builds inputs and records what the
real factories did (observations are judged by TLC against spec/gate/AuthFactories.tla)."""
import base64
import datetime
import hashlib
import hmac
import http.server
import itertools
import json
import logging
import socket
import threading
import time
from urllib.parse import quote

import falcon
import falcon.testing as ft

from vgi_rpc.http._unauthorized import AuthFailure, AuthReason, AuthUnavailableError, proxy_headers_of
from vgi_rpc.rpc import AuthContext

CLOSED = {r.value: r for r in AuthReason}
DEFAULT_CERT_HEADER = "X-SSL-Client-Cert"
CUSTOM_CERT_HEADER = "X-Amzn-Mtls-Clientcert"


def quiet() -> None:
    logging.getLogger("vgi_rpc").setLevel(logging.CRITICAL)
    logging.getLogger("httpx2").setLevel(logging.CRITICAL)
    logging.getLogger("httpcore2").setLevel(logging.CRITICAL)


def mkreq(headers: dict) -> falcon.Request:
    """A real falcon.Request whose header values are exactly the given strings (create_req would strip them)."""
    env = ft.create_environ()
    for k, v in headers.items():
        env["HTTP_" + k.upper().replace("-", "_")] = v
    return falcon.Request(env)


def call(fn, req) -> tuple[dict, object]:
    """-> (k / reason / exc / is_ve, returned context or None)."""
    try:
        ctx = fn(req)
    except AuthFailure as e:
        r = e.reason
        return {"k": "reject", "reason": str(getattr(r, "value", r)), "exc": "AuthFailure", "is_ve": True,
                "text": str(e)}, None
    except BaseException as e:  # noqa: BLE001 - the type is the observation
        return {"k": "raise", "reason": "", "exc": type(e).__name__, "is_ve": isinstance(e, ValueError), "text": str(e)}, None
    return {"k": "accept", "reason": "", "exc": "", "is_ve": False, "text": ""}, ctx


def construct(f) -> dict:
    try:
        r = f()
    except BaseException as e:  # noqa: BLE001
        return {"k": "raise", "exc": type(e).__name__}
    return {"k": "accept" if callable(r) else "other", "exc": ""}


def raise_for(kind: str, text: str):
    if kind == "ve":
        raise ValueError(text)
    if kind == "ve_sub":
        raise UnicodeDecodeError("utf-8", b"\xff", 0, 1, text)
    if kind == "pe":
        raise PermissionError(text)
    if kind == "rt":
        raise RuntimeError(text)
    if kind == "down":
        raise AuthUnavailableError(text)
    code = {"miss": "missing_credential", "inv": "invalid_credential", "exp": "expired_credential",
            "scope": "insufficient_scope", "proxy": "proxy_required", "unauth": "unauthorized",
            "af_miss": "missing_credential", "af_inv": "invalid_credential", "af_exp": "expired_credential",
            "af_scope": "insufficient_scope"}[kind]
    raise AuthFailure(CLOSED[code], text)


# ------------------------------------------------------------------------------------------------ bearer
BEARER_SHAPES = {
    "ok": "Bearer {T}", "lower": "bearer {T}", "upper": "BEARER {T}", "mixed": "BeArEr {T}", "basic": "Basic {T}",
    "noscheme": "{T}", "nospace": "Bearer{T}", "schemeonly": "Bearer", "emptytok": "Bearer ", "twospace": "Bearer  {T}",
    "tab": "Bearer\t{T}", "leadsp": " Bearer {T}", "trailsp": "Bearer {T} ", "comma": "Bearer {T}, Bearer {O}",
    "colon": "Bearer: {T}", "quoted": 'Bearer "{T}"', "empty": "",
}


def bearer_header(shape: str, tok: str, other: str) -> dict:
    if shape == "absent":
        return {}
    return {"Authorization": BEARER_SHAPES[shape].replace("{T}", tok).replace("{O}", other)}


def classify_arg(arg, tok: str, other: str) -> str:
    table = {tok: "exact", "": "empty", " " + tok: "lead_sp", tok + " ": "trail_sp", f"{tok}, Bearer {other}": "comma_list",
             f'"{tok}"': "quoted"}
    return table.get(arg, "other")


class BearerWorld:
    def __init__(self, rng) -> None:
        h = lambda n: "".join(rng.choice("abcdefghjkmnpqrstuvwxyzABCDEFGH23456789-._~+/") for _ in range(n))  # noqa: E731
        k1 = "sk-" + h(rng.randint(8, 40)) + "aZ"
        self.tok = {"known1": k1, "known2": "sk-" + h(24), "known3": "cl\xe9-π-" + h(12), "unknown": "sk-" + h(24),
                    "prefix1": k1[:-1], "ext1": k1 + rng.choice("0aZ= "), "case1": k1.swapcase()}
        self.other = "sk-" + h(16)
        self.ctx = {k: AuthContext(domain=f"dom-{k}", authenticated=True, principal=f"p-{k}", claims={"k": k})
                    for k in ("known1", "known2", "known3", "emptykey", "v")}

    def who(self, got) -> tuple[str, bool]:
        for k, c in self.ctx.items():
            if got is c:
                return k, True
        for k, c in self.ctx.items():
            if got == c:
                return k, False
        return "other", False

    def static(self, withempty: bool):
        from vgi_rpc.http import bearer_authenticate_static

        m = {self.tok[k]: self.ctx[k] for k in ("known1", "known2", "known3")}
        if withempty:
            m[""] = self.ctx["emptykey"]
        return bearer_authenticate_static(tokens=m)


# ------------------------------------------------------------------------------------------------ stub chain members
class Stub:
    def __init__(self, idx: int, out: str, log: list) -> None:
        self.idx, self.out, self.log = idx, out, log
        self.text = f"member{idx}:{out}:text"
        self.ctx = AuthContext(domain=f"d{idx}", authenticated=out != "anon", principal=f"p{idx}", claims={"m": idx})

    def __call__(self, req):
        self.log.append(self.idx)
        if self.out in ("ok", "anon"):
            return self.ctx
        raise_for(self.out, self.text)


def run_chain(ms: list[str], order: tuple[int, ...], req) -> dict:
    """Build chain_authenticate over stubs (member i has outcome ms[i]) in the given order and call it once."""
    from vgi_rpc.http import chain_authenticate

    log: list = []
    stubs = [Stub(i + 1, ms[i], log) for i in range(len(ms))]
    fn = chain_authenticate(*[stubs[j] for j in order])
    r, got = call(fn, req)
    who, same = "", False
    if got is not None:
        cands = [s for s in stubs if s.ctx.domain == got.domain]
        if len(cands) == 1 and got.principal == cands[0].ctx.principal and dict(got.claims) == dict(cands[0].ctx.claims):
            who, same = str(cands[0].idx), got is cands[0].ctx
        else:
            who = "mixed"
    ve_texts = [stubs[j].text for j in order if ms[j] not in ("ok", "anon", "pe", "rt", "down")]
    return {"k": r["k"], "reason": r["reason"], "exc": r["exc"], "who": who, "same": same, "called": list(log),
            "detail_all": all(t in r["text"] for t in ve_texts)}


# ------------------------------------------------------------------------------------------------ certificates
SUBJECT_ATTRS = {
    "a": [("C", "US"), ("O", "Acme"), ("CN", "svc-a")], "b": [("C", "US"), ("O", "Acme"), ("CN", "svc-b")],
    "a_upper": [("O", "Acme"), ("CN", "SVC-A")], "a_ext": [("O", "Acme"), ("CN", "svc-a2")], "a_pre": [("CN", "svc-")],
    "nocn": [("C", "US"), ("O", "Acme")], "ab": [("O", "Acme"), ("CN", "svc-a"), ("CN", "svc-b")],
    "ba": [("O", "Acme"), ("CN", "svc-b"), ("CN", "svc-a")], "comma": [("O", "Acme"), ("CN", "svc,a")],
}
CN_TAG = {"svc-a": "a", "svc-b": "b", "SVC-A": "a_upper", "svc-a2": "a_ext", "svc-": "a_pre", "": "nocn", "svc,a": "comma"}
ALLOWED = frozenset({"svc-a", "svc-c", "svc,a"})


def rfc4514(attrs) -> str:
    """The harness's own RFC 4514 rendering (RDNs in reverse order, ',' escaped) -- values here need nothing else."""
    return ",".join(f"{t}={v.replace(',', chr(92) + ',')}" for t, v in reversed(attrs))


class CertWorld:
    def __init__(self, rng, variant: int) -> None:
        from cryptography.hazmat.primitives.asymmetric import ec

        self.rng, self.variant = rng, variant
        self.key = ec.generate_private_key(ec.SECP256R1())
        self.cache: dict = {}

    def window(self, val: str):
        now = datetime.datetime.now(datetime.UTC).replace(microsecond=0)
        s, r = datetime.timedelta(seconds=1), self.rng
        if val == "valid":
            return now - s * r.randint(3600, 10 ** 7), now + s * r.randint(3600, 10 ** 8)
        if val == "barely":
            return now - s * r.randint(60, 3600), now + s * 900
        if val == "expired":
            return now - s * r.randint(10 ** 6, 10 ** 8), now - s * r.randint(3600, 10 ** 5)
        if val == "just_expired":
            return now - s * 3600, now - s * 2
        return now + s * r.randint(900, 10 ** 6), now + s * 10 ** 7       # notyet

    def cert(self, sub: str, val: str) -> dict:
        key = (sub, val)
        if key in self.cache:
            return self.cache[key]
        from cryptography import x509
        from cryptography.hazmat.primitives import hashes, serialization
        from cryptography.x509.oid import NameOID

        oid = {"C": NameOID.COUNTRY_NAME, "O": NameOID.ORGANIZATION_NAME, "CN": NameOID.COMMON_NAME}
        attrs = SUBJECT_ATTRS[sub]
        name = x509.Name([x509.NameAttribute(oid[t], v) for t, v in attrs])
        nb, na = self.window(val)
        serial = 10 if (self.variant == 0 and sub == "a" and val == "valid") else self.rng.getrandbits(self.rng.choice([16, 64, 158])) + 1
        c = (x509.CertificateBuilder().subject_name(name).issuer_name(name).public_key(self.key.public_key())
             .serial_number(serial).not_valid_before(nb).not_valid_after(na).sign(self.key, hashes.SHA256()))
        pem = c.public_bytes(serialization.Encoding.PEM).decode()
        der = c.public_bytes(serialization.Encoding.DER)
        cns = [v for t, v in attrs if t == "CN"]
        rec = {"pem": pem, "der": der, "serial": serial, "serial_hex": format(serial, "x"), "dn": rfc4514(attrs),
               "nva": na.strftime("%Y-%m-%dT%H:%M:%S+00:00"), "cns": cns}
        self.cache[key] = rec
        return rec

    def pubkey_pem(self) -> str:
        from cryptography.hazmat.primitives import serialization

        return self.key.public_key().public_bytes(serialization.Encoding.PEM,
                                                  serialization.PublicFormat.SubjectPublicKeyInfo).decode()

    def header(self, shape: str, rec: dict, other: dict | None = None) -> tuple[dict, str]:
        """-> (request headers, header name the factory is configured with)."""
        pem, rng = rec["pem"], self.rng
        if shape == "absent":
            return {}, DEFAULT_CERT_HEADER
        if shape == "empty":
            return {DEFAULT_CERT_HEADER: ""}, DEFAULT_CERT_HEADER
        if shape == "custom":
            return {CUSTOM_CERT_HEADER: quote(pem)}, CUSTOM_CERT_HEADER
        if shape == "otherhdr":
            return {DEFAULT_CERT_HEADER: quote(pem)}, CUSTOM_CERT_HEADER
        if shape == "hdrcase":
            return {DEFAULT_CERT_HEADER: quote(pem)}, rng.choice(["x-ssl-client-cert", "X-SSL-CLIENT-CERT", "x-Ssl-client-Cert"])
        body = pem.split("-----")[2]
        v = {
            "quoted": lambda: quote(pem), "quoted_all": lambda: quote(pem, safe=""), "aws": lambda: quote(pem, safe="+=/"),
            "raw": lambda: pem, "leadsp": lambda: rng.choice([" ", "\t", "%20", "%0A"]) + quote(pem),
            "garbage": lambda: rng.choice(["garbage", base64.b64encode(rng.randbytes(60)).decode(), quote(body.strip()),
                                           "-----BEGIN CERT-----", "null"]),
            "pubkey": lambda: quote(self.pubkey_pem()),
            "truncated": lambda: quote(pem[: rng.randint(40, len(pem) // 2)]),
            "corrupt": lambda: quote("-----BEGIN CERTIFICATE-----\n" + base64.encodebytes(rng.randbytes(300)).decode()
                                     + "-----END CERTIFICATE-----\n"),
            "two": lambda: quote(pem + other["pem"]),
        }[shape]()
        return {DEFAULT_CERT_HEADER: v}, DEFAULT_CERT_HEADER


def fp_hex(der: bytes, alg: str) -> str:
    return hashlib.new(alg, der).hexdigest()


def fp_key(der: bytes, alg: str, form: str) -> str | None:
    fp = fp_hex(der, alg)
    colons = ":".join(fp[i:i + 2] for i in range(0, len(fp), 2))
    other = {"sha256": "sha1", "sha1": "sha256", "sha384": "sha512", "sha512": "sha384"}[alg]
    return {"exact": fp, "upper": fp.upper(), "colons": colons, "colons_upper": colons.upper(), "truncated": fp[:-2],
            "otheralg": fp_hex(der, other), "absent": None}[form]


# ------------------------------------------------------------------------------------------------ JWT + JWKS endpoint
def b64u(b: bytes) -> str:
    return base64.urlsafe_b64encode(b).rstrip(b"=").decode()


class JwksServer:
    """Loopback JWKS endpoint; every path has its own behaviour and hit counter."""

    def __init__(self) -> None:
        self.paths: dict = {}
        outer = self

        class H(http.server.BaseHTTPRequestHandler):
            def do_GET(self):  # noqa: N802
                st = outer.paths.get(self.path)
                if st is None:
                    self.send_error(404)
                    return
                st["hits"] += 1
                status, ctype, body = st["respond"](st)
                self.send_response(status)
                self.send_header("Content-Type", ctype)
                self.send_header("Content-Length", str(len(body)))
                self.end_headers()
                self.wfile.write(body)

            def log_message(self, *a):
                pass

        self.srv = http.server.ThreadingHTTPServer(("127.0.0.1", 0), H)
        self.port = self.srv.server_address[1]
        threading.Thread(target=self.srv.serve_forever, kwargs={"poll_interval": 0.05}, daemon=True).start()
        s = socket.socket()
        s.bind(("127.0.0.1", 0))
        self.dead_port = s.getsockname()[1]
        s.close()
        self._n = itertools.count()

    def new_path(self, respond) -> tuple[str, dict]:
        p = f"/jwks/{next(self._n)}"
        self.paths[p] = {"hits": 0, "mode": "good", "respond": respond}
        return f"http://127.0.0.1:{self.port}{p}", self.paths[p]

    def close(self) -> None:
        self.srv.shutdown()
        self.srv.server_close()


ISS1, ISS2 = "https://issuer.example/realms/x", "https://issuer-two.example"
AUD1, AUD2 = "api://vgi", "https://api.example.com/vgi"


class JwtWorld:
    def __init__(self, rng, server: JwksServer) -> None:
        from joserfc.jwk import ECKey, RSAKey

        self.rng, self.server = rng, server
        self.k1 = ECKey.generate_key("P-256", parameters={"kid": "k1"})
        self.k1b = ECKey.generate_key("P-256", parameters={"kid": "k1"})
        self.k2 = ECKey.generate_key("P-256", parameters={"kid": "k2"})
        self.k3 = ECKey.generate_key("P-256", parameters={"kid": "k3"})
        self.rk = RSAKey.generate_key(2048, parameters={"kid": "r1"})
        self.sub = "alice-" + "".join(rng.choice("abcdefgh") for _ in range(5))

    def base_claims(self) -> dict:
        now = int(time.time())
        return {"iss": ISS1, "aud": AUD1, "sub": self.sub, "email": self.sub + "@example.com", "exp": now + 900,
                "iat": now - 5, "scope": "read write"}

    def mint(self, key, alg="ES256", kid="k1", **over) -> tuple[str, dict]:
        from joserfc import jwt

        c = {**self.base_claims(), **over}
        c = {k: v for k, v in c.items() if v is not None}
        hdr = {"alg": alg}
        if kid is not None:
            hdr["kid"] = kid
        return jwt.encode(hdr, c, key, algorithms=[alg]), c

    def token(self, cls: str) -> tuple[str, dict]:
        """-> (compact token, the claims the harness put into it)."""
        now, r = int(time.time()), self.rng
        m = self.mint
        simple = {
            "ok": lambda: m(self.k1), "ok_rsa": lambda: m(self.rk, "RS256", "r1"), "iss2": lambda: m(self.k1, iss=ISS2),
            "aud2": lambda: m(self.k1, aud=AUD2), "aud_list": lambda: m(self.k1, aud=["urn:other", AUD1]),
            "aud_list_bad": lambda: m(self.k1, aud=["urn:other", AUD1 + "/x"]),
            "expired": lambda: m(self.k1, exp=now - r.randint(5, 10 ** 6)), "iss_bad": lambda: m(self.k1, iss="https://evil.example"),
            "iss_missing": lambda: m(self.k1, iss=None), "iss_slash": lambda: m(self.k1, iss=ISS1 + "/"),
            "aud_bad": lambda: m(self.k1, aud="api://other"), "aud_missing": lambda: m(self.k1, aud=None),
            "aud_case": lambda: m(self.k1, aud=AUD1.upper()), "nbf_future": lambda: m(self.k1, nbf=now + r.randint(300, 10 ** 5)),
            "badsig": lambda: m(self.k1b), "unk_kid": lambda: m(self.k2, kid="k2"), "rotated": lambda: m(self.k3, kid="k3"),
            "no_kid": lambda: m(self.k1, kid=None), "exp_missing": lambda: m(self.k1, exp=None),
            "sub_missing": lambda: m(self.k1, sub=None), "iat_future": lambda: m(self.k1, iat=now + r.randint(3600, 10 ** 5)),
        }
        if cls in simple:
            return simple[cls]()
        ok, claims = m(self.k1)
        h, p, s = ok.split(".")
        if cls == "none_alg":
            return b64u(json.dumps({"alg": r.choice(["none", "None", "NONE"]), "kid": "k1"}).encode()) + "." + p + ".", claims
        if cls == "hs_conf":
            secret = r.choice([json.dumps(self.k1.as_dict(private=False)).encode(), self.k1.as_pem(private=False), b""])
            hh = b64u(json.dumps({"alg": "HS256", "kid": "k1"}).encode())
            return hh + "." + p + "." + b64u(hmac.new(secret, (hh + "." + p).encode(), hashlib.sha256).digest()), claims
        if cls == "garbage":
            return r.choice(["x", "Zm9v", "not a token", "\xe9\xe9", "{}", "null"]), claims
        if cls == "three_parts":
            return r.choice(["a.b.c", h + ".b." + s, "e30.e30.e30", h + "." + p + ".", "\xe9.\xe9.\xe9"]), claims
        if cls == "empty_segs":
            return r.choice(["..", "....", "."]), claims
        if cls == "trunc":
            return ok[: -r.randint(1, 40)], claims
        if cls == "ext":
            return ok + r.choice(["A", "AA", ".", ".x"]), claims
        if cls == "payload_swap":
            c2 = {**claims, "sub": "root"}
            return h + "." + b64u(json.dumps(c2).encode()) + "." + s, claims
        raise KeyError(cls)

    def respond(self, st: dict):
        keys = [self.k1, self.rk] + ([self.k3] if st.get("rotating") and st["hits"] >= 2 else [])
        good = json.dumps({"keys": [k.as_dict(private=False) for k in keys]}).encode()
        mode = st["mode"]
        if mode == "good":
            return 200, "application/json", good
        return {"http500": (500, "application/json", good), "http404": (404, "text/plain", b"not here"),
                "html200": (200, "text/html", b"<html><body>Scheduled maintenance</body></html>"),
                "empty200": (200, "application/json", b""),
                "json_error_object": (200, "application/json", b'{"error": "temporarily_unavailable"}'),
                "keys_null": (200, "application/json", b'{"keys": null}')}[mode]

    def authenticator(self, cfg: str, pclaim: str, server: "JwksServer | None" = None):
        from vgi_rpc.http import jwt_authenticate

        uri, st = (server or self.server).new_path(self.respond)
        kw = {"issuer": ISS1, "audience": AUD1} if cfg == "single" else \
             {"issuer": (ISS1, ISS2), "audience": (AUD1, AUD2), "domain": "corp-jwt"}
        if pclaim != "sub":
            kw["principal_claim"] = pclaim
        return jwt_authenticate(jwks_uri=uri, **kw), st, ("jwt" if cfg == "single" else "corp-jwt")


def declared_members(fn) -> list[str]:
    out = []
    for h in proxy_headers_of(fn):
        out.append("subject" if h.lower() == DEFAULT_CERT_HEADER.lower() else f"other:{h}")
    return out
