------------------------------------- MODULE HookLife -------------------------------------
(* X01 (extended coverage) -- life cycle of dispatch hooks (vgi_rpc/rpc/_common.py: _DispatchHook,
   _CompositeDispatchHook, _register_dispatch_hook; the extension point used by vgi_rpc/otel.py and
   vgi_rpc/sentry.py).

   A client runs a *script* of calls against a small service over one transport; the server has 0..MaxHooks
   registered hooks, each with a behaviour:  "ok" | "rs" (on_dispatch_start raises) | "re" (on_dispatch_end raises).
   The ghost variable `strace` is the totally ordered sequence of server-side events:

      [ev |-> "start", h, m, tok, raised]   hook number h (registration order, 1-based) was asked to start method m;
                                            tok = serial of the token it hands back (= number of start events so far)
      [ev |-> "body", m]                    the implementation's method (unary body / stream init) was entered
      [ev |-> "proc", m, tok |-> k]         the k-th process() step of the stream state was entered
      [ev |-> "fault", m, err]              the implementation is about to fail the dispatch by raising `err`
      [ev |-> "cancel", m]                  the state's on_cancel was entered
      [ev |-> "end", h, m, tok, err, raised] hook h was asked to end with token serial tok and error type err ("none")

   `hist` is the client-observable history <<op, outcome>>.  Follows
     vgi_rpc/rpc/_server.py      _serve_unary, _serve_stream (socket family: a stream call is ONE dispatch; start
                                 before the init method, end when the stream ends / is closed / cancelled)
     vgi_rpc/http/server/_app_unary.py, _app_stream.py (_dispatch_telemetry: one dispatch per request that reaches
                                 a method: unary, /init (a producer's first process() step runs inside it), every
                                 continuation / exchange turn; close() sends nothing)
     _CompositeDispatchHook      starts in registration order, keeps (hook, token) of those that did not raise,
                                 ends them in reverse order, every failure swallowed.
   A single registered hook is called directly by the server (its own try/except); two or more go through the
   composite.  A hook whose start raised handed back no token and gets no end.

   Named deviations of the code from "every request that reaches the service is one hooked dispatch"
   (TRUE = what the code does, knowingly; they are modelled, not judged):
     Dev_DescribeUnhooked    the pre-built __describe__ answer is written without calling any hook
     Dev_HttpCancelUnhooked  an HTTP cancel request runs on_cancel inside no hook ("cancel is not a method dispatch")
   Design switches (TRUE = intended; FALSE reproduces the code as found):
     FixHttpTurnError        an HTTP producer turn whose process() step raised reports the exception at dispatch end
                             (as found: the turn writes the error into the response body and ends with error = None)
     FixDropEnds             a socket stream dispatch whose client vanishes before it opened the input stream still ends
                             (as found: _serve_stream opens the input stream outside the try/finally that reports:
                             the hook started, the method ran, and neither on_dispatch_end nor the access log follows)
     FixHttpErrorUnwrapped   HTTP /init and exchange-turn failures report the exception the method raised
                             (as found: the transport's internal _RpcHttpError wrapper: telemetry records that type name) *)
EXTENDS Naturals, Sequences, FiniteSets, TLC

CONSTANTS MaxCalls, MaxTicks, MaxHooks, Behaviours, Transports, VerMismatch, FullPairs, PairHooks,
          Dev_DescribeUnhooked, Dev_HttpCancelUnhooked, FixHttpTurnError, FixHttpErrorUnwrapped, FixDropEnds

\* ------------------------------------------------------------------------------------------ service
\* k "unary" | "prod" | "exch";  init "ok" | "raise";  steps: successive process() steps "emit" | "fin" | "raise"
\* (past the end: producers "fin", exchanges "emit");  u: unary behaviour "ok" | "raise";  known: the server has it;
\* badp: the client sends parameters the server's schema rejects
M(n, k, hdr, init, steps, u) == [n |-> n, k |-> k, hdr |-> hdr, init |-> init, steps |-> steps, u |-> u,
                                 known |-> TRUE, badp |-> FALSE]
Methods == {
  M("u_ok", "unary", FALSE, "ok", <<>>, "ok"),   M("u_err", "unary", FALSE, "ok", <<>>, "raise"),
  [M("u_badp", "unary", FALSE, "ok", <<>>, "ok") EXCEPT !.badp = TRUE],
  [M("zz_u", "unary", FALSE, "ok", <<>>, "ok") EXCEPT !.known = FALSE],
  M("__describe__", "unary", FALSE, "ok", <<>>, "ok"),
  M("p2", "prod", FALSE, "ok", <<"emit", "emit", "fin">>, "ok"),
  M("p_0", "prod", FALSE, "ok", <<"fin">>, "ok"),
  M("p_err", "prod", FALSE, "ok", <<"emit", "raise">>, "ok"),
  M("p_err0", "prod", FALSE, "ok", <<"raise">>, "ok"),
  M("p_initerr", "prod", FALSE, "raise", <<>>, "ok"),
  M("ph2", "prod", TRUE, "ok", <<"emit", "fin">>, "ok"),
  M("ph_initerr", "prod", TRUE, "raise", <<>>, "ok"),
  [M("p_badp", "prod", FALSE, "ok", <<"emit", "fin">>, "ok") EXCEPT !.badp = TRUE],
  [M("zz_p", "prod", FALSE, "ok", <<>>, "ok") EXCEPT !.known = FALSE],
  M("x_ok", "exch", FALSE, "ok", <<>>, "ok"),
  M("x_err", "exch", FALSE, "ok", <<"emit", "raise">>, "ok"),
  M("xh", "exch", TRUE, "ok", <<>>, "ok"),
  M("x_initerr", "exch", FALSE, "raise", <<>>, "ok") }
Meth(n) == CHOOSE m \in Methods : m.n = n
StepOf(m, k) == IF k <= Len(m.steps) THEN m.steps[k] ELSE IF m.k = "prod" THEN "fin" ELSE "emit"
Rejected(m) == (~m.known) \/ m.badp \/ (VerMismatch /\ m.n # "__describe__")
ErrType == "ValueError"                  \* what every raising method / step of the service raises

RECURSIVE Ticks(_)
Ticks(n) == IF n = 0 THEN <<>> ELSE <<"t">> \o Ticks(n - 1)
\* client operations on a stream session: "t" tick / exchange, "i" iterate to the end, "c" close, "x" cancel,
\* "d" drop: the client vanishes (both pipe ends closed, no close() / cancel()); nothing can follow on that connection
OpsFor(m) == IF m.k = "unary" THEN {<<>>}
             ELSE {Ticks(n) \o <<e>> : n \in 0..MaxTicks, e \in {"c", "x", "d"}}
                  \cup (IF m.k = "prod" THEN {<<"i">>, <<"t", "i">>} ELSE {})
CallDescs == UNION {{[m |-> mm.n, ops |-> o] : o \in OpsFor(mm)} : mm \in Methods}
ShortOps == {<<>>, <<"c">>, <<"i">>, <<"t", "c">>, <<"t", "x">>, <<"x">>, <<"d">>, <<"t", "d">>}

\* hook configurations: every sequence of <= MaxHooks behaviours
RECURSIVE SeqsUpTo(_, _)
SeqsUpTo(S, n) == IF n = 0 THEN {<<>>} ELSE LET p == SeqsUpTo(S, n - 1) IN p \cup {Append(s, x) : s \in p, x \in S}
HookCfgs == SeqsUpTo(Behaviours, MaxHooks)
PairHooksAll == HookCfgs                 \* (cfg override target: every configuration may go on to a second call)

\* ------------------------------------------------------------------------------------------ events
E(ev, h, m, tok, err, raised) == [ev |-> ev, h |-> h, m |-> m, tok |-> tok, err |-> err, raised |-> raised]
Body(m)    == <<E("body", 0, m, 0, "none", FALSE)>>
Proc(m, k) == <<E("proc", 0, m, k, "none", FALSE)>>
Fault(m)   == <<E("fault", 0, m, 0, ErrType, FALSE)>>
CancelEv(m) == <<E("cancel", 0, m, 0, "none", FALSE)>>

\* ------------------------------------------------------------------------------------------ monitor
(* The property clauses, as a monitor over an event sequence T with n hooks -- independent of how the model above
   (or the code) is structured; the same operators judge the model's own strace and recorded real traces.
   State: open[h] = token serial hook h holds (0 = none), stage of the current dispatch
   ("idle" | "starting" | "run" | "ending"), last = hook started last, fault = what the implementation raised in
   this dispatch, nbody = implementation events seen in this dispatch, bad = names of the clauses found false.

     NoDoubleStart           a hook is never started while it still holds a token / a dispatch starts only when
                             every hook of the previous one has ended
     StartOrder              hooks start in registration order, all of them, back to back (a raising start does not
                             stop the others)
     StartBeforeBody         the implementation (method body, process step) runs only after every hook was started
     EndAfterBody            ... and before any hook is ended
     NoEndWithoutStart       an end goes to a hook that holds a token
     SameToken               ... and carries that token
     EndOrder                hooks end in reverse registration order
     ErrorIffFailed          end reports an error iff the implementation failed the dispatch
     ErrorIsTheException     ... and the error is what the implementation raised
     HookOnlyAroundDispatch  hooks are not started around nothing (a request that never reached the implementation)
     EndExactlyOnce          when the connection / request is over no hook still holds a token
   A clause found false at an event is reported as "<clause>@<method of that event>".                              *)
\* lax: the client of this run vanished; what a dispatch the implementation did not fail reports as its error is then
\* left open (the transport's exception or none)
MonInit(n) == [open |-> [h \in 1..n |-> 0], stage |-> "idle", last |-> 0, fault |-> "none", nbody |-> 0, bad |-> {},
               lax |-> FALSE]
AnyOpen(s, n) == \E h \in 1..n : s.open[h] # 0
Cl(name, ok) == IF ok THEN {} ELSE {name}
ClE(name, e, ok) == IF ok THEN {} ELSE {name \o "@" \o e.m}      \* "<clause>@<method of the event it failed at>"
MonStep(s, e, n) ==
  CASE e.ev = "start" ->
         LET inRange == e.h \in 1..n
             first == e.h = 1
             b == ClE("NoDoubleStart", e, inRange => (s.open[e.h] = 0 /\ (first => ~AnyOpen(s, n))))
                  \cup ClE("StartOrder", e, inRange /\ (IF first THEN s.stage # "starting"
                                                            ELSE s.stage = "starting" /\ s.last = e.h - 1))
                  \cup ClE("HookOnlyAroundDispatch", e, (first /\ s.stage = "run" /\ ~AnyOpen(s, n)) => s.nbody > 0)
         IN [s EXCEPT !.open = IF inRange THEN [@ EXCEPT ![e.h] = IF e.raised THEN 0 ELSE e.tok] ELSE @,
                      !.stage = IF e.h >= n THEN "run" ELSE "starting", !.last = e.h,
                      !.fault = IF first THEN "none" ELSE @, !.nbody = IF first THEN 0 ELSE @,
                      !.bad = @ \cup b]
    [] e.ev \in {"body", "proc"} ->
         [s EXCEPT !.nbody = @ + 1,
                   !.bad = @ \cup ClE("StartBeforeBody", e, n = 0 \/ s.stage \notin {"idle", "starting"})
                             \cup ClE("EndAfterBody", e, s.stage # "ending")]
    [] e.ev = "fault" -> [s EXCEPT !.fault = e.err]
    [] e.ev = "end" ->
         LET inRange == e.h \in 1..n
             held == IF inRange THEN s.open[e.h] ELSE 0
             b == ClE("NoEndWithoutStart", e, held # 0)
                  \cup ClE("SameToken", e, held # 0 => held = e.tok)
                  \cup ClE("EndOrder", e, \A h2 \in 1..n : h2 > e.h => s.open[h2] = 0)
                  \cup ClE("ErrorIffFailed", e, ((e.err = "none") <=> (s.fault = "none")) \/ (s.lax /\ s.fault = "none"))
                  \cup ClE("ErrorIsTheException", e, (e.err # "none" /\ s.fault # "none") => e.err = s.fault)
                  \cup ClE("HookOnlyAroundDispatch", e, s.stage = "run" => s.nbody > 0)
             o2 == IF inRange THEN [s.open EXCEPT ![e.h] = 0] ELSE s.open
         IN [s EXCEPT !.open = o2, !.stage = IF \E h \in 1..n : o2[h] # 0 THEN "ending" ELSE "idle", !.bad = @ \cup b]
    [] OTHER -> [s EXCEPT !.nbody = @ + 1]          \* "cancel": inside the dispatch on a socket, in none over HTTP (no demand)
RECURSIVE MonRun(_, _, _, _)
MonRun(s, T, i, n) == IF i > Len(T) THEN s ELSE MonRun(MonStep(s, T[i], n), T, i + 1, n)
MonPrefix(T, n) == MonRun(MonInit(n), T, 1, n)
MonFinal(s, n) == Cl("EndExactlyOnce", ~AnyOpen(s, n)) \cup Cl("StartOrder", s.stage # "starting")
                  \cup Cl("HookOnlyAroundDispatch", (s.stage = "run" /\ ~AnyOpen(s, n)) => s.nbody > 0)
Monitor(T, n) == LET s == MonPrefix(T, n) IN s.bad \cup MonFinal(s, n)
MonitorLax(T, n, lax) == LET s == MonRun([MonInit(n) EXCEPT !.lax = lax], T, 1, n) IN s.bad \cup MonFinal(s, n)

\* mon = the monitor's state after strace (kept incrementally; MonAgrees ties it to the batch definition MonPrefix)
VARIABLES tr, hooks, script, ip, pc, st, hist, strace, ntok, mon
vars == <<tr, hooks, script, ip, pc, st, hist, strace, ntok, mon>>
N == Len(hooks)

\* start events of one dispatch, hooks 1..N in registration order; token serials base+1 .. base+N
RECURSIVE StartsFrom(_, _, _)
StartsFrom(h, m, base) == IF h > N THEN <<>>
                          ELSE <<E("start", h, m, base + h, "none", hooks[h] = "rs")>> \o StartsFrom(h + 1, m, base)
Starts(m, base) == StartsFrom(1, m, base)
\* end events: reverse order, only hooks whose start handed back a token
RECURSIVE EndsFrom(_, _, _, _)
EndsFrom(h, m, base, err) == IF h = 0 THEN <<>>
                             ELSE (IF hooks[h] = "rs" THEN <<>> ELSE <<E("end", h, m, base + h, err, hooks[h] = "re")>>)
                                  \o EndsFrom(h - 1, m, base, err)
Ends(m, base, err) == EndsFrom(N, m, base, err)

NoStream == [base |-> 0, k |-> 0, pre |-> 0, dead |-> FALSE, fin |-> FALSE, op |-> 0]
Init == /\ tr \in Transports /\ hooks \in HookCfgs
        /\ script = <<>> /\ ip = 0 /\ pc = "idle" /\ st = NoStream /\ hist = <<>> /\ strace = <<>> /\ ntok = 0
        /\ mon = MonInit(Len(hooks))

IsHttp == tr = "http"
C == script[ip]
CM == Meth(C.m)
Ev(op, out) == hist' = Append(hist, <<op, out>>)
Log(evs) == strace' = strace \o evs /\ mon' = MonRun(mon, evs, 1, N)
NoLog == UNCHANGED <<strace, mon>>
\* the dispatch of a vanished client may end with the transport's exception or with none: both are admitted
DropErrs == {"none", "ArrowInvalid"}
LogLax(evs) == strace' = strace \o evs /\ mon' = MonRun([mon EXCEPT !.lax = TRUE], evs, 1, N)
Over == pc' = "idle" /\ st' = NoStream
MayCall == pc = "idle" /\ ip < MaxCalls /\ (ip = 0 \/ hooks \in PairHooks)
MayFollow(c) == ip = 0 \/ FullPairs \/ c.ops \in ShortOps
\* error type reported at the end of a failed HTTP /init or exchange turn, and of a failed HTTP producer turn
HttpWrapErr == IF FixHttpErrorUnwrapped THEN ErrType ELSE "_RpcHttpError"
HttpTurnErr == IF FixHttpTurnError THEN ErrType ELSE "none"

\* ------------------------------------------------------------------------------------------ unary
UnaryCall(c) ==
  /\ MayCall /\ MayFollow(c) /\ Meth(c.m).k = "unary"
  /\ LET m == Meth(c.m) IN
     /\ ip' = ip + 1 /\ script' = Append(script, c)
     /\ IF Rejected(m)                                     \* never dispatched: no hook
        THEN Ev("call", "err") /\ NoLog /\ UNCHANGED ntok
        ELSE IF m.n = "__describe__"
        THEN /\ Ev("call", "ok")
             /\ IF Dev_DescribeUnhooked THEN NoLog /\ UNCHANGED ntok
                ELSE Log(Starts(m.n, ntok) \o Ends(m.n, ntok, "none")) /\ ntok' = ntok + N
        ELSE LET fails == m.u = "raise" IN
             /\ Ev("call", IF fails THEN "err" ELSE "ok")
             /\ Log(Starts(m.n, ntok) \o Body(m.n) \o (IF fails THEN Fault(m.n) ELSE <<>>)
                    \o Ends(m.n, ntok, IF fails THEN ErrType ELSE "none"))
             /\ ntok' = ntok + N
  /\ UNCHANGED <<tr, hooks, pc, st>>

\* ------------------------------------------------------------------------------------------ stream call / init
StreamCall(c) ==
  /\ MayCall /\ MayFollow(c) /\ Meth(c.m).k # "unary"
  /\ LET m == Meth(c.m)  n == m.n IN
     /\ ip' = ip + 1 /\ script' = Append(script, c)
     /\ IF Rejected(m)
        THEN \* socket family: a header-less stream call returns a session; the refusal surfaces at its first tick
             /\ NoLog /\ UNCHANGED ntok
             /\ IF IsHttp \/ m.hdr THEN Ev("call", "err") /\ Over
                ELSE Ev("call", "ok") /\ pc' = "open" /\ st' = [NoStream EXCEPT !.dead = TRUE]
        ELSE IF m.init = "raise"
        THEN /\ ntok' = ntok + N
             /\ Log(Starts(n, ntok) \o Body(n) \o Fault(n) \o Ends(n, ntok, IF IsHttp THEN HttpWrapErr ELSE ErrType))
             /\ IF IsHttp \/ m.hdr THEN Ev("call", "err") /\ Over
                ELSE Ev("call", "ok") /\ pc' = "open" /\ st' = [NoStream EXCEPT !.dead = TRUE]
        ELSE IF ~IsHttp
        THEN \* the dispatch stays open for the life of the stream
             /\ ntok' = ntok + N /\ Log(Starts(n, ntok) \o Body(n))
             /\ Ev("call", "ok") /\ pc' = "open" /\ st' = [NoStream EXCEPT !.base = ntok]
        ELSE IF m.k = "exch"
        THEN /\ ntok' = ntok + N /\ Log(Starts(n, ntok) \o Body(n) \o Ends(n, ntok, "none"))
             /\ Ev("call", "ok") /\ pc' = "open" /\ st' = NoStream
        ELSE \* HTTP producer: the first process() step runs inside /init
             LET s1 == StepOf(m, 1) IN
             /\ ntok' = ntok + N
             /\ Log(Starts(n, ntok) \o Body(n) \o Proc(n, 1) \o (IF s1 = "raise" THEN Fault(n) ELSE <<>>)
                    \o Ends(n, ntok, IF s1 = "raise" THEN HttpTurnErr ELSE "none"))
             /\ IF s1 = "raise" THEN Ev("call", "err") /\ Over
                ELSE /\ Ev("call", "ok") /\ pc' = "open"
                     /\ st' = [NoStream EXCEPT !.k = 1, !.pre = IF s1 = "emit" THEN 1 ELSE 0, !.fin = (s1 = "fin")]
  /\ UNCHANGED <<tr, hooks>>

NextOp == IF st.op < Len(C.ops) THEN C.ops[st.op + 1] ELSE "c"
Adv(s) == [s EXCEPT !.op = IF NextOp = "t" THEN @ + 1 ELSE @]

\* ------------------------------------------------------------------------------------------ tick / exchange
Tick ==
  /\ pc = "open" /\ NextOp \in {"t", "i"}
  /\ LET m == CM  n == m.n  k == st.k + 1  s == StepOf(m, k) IN
     IF st.dead THEN Ev("tick", "err") /\ Over /\ NoLog /\ UNCHANGED ntok
     ELSE IF ~IsHttp
     THEN /\ UNCHANGED ntok
          /\ CASE s = "emit"  -> Ev("tick", "data") /\ Log(Proc(n, k)) /\ st' = [Adv(st) EXCEPT !.k = k] /\ UNCHANGED pc
               [] s = "fin"   -> Ev("tick", "stop") /\ Log(Proc(n, k) \o Ends(n, st.base, "none")) /\ Over
               [] s = "raise" -> Ev("tick", "err") /\ Log(Proc(n, k) \o Fault(n) \o Ends(n, st.base, ErrType)) /\ Over
     ELSE IF m.k = "prod" /\ st.pre > 0
     THEN Ev("tick", "data") /\ st' = [Adv(st) EXCEPT !.pre = 0] /\ NoLog /\ UNCHANGED <<ntok, pc>>
     ELSE IF m.k = "prod" /\ st.fin
     THEN Ev("tick", "stop") /\ Over /\ NoLog /\ UNCHANGED ntok
     ELSE \* one HTTP request = one dispatch
          /\ ntok' = ntok + N
          /\ CASE s = "emit"  -> /\ Ev("tick", "data") /\ st' = [Adv(st) EXCEPT !.k = k] /\ UNCHANGED pc
                                 /\ Log(Starts(n, ntok) \o Proc(n, k) \o Ends(n, ntok, "none"))
               [] s = "fin"   -> /\ Ev("tick", "stop") /\ Over
                                 /\ Log(Starts(n, ntok) \o Proc(n, k) \o Ends(n, ntok, "none"))
               [] s = "raise" -> /\ Ev("tick", "err") /\ Over
                                 /\ Log(Starts(n, ntok) \o Proc(n, k) \o Fault(n)
                                        \o Ends(n, ntok, IF m.k = "prod" THEN HttpTurnErr ELSE HttpWrapErr))
  /\ UNCHANGED <<tr, hooks, script, ip>>

\* ------------------------------------------------------------------------------------------ close / cancel
Close ==
  /\ pc = "open" /\ NextOp = "c"
  /\ Ev("close", "ok") /\ Over /\ UNCHANGED ntok
  /\ IF IsHttp \/ st.dead THEN NoLog ELSE Log(Ends(CM.n, st.base, "none"))
  /\ UNCHANGED <<tr, hooks, script, ip>>
Cancel ==
  /\ pc = "open" /\ NextOp = "x"
  /\ Ev("cancel", "ok") /\ Over
  /\ IF st.dead THEN NoLog /\ UNCHANGED ntok
     ELSE IF ~IsHttp THEN Log(CancelEv(CM.n) \o Ends(CM.n, st.base, "none")) /\ UNCHANGED ntok
     ELSE IF CM.k = "prod" /\ st.fin THEN NoLog /\ UNCHANGED ntok        \* no token left: nothing is sent
     ELSE IF Dev_HttpCancelUnhooked THEN Log(CancelEv(CM.n)) /\ UNCHANGED ntok
     ELSE Log(Starts(CM.n, ntok) \o CancelEv(CM.n) \o Ends(CM.n, ntok, "none")) /\ ntok' = ntok + N
  /\ UNCHANGED <<tr, hooks, script, ip>>

\* the client vanishes.  HTTP: nothing is sent (as close()).  Socket family: the serve loop meets EOF; a stream whose
\* input stream is open (>= 1 tick) ends normally; one whose input stream was never opened ends too (FixDropEnds)
Drop ==
  /\ pc = "open" /\ NextOp = "d"
  /\ Ev("drop", "ok") /\ pc' = "gone" /\ st' = NoStream /\ UNCHANGED ntok
  /\ IF IsHttp \/ st.dead THEN NoLog
     ELSE IF st.k > 0 THEN Log(Ends(CM.n, st.base, "none"))
     ELSE IF FixDropEnds THEN \E err \in DropErrs : LogLax(Ends(CM.n, st.base, err))
     ELSE NoLog
  /\ UNCHANGED <<tr, hooks, script, ip>>

StartCall(c) == UnaryCall(c) \/ StreamCall(c)
Next == (\E c \in CallDescs : StartCall(c)) \/ Tick \/ Close \/ Cancel \/ Drop
Spec == Init /\ [][Next]_vars
Done == pc \in {"idle", "gone"} /\ ip >= 1      \* a complete history (every prefix of calls is one)

\* ------------------------------------------------------------------------------------------ invariants of the model
PrefixClean == mon.bad = {}                                \* in every state
DoneClean == Done => (mon.bad \cup MonFinal(mon, N)) = {}   \* whenever a history is complete
MonAgrees == mon = MonRun([MonInit(N) EXCEPT !.lax = mon.lax], strace, 1, N)                    \* (sanity: the incremental monitor is the batch one)
TokensFresh == \A i, j \in 1..Len(strace) : (i < j /\ strace[i].ev = "start" /\ strace[j].ev = "start")
                                              => strace[i].tok < strace[j].tok
\* a dispatch is open on a socket stream exactly while the stream is
OpenIffStream == AnyOpen(mon, N) => (pc = "open" /\ ~IsHttp /\ ~st.dead)
\* rejected requests never reach a hook: a history of rejected calls only has an empty server trace
RejectedSilent == (\A i \in 1..Len(script) : Rejected(Meth(script[i].m))) => strace = <<>>
==========================================================================================
