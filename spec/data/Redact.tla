---------------------------------- MODULE Redact ----------------------------------
(* C35 -- sensitive claim values never reach access logs, at any nesting depth.

   A claims object is a tree.  What decides the fate of a leaf value is the sequence of keys on the paths that
   lead to it, so the trees enumerated here are a spine of containers, depth 1..MaxDepth, each container optionally
   carrying one sibling leaf (branching <= 2):

        levels[j] = [kind |-> "obj",  key |-> class of the key under which the next level (or the final leaf) sits,
                                      sib |-> "none" | "sx" | "n"      an extra leaf entry with a sensitive / neutral key]
                  | [kind |-> "list" | "tuple", key |-> "-",
                                      sib |-> "none" | "item"          an extra leaf item next to the spine item]
        levels[1].kind = "obj"        (the claims object itself is a mapping)
        alias \in 0..2                a = 1 or 2: the container of level a+1 is referenced a SECOND time, under a neutral
                                      key of the (object) container of level a -- the same Python object twice (claims
                                      assembled from shared sub-objects; a walker with a "seen" guard must still redact
                                      both occurrences); a = 1 shares across two top-level claims, a = 2 inside one

   The container grammar is recursive over {mapping, list, tuple}: from level 2 on every level may be any of the three,
   so every parent/child combination (list in list, tuple in list, mapping in list in tuple, ...) occurs at every level
   pair up to the bound.  Beyond the bound there are ContainerChains (depth MaxDepth+1 .. ChainDepth: every sequence of
   neutral-keyed mappings / lists / tuples, with or without a sibling item, ending in one sensitive key) and a few still
   deeper spines (up to DeepDepth): "at any nesting depth" has no bound in the statement.

   key classes:  "sx" sensitive, exact name (email, token, given_name, ...)
                 "ss" sensitive name as a substring (access_token, work_email, ...)
                 "sc" case variant of either (EMAIL, Api_Key, ...)
                 "n"  neutral (sub, scope, ctx, ...)

   Leaves:  "leaf" (end of the spine), "sib<j>" (sibling leaf in the container of level j).
   Keys:    "k<j>" (spine key of level j), "s<j>" (sibling key of level j).

   How a tree reaches the log is a second, independent dimension (Configs): which redactor is installed, the level
   of the access logger (the emitter has DEBUG-only branches), the Python flavour of the mappings (dict, or a
   non-dict Mapping such as MappingProxyType / OrderedDict -- claims are Python objects, not JSON text), whether the context is authenticated
   (allow-mode gates attach claims to unauthenticated contexts), and the formatter (plain JSON, access-log formatter,
   access-log formatter with a byte cap small enough to shed fields).

   Intended design: the value of a claim whose NAME is sensitive is never logged -- whatever that value is (a
   string, a number, an object, a list) and however deep the claim sits; the key stays visible with a redacted
   value.  Dev_TopLevelOnly names the deviation the code had when this check was built (redaction looked at the
   top-level keys only; fixed since); Expected / Conforms always describe the intended design.                  *)
EXTENDS Naturals, Sequences, FiniteSets, TLC

CONSTANTS MaxDepth,
          ChainDepth,          \* container chains up to this depth (>= MaxDepth; = MaxDepth: none)
          DeepDepth,           \* deeper single-path spines up to this depth (>= MaxDepth; = MaxDepth: none)
          Dev_TopLevelOnly     \* historical deviation of redact_claims: only top-level claim names are looked at (FALSE = intended)

KeyClasses == {"sx", "ss", "sc", "n"}
Sens(k) == k \in {"sx", "ss", "sc"}

ObjLevels  == [kind : {"obj"}, key : KeyClasses, sib : {"none", "sx", "n"}]
SeqLevels  == [kind : {"list", "tuple"}, key : {"-"}, sib : {"none", "item"}]
Levels == ObjLevels \cup SeqLevels

RECURSIVE Spines(_)
Spines(d) == IF d = 1 THEN {<<l>> : l \in ObjLevels}
             ELSE LET prev == Spines(d - 1) IN prev \cup {Append(p, l) : p \in {q \in prev : Len(q) = d - 1}, l \in Levels}

Plain(kind) == IF kind = "obj" THEN [kind |-> "obj", key |-> "n", sib |-> "none"] ELSE [kind |-> kind, key |-> "-", sib |-> "none"]
RECURSIVE DeepSeq(_, _, _, _)
DeepSeq(j, d, mixed, last) == IF j > d THEN <<>>
                              ELSE <<IF j = d THEN [kind |-> "obj", key |-> last, sib |-> "none"]
                                     ELSE IF mixed /\ j % 2 = 0 THEN Plain("list") ELSE Plain("obj")>> \o DeepSeq(j + 1, d, mixed, last)
DeepCases == {[levels |-> DeepSeq(1, d, m, k), alias |-> 0] : d \in (ChainDepth + 1)..DeepDepth, m \in BOOLEAN, k \in {"sx", "ss", "sc"}}

\* every chain of containers below a neutral top-level key, ending in a mapping with one sensitive key
ChainLevels == {Plain("obj")} \cup SeqLevels
RECURSIVE Mids(_)
Mids(n) == IF n = 0 THEN {<<>>} ELSE {Append(p, l) : p \in Mids(n - 1), l \in ChainLevels}
ContainerChains == {[levels |-> <<Plain("obj")>> \o m \o <<[kind |-> "obj", key |-> k, sib |-> "none"]>>, alias |-> 0] :
                       m \in UNION {Mids(d - 2) : d \in (MaxDepth + 1)..ChainDepth}, k \in {"sx", "ss", "sc"}}

AliasOK(c) == c.alias = 0 \/ (/\ Len(c.levels) >= c.alias + 1 /\ c.levels[c.alias].kind = "obj"
                             /\ \A j \in 1..c.alias : c.levels[j].sib = "none")     \* (keeps the alias family small)
Cases == {c \in {[levels |-> p, alias |-> a] : p \in Spines(MaxDepth), a \in 0..2} : AliasOK(c)}
         \cup ContainerChains \cup DeepCases

\* how a tree is logged
Configs == [mode : {"default", "raising"}, level : {"info", "debug"}, flavour : {"plain", "alt"}, auth : BOOLEAN,
            fmt : {"json", "access", "capped"}]
ConfigExpected(g) == g.mode

\* ------------------------------------------------------------------ the oracle (intended design)
SpineSensAt(L, j) == L[j].kind = "obj" /\ Sens(L[j].key)
SensIn(L, lo, hi) == \E i \in lo..hi : SpineSensAt(L, i)
AncSens(L, j)     == SensIn(L, 1, j - 1)                 \* on the spine path, the container of level j sits under a sensitive key
SibId(j) == "sib" \o ToString(j)
KId(j)   == "k" \o ToString(j)
SId(j)   == "s" \o ToString(j)

\* contents of the container of level x (x = Len+1: the final leaf) are covered by a sensitive spine key above them;
\* with an alias at level a they are also reachable through a neutral key, so the key of level a no longer covers them
Cov(c, x) == \E i \in 1..(x - 1) : i # c.alias /\ SpineSensAt(c.levels, i)

Leaves(L)  == {"leaf"} \cup {SibId(j) : j \in {x \in 1..Len(L) : L[x].sib # "none"}}
\* a leaf is hidden iff it is under a sensitive key on EVERY path that leads to it
HiddenC(c) == LET L == c.levels IN
              (IF Cov(c, Len(L) + 1) THEN {"leaf"} ELSE {})
              \cup {SibId(j) : j \in {x \in 1..Len(L) : L[x].sib # "none" /\
                                       (L[x].sib = "sx" \/ (IF x <= c.alias THEN AncSens(L, x) ELSE Cov(c, x)))}}
Hidden(L)  == HiddenC([levels |-> L, alias |-> 0])
\* outermost sensitive keys on the spine path: nothing above them is redacted, so they must still be there, redacted
MustShow(L) == {KId(j) : j \in {x \in 1..Len(L) : SpineSensAt(L, x) /\ ~AncSens(L, x)}}
               \cup {SId(j) : j \in {x \in 1..Len(L) : L[x].sib = "sx" /\ ~AncSens(L, x)}}
\* depth (1 = top level) of the shallowest sensitive key; 0 if there is none
SensDepth(L) == LET ds == {j \in 1..Len(L) : SpineSensAt(L, j) \/ L[j].sib = "sx"} IN
                IF ds = {} THEN 0 ELSE CHOOSE j \in ds : \A i \in ds : j <= i

Expected(c) == [hidden |-> HiddenC(c), mustshow |-> MustShow(c.levels), sensdepth |-> SensDepth(c.levels),
                leaves |-> Leaves(c.levels)]

\* Dev_TopLevelOnly: only the top-level keys are looked at
HiddenTopLevelOnly(L) == (IF SpineSensAt(L, 1) THEN Leaves(L) \ {"sib1"} ELSE {})
                         \cup (IF L[1].sib = "sx" THEN {"sib1"} ELSE {})

ModelHidden(L) == IF Dev_TopLevelOnly THEN HiddenTopLevelOnly(L) ELSE Hidden(L)

\* ------------------------------------------------------------------ table sanity
\* the property itself, stated on the model: holds for the intended design, refuted by TLC with Dev_TopLevelOnly = TRUE
ModelHidesAllSensitive(c) == Hidden(c.levels) \subseteq ModelHidden(c.levels)
WellFormed(c)      == Len(c.levels) \in 1..DeepDepth /\ c.levels[1].kind = "obj" /\ AliasOK(c)
NeutralHidesNothing(c) == (\A j \in 1..Len(c.levels) : ~SpineSensAt(c.levels, j) /\ c.levels[j].sib # "sx") => HiddenC(c) = {}
\* flat claims: the oracle is the documented key-by-key redaction
FlatIsKeyByKey(c)  == Len(c.levels) = 1 =>
                        HiddenC(c) = (IF Sens(c.levels[1].key) THEN {"leaf"} ELSE {}) \cup (IF c.levels[1].sib = "sx" THEN {"sib1"} ELSE {})
\* a sensitive key hides its whole subtree (unless the subtree is also reachable through the neutral alias)
SubtreeHidden(c)   == \A j \in (1..Len(c.levels)) \ {c.alias} : SpineSensAt(c.levels, j) =>
                        ("leaf" \in HiddenC(c) /\ \A i \in (j + 1)..Len(c.levels) : c.levels[i].sib # "none" => SibId(i) \in HiddenC(c))
\* every hidden leaf is covered by a key that stays visible, and nothing is hidden without a sensitive key
HiddenIffCovered(c) == c.alias = 0 => ((HiddenC(c) # {}) <=> (MustShow(c.levels) # {}))
\* an alias can only make leaves reachable, never hide more
AliasOnlyReveals(c) == HiddenC(c) \subseteq Hidden(c.levels)
\* the intended design hides at least what top-level-only redaction hides, and they agree on flat claims
IntendedCoversTopLevel(c) == HiddenTopLevelOnly(c.levels) \subseteq Hidden(c.levels)
                             /\ (Len(c.levels) = 1 => HiddenTopLevelOnly(c.levels) = Hidden(c.levels))

\* ------------------------------------------------------------------ judging what the real code did
(* observation o:
     cfg      a member of Configs: how the record was produced
                mode "default" the default redactor / "raising" a custom redactor that raises
                level   level of the vgi_rpc.access logger          flavour  dict / non-dict Mapping
                auth    AuthContext.authenticated                    fmt      formatter ("capped": tiny max_record_bytes)
     emitted  a record was written
     shed     the formatter's byte cap shed fields of this record (then key visibility cannot be demanded)
     claims   the record has a non-empty `claims` member
     leaked   ids of the leaves whose unique marker occurs anywhere in the serialized line
     keys     [k<j>, s<j>]: "redacted" the key is present at its path and nothing of its subtree is in its value
                            "verbatim" the key is present and its value still contains a marker of its subtree
                            "missing"  the key is not at its path            "na" no such key in this tree       *)
Bad(name, cond) == IF cond THEN {} ELSE {name}
Range(q) == {q[j] : j \in 1..Len(q)}

Conforms(c, o) ==
  LET L == c.levels IN
  IF o.cfg.mode = "raising" THEN
         Bad("FailingRedactorDropsClaims", ~o.claims /\ Range(o.leaked) = {})
  ELSE   Bad("NoSensitiveValueInLog",      Range(o.leaked) \cap HiddenC(c) = {})
    \cup Bad("SensitiveKeyVisibleRedacted", (o.emitted /\ ~o.shed) => \A k \in MustShow(L) : o.keys[k] = "redacted")
=====================================================================================
