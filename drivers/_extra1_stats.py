"""X02 helpers: connections that cut a script run into *units* (pipe: one per call; HTTP: one per request) holding
what crossed the wire in that unit (decoded from bytes tapped off the transport) and what the server reported for it
(CallStatistics handed to on_dispatch_end, the six access-log fields, the snapshot seen at on_dispatch_start).

Pipe: the tap sits on the SERVER side of the pipe pair (reads / writes happen in the serve thread, so the byte counts
are ordered with the recorder's events); a unit ends when the serve loop has consumed every byte the client wrote and
is blocked reading the next request (`barrier`), i.e. after the dispatch's access-log record and hook end calls.
HTTP (in-process, synchronous): a unit is one POST; its events are those recorded while the request ran."""
import io
import threading
import time

from drivers import _extra1_world as W
from vgi_rpc.rpc import RpcConnection, RpcServer, make_pipe_pair
from vgi_rpc.rpc._transport import PipeTransport


class _SrvReader(io.RawIOBase):
    def __init__(self, inner, sink: bytearray, cond: threading.Condition) -> None:
        self._inner, self._sink, self._cond = inner, sink, cond
        self.waiting = False

    def readable(self) -> bool:
        return True

    def read(self, n: int = -1) -> bytes:
        with self._cond:
            self.waiting = True
            self._cond.notify_all()
        try:
            b = self._inner.read(n)
        finally:
            with self._cond:
                self.waiting = False
        if b:
            with self._cond:
                self._sink += b
                self._cond.notify_all()
        return b

    def readinto(self, buf) -> int:
        b = self.read(len(buf))
        if not b:
            return 0
        buf[:len(b)] = b
        return len(b)

    def close(self) -> None:
        try:
            self._inner.close()
        finally:
            super().close()


class _CountWriter(io.RawIOBase):
    def __init__(self, inner, sink: bytearray | None = None) -> None:
        self._inner, self._sink = inner, sink
        self.n = 0

    def writable(self) -> bool:
        return True

    def write(self, b) -> int:
        data = bytes(b)
        self.n += len(data)
        if self._sink is not None:
            self._sink += data
        self._inner.write(data)
        return len(data)

    def flush(self) -> None:
        if not self.closed:
            self._inner.flush()

    def close(self) -> None:
        try:
            self._inner.close()
        finally:
            super().close()


class StatsPipeConn:
    http = False

    def __init__(self, server_proto, impl, client_proto, behaviours: list[str]) -> None:
        self.server = RpcServer(server_proto, impl, enable_describe=True)
        self.counter = W.install_hooks(self.server, behaviours)
        ct, st = make_pipe_pair()
        self.c2s, self.s2c = bytearray(), bytearray()
        self.cond = threading.Condition()
        self.srv_reader = _SrvReader(st.reader, self.c2s, self.cond)
        self.st = PipeTransport(self.srv_reader, _CountWriter(st.writer, self.s2c))
        self.cli_writer = _CountWriter(ct.writer)
        self.ct = PipeTransport(ct.reader, self.cli_writer)
        self.died: list = []
        self.barrier_failed = False

        def serve():
            try:
                self.server.serve(self.st)
            except BaseException as e:  # noqa: BLE001
                self.died.append(repr(e))

        self.th = threading.Thread(target=serve, daemon=True)
        self.th.start()
        self.conn = RpcConnection(client_proto, self.ct)
        self.px = self.conn.__enter__()

    def barrier(self, timeout: float = 5.0) -> bool:
        end = time.monotonic() + timeout
        with self.cond:
            while not (self.srv_reader.waiting and len(self.c2s) == self.cli_writer.n):
                left = end - time.monotonic()
                if left <= 0 or not self.th.is_alive():
                    self.barrier_failed = True
                    return False
                self.cond.wait(min(left, 0.05))
        return True

    def marks(self):
        ok = self.barrier()
        with W._LOCK:
            nev = len(W.EVENTS)
        return {"c2s": len(self.c2s), "s2c": len(self.s2c), "ev": nev, "ok": ok}

    def describe(self):
        from vgi_rpc.introspect import introspect

        return introspect(self.ct)

    def units(self, marks: list, events: list) -> list:
        out = []
        for a, b in zip(marks, marks[1:]):
            out.append({"req": W.wire_batches(self.c2s[a["c2s"]:b["c2s"]]), "resp": W.wire_batches(self.s2c[a["s2c"]:b["s2c"]]),
                        "events": events[a["ev"]:b["ev"]], "complete": a["ok"] and b["ok"], "status": 0})
        return out

    def close(self, join_timeout: float = 10.0) -> bool:
        try:
            self.conn.__exit__(None, None, None)
        except Exception:  # noqa: BLE001
            pass
        try:
            self.ct.writer.close()
        except Exception:  # noqa: BLE001
            pass
        self.th.join(join_timeout)
        if self.th.is_alive():
            return False
        for t in (self.ct, self.st):
            try:
                t.close()
            except Exception:  # noqa: BLE001
                pass
        return True


class _UnitClient:
    """Wrapper around the in-process sync client: one unit per POST (bodies + the events recorded meanwhile)."""

    def __init__(self, inner) -> None:
        self._inner = inner
        self.prefix = inner.prefix
        self.units: list = []

    def post(self, url, **kw):
        with W._LOCK:
            e0 = len(W.EVENTS)
        r = self._inner.post(url, **kw)
        with W._LOCK:
            evs = list(W.EVENTS[e0:])
        self.units.append({"url": url, "req": W.wire_batches(kw.get("content", b"")), "resp": W.wire_batches(r.content),
                           "events": evs, "complete": True, "status": r.status_code})
        return r

    def __getattr__(self, name):
        return getattr(self._inner, name)


class StatsHttpConn:
    http = True

    def __init__(self, server_proto, impl, client_proto, behaviours: list[str], **kw) -> None:
        from vgi_rpc.http import http_connect
        from vgi_rpc.http._testing import make_sync_client

        self.server = RpcServer(server_proto, impl, enable_describe=True)
        self.counter = W.install_hooks(self.server, behaviours)
        kw.setdefault("compression_level", None)
        self.inner = make_sync_client(self.server, token_key=b"k" * 32, **kw)
        self.client = _UnitClient(self.inner)
        self._cm = http_connect(client_proto, client=self.client, compression_level=None)
        self.px = self._cm.__enter__()
        self.died: list = []

    def marks(self):
        return len(self.client.units)

    def describe(self):
        from vgi_rpc.http import http_introspect

        return http_introspect(client=self.client)

    def units(self, marks: list, events: list) -> list:
        return self.client.units[marks[0]:marks[-1]]

    def close(self, join_timeout: float = 0.0) -> bool:
        try:
            self._cm.__exit__(None, None, None)
        except Exception:  # noqa: BLE001
            pass
        return True


_SKEYS = ("ib", "ob", "ir", "orows", "iby", "oby")


def project_unit(u: dict) -> dict:
    """One unit -> the record TLC judges: wire counts by batch class, and the reports of the dispatch(es) in it."""
    req, resp = u["req"], u["resp"]
    und = [b for b in req + resp if "undecodable" in b]
    req = [b for b in req if "undecodable" not in b]
    resp = [b for b in resp if "undecodable" not in b]
    params = [b for b in req if b["req"]]
    cancels = [b for b in req if not b["req"] and b["cancel"]]
    ticks = [b for b in req if not b["req"] and not b["cancel"] and b["cols"] == 0]
    inputs = [b for b in req if not b["req"] and not b["cancel"] and b["cols"] > 0]
    wire = {"params": len(params), "paramRows": sum(b["rows"] for b in params), "paramBytes": sum(b["bytes"] for b in params),
            "inputs": len(inputs), "inputRows": sum(b["rows"] for b in inputs), "inputBytes": sum(b["bytes"] for b in inputs),
            "ticks": len(ticks), "cancels": len(cancels),
            "out": len(resp), "outRows": sum(b["rows"] for b in resp), "outBytes": sum(b["bytes"] for b in resp),
            "outLogs": sum(1 for b in resp if b["log"]), "outErrs": sum(1 for b in resp if b["err"]),
            "outTokens": sum(1 for b in resp if b["token"] and b["rows"] == 0),
            "undecodable": len(und)}
    reports, starts = [], []
    for e in u["events"]:
        if e["ev"] == "end" and e.get("stats") is not None:
            reports.append({"src": "hook", "m": e["m"], **{k: e["stats"][k] for k in _SKEYS}})
        elif e["ev"] == "end":
            reports.append({"src": "hook-nostats", "m": e["m"], **{k: -1 for k in _SKEYS}})
        elif e["ev"] == "alog" and e.get("stats") is not None:
            reports.append({"src": "alog", "m": e["m"], **{k: e["stats"][k] for k in _SKEYS}})
        elif e["ev"] == "alog":
            reports.append({"src": "alog-nostats", "m": e["m"], **{k: -1 for k in _SKEYS}})
        elif e["ev"] == "start" and e.get("stats") is not None:
            starts.append({k: e["stats"][k] for k in _SKEYS})
    return {"wire": wire, "reports": reports, "starts": starts, "complete": bool(u["complete"]), "status": u["status"],
            "nproc": sum(1 for e in u["events"] if e["ev"] == "proc"), "nbody": sum(1 for e in u["events"] if e["ev"] == "body"),
            "cancelled": any(e["ev"] == "cancel" for e in u["events"])}


def run_units(conn, script: list, xs: list) -> dict:
    W.take_events()
    res, hung = W.with_watchdog(lambda: W.run_script(conn, script, xs), 10.0)
    if res is None:
        if not conn.http:
            conn.close(0.5)
        return {"hung": True, "hist": [], "units": []}
    with W._LOCK:
        events = list(W.EVENTS)
    units = conn.units(res["marks"], events)
    return {"hung": False, "hist": res["hist"], "obsd": res["obsd"], "units": [project_unit(u) for u in units],
            "died": list(conn.died)}
