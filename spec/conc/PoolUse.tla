----------------------------------- MODULE PoolUse -----------------------------------
(* C32, connection cleanliness (level 2): what a borrower may do with a pooled connection, and what the next
   borrower must find.  A decision table: no state machine, one row per (borrower script, position, max_idle).

   Borrower scripts (pos = how many batches were read before leaving / which log message the on_log callback
   raises on -- "every read position"; exc = what the callback raises: a plain Exception, an OSError of its own
   (e.g. BrokenPipeError while printing the log line -- indistinguishable by type from a wire failure), or a
   BaseException that is no Exception (KeyboardInterrupt, asyncio.CancelledError)):
     clean    s_unary  s_stream_full  s_stream_close(0,1,3)  s_stream_cancel(0,2)  s_xchg_close(0,2)
              s_unary_error(0,1)  s_stream_error(0..2)  s_init_error(0: header-less)  s_xchg_error
                                             -- the *server* raised; the borrower goes on or leaves
     abandon  s_abandon(0..3)  s_abandon_hdr(0,1)  s_tick_intr(1..3; Exception, Base)  s_xchg_intr(1,2; Exception, Base)
              s_hdr_intr(1,2; any exc)  s_abandon_then_unary(0,1)
              s_init_error(1: header declared -- a stream request without a session; the pool cannot tell it from s_hdr_intr)
                                             -- the stream (or its init) is left unfinished, nothing closed after it
     nonlast  s_abandon_then_close(0..2)  s_abandon_then_cancel(1)  s_closed_then_hdr_intr(1,2; any exc)
              -- a stream / a stream init is left unfinished, but the most recent StreamSession object is closed
     intr     s_unary_intr(1..3; any exc)   unary call whose on_log raises at log pos
              s_close_intr(1..3; any exc)   on_log raises while close() drains the unread rest of an interrupted turn
              s_tick_intr(1..3; OSError)  s_xchg_intr(1,2; OSError)   a stream turn whose on_log raises something the
                                            client takes for a wire failure (it marks the session closed without draining)
              -- a call / turn / drain cut short by a client-side exception after which no stream is visibly left
                 open: either the client reads the response to its end after all, or the pool must not reuse the worker
   After the script the first borrower leaves its `with pool.connect(...)`; a second borrower connects, echoes two
   values only it knows and reads a small stream.

   Observation o = [first_ok, reused, probe_ok, own_ok, second_alive, idle_after_first, idle_end]
     reused          the second borrower was handed the first borrower's worker process
     probe_ok        its first echo returned its own value      own_ok   so did everything it read afterwards
     second_alive    the worker handed to it was alive (poll() is None) at hand-out                              *)
EXTENDS Naturals, Sequences, FiniteSets

Row(k, s, ps, es) == {[kind |-> k, script |-> s, pos |-> p, exc |-> e] : p \in ps, e \in es}
N == {"none"}
E == {"Exception"}
O == {"OSError"}
EB == {"Exception", "Base"}
AnyExc == {"Exception", "OSError", "Base"}
Scripts ==
  Row("clean", "s_unary", {0}, N) \cup Row("clean", "s_stream_full", {0}, N) \cup Row("clean", "s_stream_close", {0, 1, 3}, N)
  \cup Row("clean", "s_stream_cancel", {0, 2}, N) \cup Row("clean", "s_xchg_close", {0, 2}, N)
  \cup Row("clean", "s_unary_error", {0, 1}, N) \cup Row("clean", "s_stream_error", {0, 1, 2}, N)
  \cup Row("clean", "s_init_error", {0}, N) \cup Row("clean", "s_xchg_error", {0}, N)
  \cup Row("abandon", "s_abandon", {0, 1, 2, 3}, N) \cup Row("abandon", "s_abandon_hdr", {0, 1}, N)
  \cup Row("abandon", "s_tick_intr", {1, 2, 3}, EB) \cup Row("abandon", "s_xchg_intr", {1, 2}, EB)
  \cup Row("abandon", "s_hdr_intr", {1, 2}, AnyExc) \cup Row("abandon", "s_abandon_then_unary", {0, 1}, N)
  \cup Row("abandon", "s_init_error", {1}, N)
  \cup Row("nonlast", "s_abandon_then_close", {0, 1, 2}, N) \cup Row("nonlast", "s_abandon_then_cancel", {1}, N)
  \cup Row("nonlast", "s_closed_then_hdr_intr", {1, 2}, AnyExc)
  \cup Row("intr", "s_unary_intr", {1, 2, 3}, AnyExc) \cup Row("intr", "s_close_intr", {1, 2, 3}, AnyExc)
  \cup Row("intr", "s_tick_intr", {1, 2, 3}, O) \cup Row("intr", "s_xchg_intr", {1, 2}, O)
MaxIdles == {0, 1, 2}
\* shm = the pool was created with shm_size (every borrow gets its own shared-memory segment): explored at max_idle 1
Cases == {[kind |-> r.kind, script |-> r.script, pos |-> r.pos, exc |-> r.exc, mi |-> m, shm |-> FALSE] : r \in Scripts, m \in MaxIdles}
         \cup {[kind |-> r.kind, script |-> r.script, pos |-> r.pos, exc |-> r.exc, mi |-> 1, shm |-> TRUE] : r \in Scripts}

OffBoundary(c) == c.kind # "clean"       \* the script leaves the connection in the middle of a message exchange
\* the intended pool: never keeps an off-boundary connection, never keeps more than max_idle workers
Expected(c) == [may_reuse |-> ~OffBoundary(c) /\ c.mi > 0, idle_max |-> c.mi]

\* table sanity: every kind has rows at several positions; a reusable row exists for every max_idle > 0
KindsCovered(c) == /\ \A k \in {"clean", "abandon", "nonlast", "intr"} : \E r \in Scripts : r.kind = k /\ r.pos > 0
                   /\ \A e \in AnyExc : \E r \in Scripts : r.exc = e
ReuseOnlyWhenIdleAllowed(c) == Expected(c).may_reuse => c.mi > 0

Clause(name, ok) == IF ok THEN {} ELSE {name}
Conforms(c, o) ==
       Clause("HandoutClean", o.reused => o.probe_ok)
  \cup Clause("OwnAnswers", o.probe_ok => o.own_ok)
  \cup Clause("HandoutAlive", o.second_alive)
  \cup Clause("IdleBound", o.idle_after_first <= c.mi /\ o.idle_end <= c.mi)
  \cup Clause("FirstBorrowerServed", o.first_ok)
  \* not a property clause: the table says off-boundary, the pool reused it, and the next borrower was fine
  \* ("intr" rows are exempt: a client that drains after all makes the connection reusable)
  \cup Clause("drift:TableSaysOffBoundaryButReuseWasFine",
             ~(c.kind \in {"abandon", "nonlast"} /\ o.reused /\ o.probe_ok /\ o.own_ok))
=========================================================================================
