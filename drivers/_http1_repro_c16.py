"""C16 repro: uploads beyond max_externalized_response_bytes (prediction gap; uncounted stream header)."""
import os, sys
sys.path.insert(0, os.environ.get("VERIF_REPO", "/repo"))
from dataclasses import dataclass
from typing import Protocol
import pyarrow as pa
from vgi_rpc.external import ExternalLocationConfig
from vgi_rpc.http._testing import make_sync_client
from vgi_rpc.http import http_connect
from vgi_rpc.rpc import CallContext, OutputCollector, ProducerState, RpcError, RpcServer, Stream, StreamState
from vgi_rpc.utils import ArrowSerializableDataclass

S = pa.schema([pa.field("p", pa.binary())])
uploads = []
class Store:
    def upload(self, data, schema, *, content_encoding=None):
        uploads.append(len(data)); return f"https://s.test/{len(uploads)}"
@dataclass(frozen=True)
class H(ArrowSerializableDataclass):
    blob: bytes
@dataclass
class PS(ProducerState):
    i: int = 0
    def produce(self, out: OutputCollector, ctx: CallContext) -> None:
        if self.i == 2: out.finish(); return
        out.emit(pa.RecordBatch.from_pydict({"p": [b"x" * 1000]}, schema=S)); self.i += 1
class Svc(Protocol):
    def u(self) -> bytes: ...
    def prod(self) -> Stream[StreamState]: ...
    def prodh(self) -> Stream[StreamState, H]: ...
class Impl:
    def u(self) -> bytes: return b"x" * 1000
    def prod(self) -> Stream[PS]: return Stream(output_schema=S, state=PS())
    def prodh(self) -> Stream[PS, H]: return Stream(output_schema=S, state=PS(), header=H(blob=b"h" * 5000))

def world(ext_cap, wire_cap=None):
    del uploads[:]
    srv = RpcServer(Svc, Impl(), external_location=ExternalLocationConfig(storage=Store(), externalize_threshold_bytes=500, url_validator=None))
    return make_sync_client(srv, token_key=b"k" * 32, max_externalized_response_bytes=ext_cap, max_response_bytes=wire_cap)

# (1) unary: logical size 1008 <= cap 1100 < 1296 uploaded bytes: upload() is called, then the response is refused
with http_connect(Svc, client=world(1100)) as p:
    try: p.u(); out = "ok"
    except RpcError as e: out = "RpcError"
print(f"unary    cap=1100 uploads={uploads} -> {out}")
# (2) producer turn (two batches in one turn): second upload passes the pre-flight on its logical size, no post-check
c = world(2400, wire_cap=1 << 20)
import pyarrow.ipc as ipc, io
from vgi_rpc.metadata import RPC_METHOD_KEY, REQUEST_VERSION_KEY, REQUEST_VERSION
def init(c, m):
    b = io.BytesIO()
    with ipc.new_stream(b, pa.schema([])) as w:
        w.write_batch(pa.RecordBatch.from_pydict({}, schema=pa.schema([])), custom_metadata=pa.KeyValueMetadata({RPC_METHOD_KEY: m.encode(), REQUEST_VERSION_KEY: REQUEST_VERSION}))
    return c.post(f"/{m}/init", content=b.getvalue(), headers={"Content-Type": "application/vnd.apache.arrow.stream"})
resp = init(c, "prod")
print(f"producer cap=2400 uploads={uploads} sum={sum(uploads)} error_header={resp.headers.get('x-vgi-rpc-error')!r}")
# (3) stream header: uploaded without pre-flight, never counted
c = world(1500)
resp = init(c, "prodh")
print(f"header   cap=1500 uploads={uploads} error_header={resp.headers.get('x-vgi-rpc-error')!r}")
