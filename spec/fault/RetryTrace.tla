---------------------------- MODULE RetryTrace ----------------------------
(* Batch trace validation for Retry: every recorded real execution (configuration + log of send / sleep /
   ext / end events) must be a behaviour of Retry's actions (conformance), and Retry's property clauses are
   evaluated on the recorded log itself (so a log the model cannot follow is still judged clause by clause).

   TRACE_FILE: JSON array of [cfg |-> <configuration record>, log |-> <<events>>].
   Registers (initialised in the ASSUME, read in the POSTCONDITION, -workers 1):
       tid            furthest event index consumed for trace tid                                         *)
EXTENDS Retry, IOUtils, TLCExt
Traces == JsonDeserialize(IOEnv.TRACE_FILE)
VARIABLES tid, l
tvars == <<vars, tid, l>>

TraceInit == /\ tid \in 1..Len(Traces) /\ l = 1 /\ InitWith(Traces[tid].cfg)
TLog == Traces[tid].log
Ev == TLog[l]
IsEvent(e) == l <= Len(TLog) /\ Ev.e = e /\ l' = l + 1 /\ UNCHANGED tid

TraceNext ==
  \/ IsEvent("send") /\ (Send(Ev.o) \/ XPost(Ev.o))
  \/ IsEvent("csend") /\ XCancelPost(Ev.o)
  \/ IsEvent("sleep") /\ ~Ev.nan /\ SleepObs(Ev.dlo, Ev.dhi)
  \/ IsEvent("ext") /\ XExt(Ev.x)
  \/ IsEvent("end") /\ End /\ result = Ev.r
TraceSpec == TraceInit /\ [][TraceNext]_tvars

Progress == TLCSet(tid, IF TLCGet(tid) < l THEN l ELSE TLCGet(tid))
Constr == Progress
ASSUME \A i \in 1..Len(Traces) : TLCSet(i, 0)

\* verdict per trace: accepted (all events consumed and the behaviour is complete), index of the first
\* unexplained event otherwise, and the set of property clauses false on the recorded log
Verdict(i) == [i |-> i,
               matched |-> TLCGet(i) - 1,
               len |-> Len(Traces[i].log),
               accepted |-> TLCGet(i) = Len(Traces[i].log) + 1,
               bad |-> Violated(Traces[i].cfg, Traces[i].log)]
Report == \A i \in 1..Len(Traces) :
            LET v == Verdict(i) IN
              (v.accepted /\ v.bad = {}) \/ PrintT("@@J@@" \o ToJson(v))
=============================================================================
